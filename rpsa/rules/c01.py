"""C01  Pilot resources are never oversubscribed  (DESIGN 5 / C01)"""

import ast

from ..model import (walk, dotted, call_name, kwarg, unparse, short, UNKNOWN,
                     root_name, AnalysisError, calls_in, names_in,
                     stores_in_target)
from ..cfg import cfg_of
from ..flow import (Deps, guards, must_pass, Exploration, loop_slice,
                    reaching_defs)
from .. import idioms as I

BASE  = ('agent/scheduler/base.py', 'AgentSchedulingComponent')
CONT  = ('agent/scheduler/continuous.py', 'Continuous')
JSRUN = ('agent/scheduler/continuous_jsrun.py', 'ContinuousJsrun')
RM    = ('agent/resource_manager/base.py', 'ResourceManager')
NODE  = ('resource_config.py', 'Node')
KINDS = ('cores', 'gpus', 'lfs', 'mem')
SETUP = {'__init__', 'initialize', '_configure'}


def consts(prog):
    free = prog.const('constants.py', 'FREE')
    busy = prog.const('constants.py', 'BUSY')
    down = prog.const('constants.py', 'DOWN')
    return free, busy, down


def sched_classes(prog):
    base = prog.cls(*BASE)
    return base, [prog.cls(*CONT), prog.cls(*JSRUN)]


# ------------------------------------------------------------------------------
# R01.1  single writer of occupancy
#
def _const_test(e):
    """truth of a test that only compares literals (True / False), None when
    it depends on anything else"""
    if isinstance(e, ast.Constant):
        return bool(e.value)
    if isinstance(e, ast.UnaryOp) and isinstance(e.op, ast.Not):
        v = _const_test(e.operand)
        return None if v is None else not v
    if isinstance(e, ast.BoolOp):
        vs = [_const_test(v) for v in e.values]
        if isinstance(e.op, ast.And):
            return False if False in vs else None if None in vs else True
        return True if True in vs else None if None in vs else False
    if isinstance(e, ast.Compare) and len(e.ops) == 1 and \
            isinstance(e.left, ast.Constant) and \
            isinstance(e.comparators[0], ast.Constant) and \
            isinstance(e.ops[0], (ast.Eq, ast.NotEq)):
        same = type(e.left.value) is type(e.comparators[0].value) and \
            e.left.value == e.comparators[0].value
        return same if isinstance(e.ops[0], ast.Eq) else not same
    return None


def _dead_ids(fnode):
    """ids of the ast nodes below the arm of an `if` that can never run
    because the test compares two literals (the table expansion of the
    normalised views leaves such chains behind)"""
    dead = set()
    for n in walk(fnode, nested=True):
        if not isinstance(n, ast.If):
            continue
        v = _const_test(n.test)
        if v is None:
            continue
        for s in (n.orelse if v else n.body):
            for x in ast.walk(s):
                dead.add(id(x))
    return dead


def _live_alias(al, mname, f, name, dead):
    """some binding of the local `name` that can run gives it a part of the
    root object (or it is a parameter that receives one)"""
    if name in f.params:
        return True
    for n in walk(f.node, nested=True):
        if id(n) in dead:
            continue
        if isinstance(n, ast.Assign):
            if any(name in stores_in_target(t) for t in n.targets) and \
                    al.is_rooted_expr(mname, n.value):
                return True
        elif isinstance(n, (ast.For, ast.comprehension)):
            if name in stores_in_target(n.target) and \
                    al.is_rooted_expr(mname, n.iter):
                return True
    return False


def r01_1(prog, rep, rid='R01.1', extra_classes=()):
    rep.rule(rid, 'only _change_slot_states writes through self.nodes '
             '(occupancy has a single owner; the search is read-only)',
             minimum=8)
    base, classes = sched_classes(prog)
    for K in list(classes) + list(extra_classes):
        methods = I.class_methods(prog, K, stop_at=base)
        al = I.Aliases(prog, K, methods, 'self.nodes')
        for mname, f in sorted(methods.items()):
            rep.saw(f)
            dead = None
            for kind, target, stmt in I.stores(f.node, nested=True):
                if not al.is_rooted_expr(mname, target):
                    continue
                r = root_name(target)
                if r and r != 'self' and mname != '_change_slot_states':
                    # the alias set is flow insensitive: a name only counts
                    # when a binding that can run makes it a part of a node
                    if dead is None:
                        dead = _dead_ids(f.node)
                    if id(stmt) in dead or \
                            not _live_alias(al, mname, f, r, dead):
                        continue
                what = '%s: %s writes %s' % (K.name, f.qual, short(target, 60))
                if mname == '_change_slot_states':
                    rep.ok(rid, f, what, f.loc(stmt))
                    continue
                if unparse(target) == 'self.nodes' and mname in SETUP:
                    continue
                rep.bad(rid, f, stmt,
                        'occupancy written outside the owner: %s (%s) in %s - '
                        'the search/bookkeeping code must not change node '
                        'state; a failed or partial search would leak or '
                        'double-book resources' % (short(target, 60), kind,
                                                   f.qual),
                        f.loc(stmt),
                        history='any request that reaches this statement '
                        'changes node state without a matching release')


# ------------------------------------------------------------------------------
# R01.2  grant => mark (and count, see R03.3)
#
def grant_paths(prog, rep, K, rid):
    """common part of R01.2 / R03.3: in _try_allocation find the result of
    schedule_task, the truthy branch on it, and return (f, cfg, var, start
    node ids of the grant region)"""
    f = prog.find_method(K, '_try_allocation')
    if f is None:
        raise AnalysisError('%s has no _try_allocation' % K.name)
    g = cfg_of(f)
    var, call_node = None, None
    for n in g.stmt_nodes():
        if n.kind == 'stmt' and isinstance(n.ast, ast.Assign) and \
                isinstance(n.ast.value, ast.Call) and \
                call_name(n.ast.value) == 'self.schedule_task':
            t = n.ast.targets[0]
            if isinstance(t, ast.Tuple) and t.elts and \
                    isinstance(t.elts[0], ast.Name):
                var = t.elts[0].id
            elif isinstance(t, ast.Name):
                var = t.id
            call_node = n
    if var is None:
        raise AnalysisError('UNRECOGNISED-IDIOM %s: result of '
                            'self.schedule_task() is not bound to a name'
                            % f.where)
    # tests on the truth of the placement (possibly several: `if not slots
    # and ..: raise` followed by `if not slots: return False`)
    tests = [n for n in g.nodes if n.kind == 'test' and
             isinstance(n.ast, ast.Name) and n.ast.id == var and
             call_node.id in _ancestors(g, n.id)]
    if not tests:
        raise AnalysisError('UNRECOGNISED-IDIOM %s: no truth test on the '
                            'placement %r found' % (f.where, var))
    starts = Grant(g, call_node, tests)
    # var must not be re-bound after the call
    for n in g.stmt_nodes():
        if n is call_node or n.kind != 'stmt':
            continue
        if isinstance(n.ast, (ast.Assign, ast.AugAssign)):
            tg = n.ast.targets if isinstance(n.ast, ast.Assign) \
                else [n.ast.target]
            for t in tg:
                for e in I._flat(t):
                    if isinstance(e, ast.Name) and e.id == var:
                        rep.bad(rid, f, n.ast, 'placement variable %r is '
                                're-bound after the search: what is marked '
                                'is not what was found' % var, f.loc(n.ast))
    return f, g, var, starts


class Grant:
    """the granting / not-granting region of _try_allocation: paths from the
    schedule_task() call on which the placement is truthy (resp. falsy) at
    every test of it"""

    def __init__(self, g, call_node, tests):
        self.g = g
        self.call = call_node
        self.tests = tests
        self.falsy = [(t.id, 'F') for t in tests]
        self.truthy = [(t.id, 'T') for t in tests]

    def granted(self, skip_nodes=()):
        """nodes reachable from the call while the placement is truthy"""
        return self.g.reachable(self.call.id, skip_nodes=set(skip_nodes),
                                skip_edges=self.falsy,
                                labels={'next', 'T', 'F', 'iter', 'done'})

    def refused(self, skip_nodes=()):
        return self.g.reachable(self.call.id, skip_nodes=set(skip_nodes),
                                skip_edges=self.truthy,
                                labels={'next', 'T', 'F', 'iter', 'done'})

    def must_pass(self, via):
        """every granting path to the normal exit passes one of `via`"""
        return self.g.exit.id not in self.granted(skip_nodes=via)

    def only_granted(self, ids):
        """none of `ids` is reachable while the placement is falsy, nor
        before the search"""
        before = self.g.reachable(self.g.entry.id,
                                  skip_nodes={self.call.id})
        return not (set(ids) & (self.refused() | before))


def _ancestors(g, nid):
    seen = set()
    todo = [nid]
    while todo:
        n = todo.pop()
        for e in g.pred[n]:
            if e.src not in seen:
                seen.add(e.src)
                todo.append(e.src)
    return seen


def r01_2(prog, rep, rid='R01.2'):
    rep.rule(rid, 'in _try_allocation every granting path marks exactly the '
             'slots found BUSY and attaches them to the task', minimum=4)
    free, busy, down = consts(prog)
    base, classes = sched_classes(prog)
    for K in classes:
        f, g, var, starts = grant_paths(prog, rep, K, rid)
        rep.saw(f)
        marks, attaches, wrong = [], [], []
        for n in g.stmt_nodes():
            if n.kind != 'stmt':
                continue
            for c in calls_in(n.ast):
                if call_name(c) == 'self._change_slot_states':
                    a0 = kwarg(c, 'slots', 0)
                    a1 = kwarg(c, 'new_state', 1)
                    v1 = prog.fold(f.module, a1) if a1 is not None else UNKNOWN
                    if isinstance(a0, ast.Name) and a0.id == var and \
                            v1 == busy and v1 is not UNKNOWN:
                        marks.append(n.id)
                    else:
                        wrong.append(n)
            if isinstance(n.ast, ast.Assign) and \
                    isinstance(n.ast.value, ast.Name) and \
                    n.ast.value.id == var:
                for t in n.ast.targets:
                    if isinstance(t, ast.Subscript) and \
                            isinstance(t.slice, ast.Constant) and \
                            t.slice.value == 'slots':
                        attaches.append(n.id)
        for n in wrong:
            rep.bad(rid, f, n.ast, '%s: _change_slot_states is not called '
                    'with (%s, rpc.BUSY): the slots marked differ from the '
                    'slots granted, or they are not marked BUSY'
                    % (K.name, var), f.loc(n.ast),
                    history='two tasks scheduled one after the other receive '
                    'the same cores')
        for what, via in (('marks the found slots BUSY', marks),
                          ('attaches the found slots to the task', attaches)):
            okay = bool(via) and starts.must_pass(via)
            rep.check(okay, rid, f,
                      '%s: every granting path of _try_allocation %s'
                      % (K.name, what),
                      construct='%s:%s' % (K.name, what),
                      message='%s: a path from a successful schedule_task() '
                      'to the normal return of _try_allocation does not pass '
                      'a statement that %s' % (K.name, what),
                      loc=f.loc(),
                      history='the task is started while its cores still '
                      'look FREE; the next request is granted the same cores')
        rep.stat('cfg_nodes', len(g.nodes))


# ------------------------------------------------------------------------------
# R01.3  every start is a grant
#
def r01_3(prog, rep, rid='R01.3'):
    rep.rule(rid, 'every hand-on to AGENT_EXECUTING_PENDING in the scheduler is '
             'fed by a successful _try_allocation or marks the supplied slots',
             minimum=3)
    free, busy, down = consts(prog)
    base = prog.cls(*BASE)
    target = prog.const('states.py', 'AGENT_EXECUTING_PENDING')
    n_sites = 0
    for mname, f in sorted(base.methods.items()):
        g = None
        for c in calls_in(f.node, nested=False):
            if not I.is_handon(c):
                continue
            if I.handon_state(prog, f, c) != target:
                continue
            n_sites += 1
            rep.saw(f)
            g = g or cfg_of(f)
            smap = I.stmt_node_map(g)
            node = smap.get(id(c))
            thing = I.handon_thing(c)
            tname = thing.id if isinstance(thing, ast.Name) else None
            # (a) first result of lazy_bisect(check=self._try_allocation)
            if tname and _from_bisect(f, tname):
                rep.ok(rid, f, 'start of %r is fed by the first result of '
                       'lazy_bisect(check=self._try_allocation)' % tname,
                       f.loc(c))
                continue
            # (b) guarded by the truthy branch of self._try_allocation(thing)
            okb = granted_by_try(f, g, node, thing)
            if okb:
                rep.ok(rid, f, 'start of %r is guarded by a true '
                       'self._try_allocation(%s)' % (tname, tname), f.loc(c))
                continue
            # (c) pre-placed: must pass a BUSY marking of the task's slots
            marks = []
            for n in g.stmt_nodes():
                if n.kind != 'stmt':
                    continue
                for c2 in calls_in(n.ast):
                    if call_name(c2) == 'self._change_slot_states':
                        a1 = kwarg(c2, 'new_state', 1)
                        if a1 is not None and \
                                prog.fold(f.module, a1) == busy:
                            marks.append(n.id)
            # the region of the pre-placed branch: start at the innermost
            # loop iteration that contains the hand-on
            start = g.entry.id
            if node.loops:
                from ..flow import loop_slice
                start = loop_slice(g, node.loops[-1])[0]
            marked = bool(marks) and must_pass(g, start, node.id, marks)
            rep.check(marked, rid, f,
                      'start of a task with application-supplied slots marks '
                      'them BUSY first',
                      construct=c,
                      message='a task is handed to the executor without a '
                      'grant: not the result of _try_allocation and its slots '
                      'are not marked BUSY on this path',
                      loc=f.loc(c),
                      history='task A arrives with td.slots naming core 0 of '
                      'node 0 and is started; task B is then granted core 0 '
                      'of node 0 by the scheduler: both run on it')
            # availability test (K1): a call on the path whose callee reads
            # node occupancy - none exists today
            avail = _availability_test(prog, f, g, start, node, base)
            rep.check(avail, 'R01.3b', f,
                      'application-supplied slots are tested against current '
                      'occupancy before the start',
                      construct=c,
                      message='application-supplied slots are started without '
                      'any test against current occupancy',
                      loc=f.loc(c),
                      history='td.slots of two tasks name the same core; both '
                      'are started')
    rep.rule('R01.3b', 'application-supplied slots are tested against '
             'occupancy before they are started', minimum=1)
    if n_sites < 3:
        raise AnalysisError('R01.3: only %d hand-on sites to '
                            'AGENT_EXECUTING_PENDING found (expected >= 3)'
                            % n_sites)


def granted_by_try(f, g, node, thing=None):
    """node is control dependent on a true self._try_allocation(thing) -
    tested directly or through a local that is assigned once from the call"""
    for tid, lab in guards(g, node.id):
        a = g.nodes[tid].ast
        if lab != 'T':
            continue
        call = None
        if isinstance(a, ast.Call):
            call = a
        elif isinstance(a, ast.Name):
            defs = [n for n in walk(f.node) if isinstance(n, ast.Assign) and
                    any(isinstance(t, ast.Name) and t.id == a.id
                        for t in n.targets)]
            if len(defs) == 1 and isinstance(defs[0].value, ast.Call):
                call = defs[0].value
        if call is not None and call_name(call) == 'self._try_allocation' \
                and call.args and (thing is None or
                                   unparse(call.args[0]) == unparse(thing)):
            return True
    return False


def _from_bisect(f, name):
    for n in walk(f.node):
        if isinstance(n, ast.Assign) and isinstance(n.value, ast.Call) and \
                call_name(n.value).endswith('lazy_bisect'):
            chk = kwarg(n.value, 'check')
            if chk is None or unparse(chk) != 'self._try_allocation':
                continue
            t = n.targets[0]
            if isinstance(t, ast.Tuple) and t.elts and \
                    isinstance(t.elts[0], ast.Name) and t.elts[0].id == name:
                return True
    return False


def _availability_test(prog, f, g, start, node, base):
    """a resolved self-call between start and node whose callee (depth 2)
    compares something below self.nodes"""
    region = g.reachable(start) & (_ancestors(g, node.id) | {node.id})
    for nid in region:
        n = g.nodes[nid]
        for c in I.stmt_calls(n):
            callee = prog.resolve_call(f, c)
            if callee is None or callee.cls is None:
                continue
            if _reads_occupancy(prog, callee, 2):
                if callee.name in ('_change_slot_states', 'slot_status',
                                   'advance'):
                    continue
                return True
    return False


def _reads_occupancy(prog, f, depth):
    src = unparse(f.node)
    if 'self.nodes' in src:
        for n in walk(f.node):
            if isinstance(n, ast.Compare) and ("['cores']" in unparse(n) or
                                               "['gpus']" in unparse(n)):
                return True
    if depth <= 0:
        return False
    for c in calls_in(f.node):
        g = prog.resolve_call(f, c)
        if g is not None and g is not f and g.cls is not None:
            if _reads_occupancy(prog, g, depth - 1):
                return True
    return False


# ------------------------------------------------------------------------------
# R01.4  the search tests every kind the marking debits
#
def find_resources_info(prog, K):
    """(FuncInfo, cfg, deps, node param, result var, append nodes)"""
    f = prog.find_method(K, '_find_resources')
    if f is None:
        raise AnalysisError('%s has no _find_resources' % K.name)
    g = cfg_of(f)
    d = Deps(f.node)
    params = [p for p in f.params if p != 'self']
    if not params:
        raise AnalysisError('%s: no node parameter' % f.where)
    # node parameter: the one that is subscripted with 'cores'
    nodevar = None
    for n in walk(f.node):
        if isinstance(n, ast.Subscript) and isinstance(n.slice, ast.Constant) \
                and n.slice.value == 'cores' and isinstance(n.value, ast.Name) \
                and n.value.id in params:
            nodevar = n.value.id
    if nodevar is None:
        raise AnalysisError('UNRECOGNISED-IDIOM %s: no parameter is read as '
                            "<node>['cores']" % f.where)
    # result variable: returned name which has .append calls
    res = None
    for n in walk(f.node):
        if isinstance(n, ast.Return) and isinstance(n.value, ast.Name):
            res = n.value.id
    if res is None:
        raise AnalysisError('UNRECOGNISED-IDIOM %s: no returned list' % f.where)
    smap = I.stmt_node_map(g)
    appends = []
    for c in calls_in(f.node):
        if call_name(c) == res + '.append':
            appends.append(smap[id(c)])
    if not appends:
        raise AnalysisError('UNRECOGNISED-IDIOM %s: %s.append not found'
                            % (f.where, res))
    return f, g, d, nodevar, res, appends


def controlling(g, target_ids):
    """test / for-head nodes with an out-edge from which none of target_ids
    is reachable without coming back through the node itself"""
    out = []
    for n in g.nodes:
        if n.kind not in ('test', 'for'):
            continue
        for e in g.succ[n.id]:
            if e.label == 'exc':
                continue
            r = g.reachable(e.dst, skip_nodes={n.id})
            if not (set(target_ids) & r):
                out.append((n, e.label))
                break
    return out


def tested_kinds(prog, K):
    f, g, d, nodevar, res, appends = find_resources_info(prog, K)
    ctl = controlling(g, [a.id for a in appends])
    kinds = {}
    for n, lab in ctl:
        expr = n.ast.iter if n.kind == 'for' else n.ast
        dep = d.expr_depends(expr)
        for k in KINDS:
            if "%s[%r]" % (nodevar, k) in dep:
                kinds.setdefault(k, n)
    return f, kinds, len(ctl)


def debited_kinds(prog, K):
    f = prog.find_method(K, '_change_slot_states')
    # local aliases of parts of a node: cores = node['cores']
    alias = {}
    for n in walk(f.node):
        if isinstance(n, ast.Assign) and len(n.targets) == 1 and \
                isinstance(n.targets[0], ast.Name) and I.is_path(n.value):
            alias[n.targets[0].id] = unparse(n.value)
    kinds = {}
    for kind, target, stmt in I.stores(f.node):
        r = root_name(target)
        if r in ('slot', 'slots'):
            continue
        text = unparse(target)
        seen = set()
        while r in alias and r not in seen:
            seen.add(r)
            text = alias[r] + ' ' + text
            r = alias[r].split('[')[0].split('.')[0]
        for k in KINDS:
            if "['%s']" % k in text:
                kinds.setdefault(k, stmt)
        # node[kind][..] = .. / node[kind] += .. below `for kind in ('cores',
        # 'gpus')`: the store writes every kind the literal loop names
        for x in walk(target):
            if isinstance(x, ast.Subscript) and isinstance(x.slice, ast.Name):
                for k in _literal_loop_values(f, x.slice.id) or ():
                    if k in KINDS:
                        kinds.setdefault(k, stmt)
    return f, kinds


def _literal_loop_values(f, name):
    """the constants `name` ranges over when its only bindings are `for name
    in (<literals>)` loops; None otherwise"""
    vals = []
    for n in walk(f.node, nested=True):
        tgts = []
        if isinstance(n, ast.Assign):
            tgts = n.targets
        elif isinstance(n, (ast.AugAssign, ast.AnnAssign, ast.comprehension)):
            tgts = [n.target]
        elif isinstance(n, ast.For):
            if name in stores_in_target(n.target):
                if isinstance(n.target, ast.Name) and \
                        isinstance(n.iter, (ast.Tuple, ast.List)) and \
                        all(isinstance(x, ast.Constant) for x in n.iter.elts):
                    vals += [x.value for x in n.iter.elts]
                    continue
                return None
        if any(name in stores_in_target(t) for t in tgts):
            return None
    if name in f.params:
        return None
    return vals or None


def r01_4(prog, rep, rid='R01.4'):
    rep.rule(rid, 'every resource kind written by _change_slot_states is '
             'availability-tested by the same class\'s _find_resources',
             minimum=8)
    base, classes = sched_classes(prog)
    for K in classes:
        cf, deb = debited_kinds(prog, K)
        ff, tst, nctl = tested_kinds(prog, K)
        rep.saw(cf)
        rep.saw(ff)
        rep.stat('controlling_tests', nctl)
        if len(deb) < 4:
            raise AnalysisError('R01.4: %s writes only kinds %s'
                                % (cf.where, sorted(deb)))
        for k in sorted(deb):
            rep.check(k in tst, rid, ff,
                      "%s: kind %r is debited by %s and tested in %s"
                      % (K.name, k, cf.qual, ff.qual),
                      construct='%s:%s' % (K.name, k),
                      message="%s._find_resources never tests the node's "
                      "free %r although %s debits it: a slot is granted "
                      "whatever the node has left" % (K.name, k, cf.qual),
                      loc=ff.loc(),
                      history="two tasks each asking for the node's full %s "
                      "are both placed on that node; node[%r] goes negative"
                      % (k, k))


# ------------------------------------------------------------------------------
# R01.5 / R01.6   pick guards, multi-pick accounting
#
def pick_sites(prog, f, g, d, kinds_loc):
    """[(cfg node, call, kind)]: append calls that record a core / gpu index.
    kinds_loc: {kind: location string read for that kind}"""
    smap = I.stmt_node_map(g)
    # names flowing into dict/keyword values under key cores / gpus
    # (explicit data flow only: through the loop test every list built in
    # the loop also "depends" on the result list)
    flows = {'cores': set(), 'gpus': set()}
    ed = _explicit_deps(d)
    sliced = {n.value.id for n in walk(f.node)
              if isinstance(n, ast.Subscript) and
              isinstance(n.slice, ast.Slice) and isinstance(n.value, ast.Name)}
    for n in walk(f.node):
        if isinstance(n, ast.Dict):
            for k, v in zip(n.keys, n.values):
                if isinstance(k, ast.Constant) and k.value in flows:
                    flows[k.value] |= ed.expr_depends(v)
        if isinstance(n, ast.Call):
            for kw in n.keywords:
                if kw.arg in flows and dotted(n.func) in ('Slot',):
                    flows[kw.arg] |= ed.expr_depends(kw.value)
        if isinstance(n, ast.Assign):
            # slot['cores'] = <list built from a slice of a list of indices
            # that was collected beforehand>: the collecting append is the
            # pick
            for t in n.targets:
                if isinstance(t, ast.Subscript) and \
                        isinstance(t.slice, ast.Constant) and \
                        t.slice.value in flows:
                    flows[t.slice.value] |= ed.expr_depends(n.value) & sliced
    # a local standing for the slot's own list (`picked = slot['gpus']`, the
    # base not being the node that is searched): appending to it records a
    # pick just as appending to `slot['gpus']` does
    searched = {v.split('[')[0].split('.')[0] for v in kinds_loc.values()}
    part_of = {}
    for n in walk(f.node):
        if isinstance(n, ast.Assign) and len(n.targets) == 1 and \
                isinstance(n.targets[0], ast.Name):
            v = n.value
            k = None
            if isinstance(v, ast.Subscript) and \
                    isinstance(v.slice, ast.Constant) and \
                    v.slice.value in flows and I.is_path(v.value) and \
                    root_name(v.value) not in searched:
                k = v.slice.value
            part_of.setdefault(n.targets[0].id, set()).add(k)
    for nm, ks in part_of.items():
        if len(ks) == 1 and None not in ks:
            flows[next(iter(ks))].add(nm)
    out = []
    for c in calls_in(f.node):
        if not (isinstance(c.func, ast.Attribute) and c.func.attr == 'append'):
            continue
        recv = c.func.value
        kind = None
        if isinstance(recv, ast.Subscript) and \
                isinstance(recv.slice, ast.Constant) and \
                recv.slice.value in flows:
            kind = recv.slice.value
        elif isinstance(recv, ast.Name):
            hits = [k for k in flows if recv.id in flows[k]]
            if len(hits) == 1:
                kind = hits[0]
            elif len(hits) > 1:
                kind = 'cores' if recv.id.startswith('core') else 'gpus'
        # only single indices are picks: appending a slice / list of already
        # picked indices (core_map built from cores) is regrouping
        if c.args and isinstance(c.args[0], ast.Subscript) and \
                isinstance(c.args[0].slice, ast.Slice):
            continue
        if kind and id(c) in smap:
            out.append((smap[id(c)], c, kind))
    return out


def classify_guard(prog, f, d, atom, pol, loc, free, busy):
    """'ok' | 'wrong' | 'other' | None(not about this kind)"""
    dep = d.expr_depends(atom)
    if loc not in dep:
        return None
    if not isinstance(atom, ast.Compare) or len(atom.ops) != 1:
        return 'other'
    op = atom.ops[0]
    l, r = atom.left, atom.comparators[0]
    lv, rv = prog.fold(f.module, l, f.cls), prog.fold(f.module, r, f.cls)

    def is_c(v, c):
        return v is not UNKNOWN and v is not None and c is not None and \
            not isinstance(v, (list, dict, tuple, str)) and v == c

    # A: occ == FREE
    if is_c(rv, free) or is_c(lv, free):
        if isinstance(op, ast.Eq):
            return 'ok' if pol else 'wrong'
        if isinstance(op, ast.NotEq):
            return 'wrong' if pol else 'ok'
        return 'wrong'
    # comparisons against BUSY directly (occ == BUSY etc.) are wrong as a
    # pick guard unless negated
    if is_c(rv, busy) or is_c(lv, busy):
        if isinstance(op, ast.NotEq) and pol or isinstance(op, ast.Eq) \
                and not pol:
            # `occ != BUSY` admits DOWN and partial shares: not an accepted
            # free test
            return 'wrong'
        return 'wrong'
    # B: need <= BUSY - occ
    def avail(e):
        return isinstance(e, ast.BinOp) and isinstance(e.op, ast.Sub) and \
            is_c(prog.fold(f.module, e.left, f.cls), busy) and \
            loc in d.expr_depends(e.right)
    if avail(r) and not avail(l):
        if isinstance(op, (ast.LtE, ast.Lt)):
            return 'ok-share' if pol else 'wrong'
        if isinstance(op, (ast.Gt, ast.GtE)):
            # need > avail  -> must be the skipping branch
            if isinstance(op, ast.Gt):
                return 'wrong' if pol else 'ok-share'
            return 'wrong'
        return 'wrong'
    if avail(l) and not avail(r):
        if isinstance(op, (ast.GtE, ast.Gt)):
            return 'ok-share' if pol else 'wrong'
        if isinstance(op, ast.Lt):
            return 'wrong' if pol else 'ok-share'
        return 'wrong'
    return 'other'


def check_picks(prog, rep, f, kinds_loc, label, rid5='R01.5', rid6='R01.6',
                do6=True):
    free, busy, down = consts(prog)
    g = cfg_of(f)
    d = Deps(f.node)
    picks = pick_sites(prog, f, g, d, kinds_loc)
    rep.saw(f)
    for node, call, kind in picks:
        loc = kinds_loc[kind]
        gs = guards(g, node.id)
        verdicts = []
        for tid, lab in gs:
            v = classify_guard(prog, f, d, g.nodes[tid].ast, lab == 'T', loc,
                               free, busy)
            if v:
                verdicts.append((v, tid, lab))
        what = '%s: pick %s is guarded by a free/share test on %s' % (
            label, short(call, 50), loc)
        if any(v.startswith('ok') for v, _, _ in verdicts):
            rep.ok(rid5, f, what, f.loc(call))
        elif any(v == 'wrong' for v, _, _ in verdicts):
            v, tid, lab = [x for x in verdicts if x[0] == 'wrong'][0]
            rep.bad(rid5, f, call,
                    '%s: the guard of this pick compares the occupancy with '
                    'the wrong operator or polarity: `%s` taken when %s'
                    % (label, short(g.nodes[tid].ast, 60),
                       'true' if lab == 'T' else 'false'), f.loc(call),
                    history='a %s that is BUSY (or DOWN) is handed to the '
                    'task' % kind[:-1])
        elif verdicts:
            raise AnalysisError(
                'UNRECOGNISED-IDIOM %s: the pick %s is guarded by a test on '
                '%s the recogniser does not know: %s' % (
                    f.where, short(call, 40), loc,
                    [short(g.nodes[t].ast, 50) for _, t, _ in verdicts]))
        else:
            rep.bad(rid5, f, call,
                    '%s: this pick is not control dependent on any test of '
                    'the occupancy %s' % (label, loc), f.loc(call),
                    history='a %s that is BUSY (or DOWN) is handed to the '
                    'task' % kind[:-1])
        if not do6:
            continue
        # R01.6: between a pick and the next evaluation of its guard, the
        # cursor / tally read by the guard (or the scan range) is written
        okg = [(tid, lab) for v, tid, lab in verdicts if v.startswith('ok')]
        share = any(v == 'ok-share' for v, _, _ in verdicts)
        if not okg:
            continue
        tid = okg[0][0]
        G = g.nodes[tid]
        from ..model import stores_in_target
        # effective reads of the guard: temporaries recomputed on the way to
        # the guard within the same iteration are replaced by what they read
        L = G.loops[-1] if G.loops else None
        body = g.loop_body.get(L, set())
        anc = _ancestors_noback(g, G.id)
        greads = set(d.reads(G.ast))
        for _ in range(4):
            grown = set(greads)
            for n in g.stmt_nodes():
                if n.kind != 'stmt' or n.id not in body or n.id not in anc:
                    continue
                a = n.ast
                if isinstance(a, ast.Assign) and len(a.targets) == 1 and \
                        isinstance(a.targets[0], ast.Name) and \
                        a.targets[0].id in greads:
                    rr = d.reads(a.value)
                    if a.targets[0].id not in rr:
                        grown |= rr
                        grown.discard(a.targets[0].id)
            if grown == greads:
                break
            greads = grown
        # innermost for loop around G binding a name G reads
        F = None
        for h in reversed(G.loops):
            hn = g.nodes[h]
            if hn.kind == 'for':
                if set(stores_in_target(hn.ast.target)) & greads:
                    F = hn
                    break
        ignore = {kinds_loc[kind].split('[')[0].split('.')[0], 'self', 'rpc'}
        w1names = {x for x in greads if x.isidentifier()} - ignore
        if F is not None:
            w1names -= set(stores_in_target(F.ast.target))
            w2names = {x for x in d.reads(F.ast.iter) if x.isidentifier()} \
                - ignore
        else:
            w2names = set()
        writers = set()
        for n in g.stmt_nodes():
            if n is F or n.kind not in ('stmt',):
                continue
            if _progress_names(n, d, accumulate=share) & (w1names | w2names):
                writers.add(n.id)
        skip_edges = []
        if F is not None:
            skip_edges = [e for e in g.pred[F.id] if e.back]
        r = set()
        for e in g.succ[node.id]:
            if e.label == 'exc' or e in skip_edges:
                # (the pick may be the last statement of the scan loop: its
                # out-edge is the back edge that takes the next item)
                continue
            r |= g.reachable(e.dst, skip_nodes=writers, skip_edges=skip_edges) \
                if e.dst not in writers else set()
        again = G.id in r
        # a constant reset of the cursor/tally between two picks restarts the
        # scan on the unchanged node: the same index is found again
        resets = []
        fwd = set()
        for e in g.succ[node.id]:
            if e.label != 'exc' and e not in skip_edges:
                fwd |= g.reachable(e.dst, skip_edges=skip_edges)
        back = _ancestors(g, G.id)
        for n in g.stmt_nodes():
            if n.kind == 'stmt' and n.id in fwd and n.id in back and \
                    isinstance(n.ast, ast.Assign):
                for t in n.ast.targets:
                    if isinstance(t, ast.Name) and t.id in (w1names | w2names) \
                            and not ({x for x in d.reads(n.ast.value)
                                      if x.isidentifier()} - {'list', 'dict',
                                                              'set', 'int'}):
                        resets.append(n)
        for n in resets:
            rep.bad(rid6, f, n.ast,
                    '%s: `%s` resets the cursor/tally read by the pick guard '
                    '`%s` between two picks of one search: the scan restarts '
                    'on the unchanged node and finds the same %s again'
                    % (label, short(n.ast, 40), short(G.ast, 50), kind[:-1]),
                    f.loc(n.ast),
                    history='one request for two ranks on a node: both ranks '
                    'receive the same %s index' % kind[:-1])
        rep.check(not again, rid6, f,
                  '%s: after pick %s the cursor/tally (%s) is written before '
                  'the guard is evaluated for the next slot' % (
                      label, short(call, 40),
                      ', '.join(sorted(w1names | w2names)) or '-'),
                  construct=call,
                  message='%s: after this pick there is a path back to its '
                  'guard `%s` on which nothing the guard (or its scan range) '
                  'reads is written%s: the next slot of the same request '
                  're-picks the same %s' % (label, short(G.ast, 60),
                      ' in an accumulating way (a share tally that is '
                      'overwritten forgets the shares handed out before)'
                      if share else '', kind[:-1]),
                  loc=f.loc(call),
                  history='one request for several ranks on a node: the '
                  'second rank receives the same %s index as the first'
                  % kind[:-1])
    return len(picks)


def _ancestors_noback(g, nid):
    seen = set()
    todo = [nid]
    while todo:
        n = todo.pop()
        for e in g.pred[n]:
            if e.back:
                continue
            if e.src not in seen:
                seen.add(e.src)
                todo.append(e.src)
    return seen


_EXPL = {}


def _explicit_deps(d):
    """dependence closure of the same function without implicit flows"""
    k = id(d.func)
    if k not in _EXPL:
        _EXPL[k] = Deps(d.func, implicit=False)
    return _EXPL[k]


def _progress_names(n, d, accumulate=False):
    """names whose value a statement *advances*: augmented assignments,
    stores through a subscript/attribute, mutator calls, and plain assignments
    whose right-hand side reads at least one name (a constant reset such as
    `cursor = 0` restarts the scan and is not progress).  With `accumulate`
    (share idiom: several picks may legitimately hit the same index) a store
    `tally[i] = v` only counts when v depends on the tally itself - an
    overwrite remembers only the last share"""
    out = set()
    a = n.ast
    if isinstance(a, ast.AugAssign):
        r = a.target
        while isinstance(r, (ast.Subscript, ast.Attribute)):
            r = r.value
        if isinstance(r, ast.Name):
            out.add(r.id)
    elif isinstance(a, (ast.Assign, ast.AnnAssign)):
        tg = a.targets if isinstance(a, ast.Assign) else [a.target]
        value = a.value
        nonconst = value is not None and bool(
            {x for x in d.reads(value) if x.isidentifier()} -
            {'list', 'dict', 'set', 'int', 'float', 'rpc'})
        for t in tg:
            for e in I._flat(t):
                if isinstance(e, ast.Name):
                    if nonconst:
                        out.add(e.id)
                else:
                    r = e
                    while isinstance(r, (ast.Subscript, ast.Attribute)):
                        r = r.value
                    if isinstance(r, ast.Name):
                        if accumulate and value is not None and \
                                r.id not in _explicit_deps(d).expr_depends(
                                    value):
                            continue
                        out.add(r.id)
    for c in calls_in(a):
        if isinstance(c.func, ast.Attribute) and c.func.attr in I.MUTATING:
            r = root_name(c.func.value)
            if r:
                out.add(r)
    return out


def r01_5_6(prog, rep):
    rep.rule('R01.5', 'every recorded core/gpu index is control dependent on '
             'a free test (== FREE) or a share test (need <= BUSY - occ) of '
             'that index', minimum=7)
    rep.rule('R01.6', 'within one search, the cursor or tally read by a pick '
             'guard is advanced between two picks (no index is picked twice '
             'for one request)', minimum=1)
    base, classes = sched_classes(prog)
    n = 0
    for K in classes:
        f, g, d, nodevar, res, appends = find_resources_info(prog, K)
        n += check_picks(prog, rep, f,
                         {'cores': "%s['cores']" % nodevar,
                          'gpus': "%s['gpus']" % nodevar}, K.name)
    node = prog.cls(*NODE)
    f = prog.find_method(node, 'find_slot')
    if f is None:
        raise AnalysisError('Node.find_slot not found')
    n += check_picks(prog, rep, f, {'cores': 'self.cores', 'gpus': 'self.gpus'},
                     'Node', do6=False)
    rep.stat('pick_sites', n)
    if n < 7:
        raise AnalysisError('R01.5: only %d pick sites recognised (expected '
                            '>= 7): the search functions changed shape' % n)


# ------------------------------------------------------------------------------
# R01.7  blocked resources are DOWN before anyone sees the list
#
def r01_7(prog, rep, rid='R01.7'):
    rep.rule(rid, 'FREE/BUSY/DOWN are distinct; blocked cores and gpus are '
             'marked DOWN on every node after the RM built the list and before '
             'the list is filtered/returned', minimum=5)
    free, busy, down = consts(prog)
    m = prog.module('constants.py')
    vals = [free, busy, down]
    distinct = all(not (a == b and type(a) == type(b) or
                        (a is not None and b is not None and a == b))
                   for i, a in enumerate(vals) for b in vals[i + 1:])
    rep.check(distinct, rid, 'constants.py', 'FREE, BUSY, DOWN pairwise '
              'distinct (%r, %r, %r)' % (free, busy, down),
              construct='FREE/BUSY/DOWN',
              message='occupancy markers are not pairwise distinct: %r %r %r'
              % (free, busy, down))
    f = prog.method(RM[0], RM[1], '_init_from_scratch')
    rep.saw(f)
    g = cfg_of(f)
    d = Deps(f.node)
    smap = I.stmt_node_map(g)
    init_calls = [n.id for n in g.stmt_nodes() if n.kind == 'stmt' and any(
        call_name(c) == 'self.init_from_scratch' for c in calls_in(n.ast))]
    filt_calls = [n.id for n in g.stmt_nodes() if n.kind == 'stmt' and any(
        call_name(c) == 'self._filter_nodes' for c in calls_in(n.ast))]
    if not init_calls or not filt_calls:
        raise AnalysisError('R01.7: init_from_scratch/_filter_nodes call not '
                            'found in %s' % f.where)
    for kind in ('cores', 'gpus'):
        key = 'blocked_' + kind
        stores = []
        for k, target, stmt in I.stores(f.node):
            if k == 'assign' and "['%s']" % kind in unparse(target) and \
                    isinstance(target, ast.Subscript):
                stores.append((target, stmt))
        good = None
        for target, stmt in stores:
            if prog.fold(f.module, stmt.value) is down and down is None \
                    or (prog.fold(f.module, stmt.value) == down and
                        prog.fold(f.module, stmt.value) is not UNKNOWN):
                good = (target, stmt)
        if not good:
            rep.bad(rid, f, 'DOWN:%s' % kind, 'no statement marks blocked %s '
                    'as rpc.DOWN in the node list' % kind, f.loc(),
                    history='a platform with blocked_%s: the blocked index is '
                    'FREE in the node list and is handed to the first task'
                    % kind)
            continue
        target, stmt = good
        n = smap[id(stmt)]
        # the index iterates the configured blocked list
        idx_dep = d.expr_depends(target.slice)
        src_ok = any(key in unparse(c) for c in calls_in(f.node)
                     if isinstance(c.func, ast.Attribute) and
                     c.func.attr == 'get') and any(
            key == x or key in x for x in idx_dep)
        rep.check(src_ok, rid, f, 'blocked %s: the DOWN index iterates the '
                  'configured %s list' % (kind, key), construct=stmt,
                  message='the index marked DOWN does not derive from the '
                  'configured %s' % key, loc=f.loc(stmt))
        # over all nodes of rm_info.node_list
        loops = [g.nodes[h] for h in n.loops]
        over_all = any(h.kind == 'for' and
                       unparse(h.ast.iter).endswith('.node_list')
                       for h in loops)
        rep.check(over_all, rid, f, 'blocked %s are marked on every node of '
                  'node_list' % kind, construct=stmt,
                  message='the DOWN marking does not iterate the whole '
                  'node_list', loc=f.loc(stmt))
        # ordering: after the RM built the list, before filtering / return
        after_init = must_pass(g, g.entry.id, n.id, init_calls)
        before_filter = all(n.id not in g.reachable(fc) for fc in filt_calls)
        rep.check(after_init and before_filter, rid, f,
                  'blocked %s: marking happens after init_from_scratch() and '
                  'never after _filter_nodes()' % kind, construct=stmt,
                  message='blocked %s are marked %s' % (
                      kind, 'before the node list exists' if not after_init
                      else 'after the node list was filtered (agent/service '
                      'nodes already taken out; registry sees unmarked nodes)'),
                  loc=f.loc(stmt))
        # guards depend only on the blocked lists
        bad_guard = None
        for tid, lab in guards(g, n.id):
            a = g.nodes[tid].ast
            if isinstance(a, ast.Compare) and 'len(' in unparse(a):
                continue
            if isinstance(a, ast.Constant) and bool(a.value) == (lab == 'T'):
                continue                # `if True:` guards nothing
            dep = {x for x in d.expr_depends(a) if x.isidentifier()}
            if not any(x.startswith('blocked_') for x in dep) or lab != 'T' \
                    and not isinstance(a, ast.Name):
                bad_guard = (a, lab)
            elif lab == 'F' and isinstance(a, ast.Name):
                # `blocked_cores or blocked_gpus` decomposes into F(bc) ->
                # T(bg): an F edge on a blocked_* name is fine when it is
                # the short-circuit of an `or`
                pass
        rep.check(bad_guard is None, rid, f, 'blocked %s: the marking is '
                  'conditional only on the blocked lists being non-empty'
                  % kind, construct=stmt,
                  message='the DOWN marking is skipped under a condition '
                  'unrelated to the blocked lists: `%s`' % (
                      short(bad_guard[0], 60) if bad_guard else ''),
                  loc=f.loc(stmt))


# ------------------------------------------------------------------------------
# R01.8  agent / service nodes are moved, not copied (shared with R18.3)
#
def r01_8(prog, rep, rid='R01.8'):
    rep.rule(rid, 'nodes reserved for agents/services are pop()ped from the '
             'task node list (moved, not copied)', minimum=2)
    f = prog.method(RM[0], RM[1], '_filter_nodes')
    rep.saw(f)
    # local helpers (`def _reserve(reserved, n): ... reserved.append(...)`):
    # their parameters stand for the arguments of each call site
    local = {n.name: n for n in walk(f.node, nested=True)
             if isinstance(n, ast.FunctionDef) and n is not f.node}

    def sites(fnode, bind, depth=0):
        for c in calls_in(fnode):
            if isinstance(c.func, ast.Attribute) and c.func.attr in \
                    ('append', 'extend', 'insert'):
                recv = c.func.value
                if isinstance(recv, ast.Name) and recv.id in bind:
                    recv = bind[recv.id]
                yield c, unparse(recv), fnode, bool(bind)
            elif isinstance(c.func, ast.Name) and c.func.id in local and \
                    depth < 3:
                h = local[c.func.id]
                params = [a.arg for a in h.args.posonlyargs + h.args.args]
                b = {}
                for p, a in zip(params, c.args):
                    b[p] = bind.get(a.id, a) if isinstance(a, ast.Name) else a
                for k in c.keywords:
                    if k.arg in params:
                        b[k.arg] = bind.get(k.value.id, k.value) \
                            if isinstance(k.value, ast.Name) else k.value
                yield from sites(h, b, depth + 1)

    n = 0
    for c, recv, fnode, bound in sites(f.node, {}):
        if not (recv.endswith('.agent_node_list') or
                recv.endswith('.service_node_list')):
            continue
        n += 1
        arg = c.args[-1] if c.args else None
        moved = False
        if isinstance(arg, ast.Call) and isinstance(arg.func, ast.Attribute) \
                and arg.func.attr == 'pop' and \
                unparse(arg.func.value).endswith('.node_list'):
            moved = True
        elif isinstance(arg, ast.Name):
            for a in walk(fnode):
                if isinstance(a, ast.Assign) and any(
                        isinstance(t, ast.Name) and t.id == arg.id
                        for t in a.targets) and \
                        isinstance(a.value, ast.Call) and \
                        isinstance(a.value.func, ast.Attribute) and \
                        a.value.func.attr == 'pop' and \
                        unparse(a.value.func.value).endswith('.node_list'):
                    moved = True
        rep.check(moved, rid, f, '%s receives a node pop()ped from node_list'
                  % recv, construct='reserve:%s' % recv.split('.')[-1]
                  if bound else c,
                  message='%s receives a node that stays in node_list: the '
                  'agent/service node is also offered to tasks' % recv,
                  loc=f.loc(c),
                  history='agent layout with a sub-agent on its own node: a '
                  'task is placed on the sub-agent node')
    if n < 2:
        raise AnalysisError('R01.8: reservation of agent/service nodes not '
                            'found in %s' % f.where)


# ------------------------------------------------------------------------------
# R01.9  application-level slot finder (resource_config.Node)
#
def r01_9(prog, rep, rid='R01.9'):
    rep.rule(rid, 'Node: occupancy/lfs/mem are written only under '
             'self.__lock__; find_slot tests lfs and mem before it allocates',
             minimum=8)
    node = prog.cls(*NODE)
    for mname, f in sorted(node.methods.items()):
        g = cfg_of(f)
        smap = I.stmt_node_map(g)
        for kind, target, stmt in I.stores(f.node):
            t = unparse(target)
            if not (t.endswith('.occupation') or t in ('self.lfs', 'self.mem')):
                continue
            rep.saw(f)
            n = smap.get(id(stmt))
            locked = n is not None and any(
                any(unparse(i.context_expr) == 'self.__lock__' for i in w.items)
                for w in n.withs)
            rep.check(locked, rid, f, 'Node.%s writes %s under self.__lock__'
                      % (mname, t), construct=stmt,
                      message='Node.%s writes %s outside `with self.__lock__`: '
                      'find_slot (test) and allocate_slot (debit) of two '
                      'threads interleave' % (mname, t), loc=f.loc(stmt),
                      history='two threads call find_slot concurrently; both '
                      'see the core free and both allocate it')
    f = prog.find_method(node, 'find_slot')
    g = cfg_of(f)
    d = Deps(f.node)
    smap = I.stmt_node_map(g)
    allocs = [smap[id(c)] for c in calls_in(f.node)
              if call_name(c) == 'self.allocate_slot']
    if not allocs:
        raise AnalysisError('R01.9: Node.find_slot does not call '
                            'self.allocate_slot')
    ctl = controlling(g, [a.id for a in allocs])
    for k in ('lfs', 'mem'):
        hit = None
        for n, lab in ctl:
            a = n.ast
            if isinstance(a, ast.Compare) and 'self.' + k in \
                    d.reads(a) and len(a.ops) == 1 and \
                    not isinstance(a.ops[0], (ast.Is, ast.IsNot)):
                hit = (n, lab)
        okp = False
        if hit:
            n, lab = hit
            a = n.ast
            op = a.ops[0]
            left_is_avail = 'self.' + k in d.reads(a.left)
            # the edge `lab` is the one that avoids the allocation: it must be
            # the "not enough" outcome
            if left_is_avail:
                okp = (isinstance(op, ast.Lt) and lab == 'T') or \
                      (isinstance(op, ast.GtE) and lab == 'F')
            else:
                okp = (isinstance(op, ast.Gt) and lab == 'T') or \
                      (isinstance(op, ast.LtE) and lab == 'F')
        rep.check(bool(hit) and okp, rid, f,
                  'Node.find_slot refuses when self.%s is smaller than the '
                  'request' % k, construct='find_slot:%s' % k,
                  message='Node.find_slot allocates without a (correctly '
                  'oriented) test of self.%s against the requested %s'
                  % (k, k), loc=f.loc(),
                  history='find_slot with rr.%s larger than what is left on '
                  'the node succeeds and drives node.%s negative' % (k, k))


# ------------------------------------------------------------------------------
# R01.10  the node that is marked is the node the slot names
#
def _only_def(f, e):
    """the access path a plain local stands for when `name = <path>` is its
    only binding in the function (a hoisted `want = slot['node_index']`);
    anything else is returned as it is"""
    for _ in range(4):
        if not isinstance(e, ast.Name) or e.id in f.params:
            return e
        binds = []
        for n in walk(f.node, nested=True):
            if isinstance(n, ast.Assign):
                for t in n.targets:
                    if e.id in stores_in_target(t):
                        binds.append(n if isinstance(t, ast.Name) and
                                     len(n.targets) == 1 else None)
            elif isinstance(n, (ast.AugAssign, ast.AnnAssign)):
                if e.id in stores_in_target(n.target):
                    binds.append(None)
            elif isinstance(n, (ast.For, ast.comprehension)):
                if e.id in stores_in_target(n.target):
                    binds.append(None)
            elif isinstance(n, ast.With):
                for it in n.items:
                    if it.optional_vars is not None and \
                            e.id in stores_in_target(it.optional_vars):
                        binds.append(None)
            elif isinstance(n, ast.NamedExpr) and n.target.id == e.id:
                binds.append(None)
        if len(binds) != 1 or binds[0] is None or \
                not I.is_path(binds[0].value):
            return e
        e = binds[0].value
    return e


def r01_10(prog, rep, rid='R01.10'):
    rep.rule(rid, '_change_slot_states finds the node by comparing its index '
             "field with the slot's node_index (nodes are addressed by index, "
             'not by list position)', minimum=2)
    base, classes = sched_classes(prog)
    seen = set()
    for K in classes:
        f = prog.find_method(K, '_change_slot_states')
        if id(f) in seen:
            continue
        seen.add(id(f))
        rep.saw(f)
        g = cfg_of(f)
        smap = I.stmt_node_map(g)
        methods = {f.name: f}
        al = I.Aliases(prog, K, methods, 'self.nodes')
        roots = set()
        for kind, target, stmt in I.stores(f.node):
            if al.is_rooted_expr(f.name, target):
                roots.add(root_name(target))
        if not roots:
            raise AnalysisError('UNRECOGNISED-IDIOM %s: no node stores'
                                % f.where)
        # follow whole-variable aliases (node = found_node) to the variable
        # that is actually bound by the search
        def alias_source(nv):
            for _ in range(4):
                src = [n.value.id for n in walk(f.node)
                       if isinstance(n, ast.Assign) and any(
                           isinstance(t, ast.Name) and t.id == nv
                           for t in n.targets) and
                       isinstance(n.value, ast.Name) and
                       n.value.id in al.rooted[f.name]]
                if len(src) == 1 and src[0] != nv:
                    nv = src[0]
                else:
                    break
            return nv
        roots = {alias_source(nv) for nv in roots}
        for nv in sorted(roots):
            binds = []
            for n in walk(f.node):
                if isinstance(n, ast.For) and \
                        nv in stores_in_target(n.target):
                    binds.append(('for', n))
                if isinstance(n, ast.Assign) and any(
                        isinstance(t, ast.Name) and t.id == nv
                        for t in n.targets) and not (
                        isinstance(n.value, ast.Constant)):
                    binds.append(('assign', n))
            posit = [b for k, b in binds if k == 'assign' and
                     isinstance(b.value, ast.Subscript) and
                     unparse(b.value.value) == 'self.nodes']
            loops = [b for k, b in binds if k == 'for' and
                     unparse(b.iter) == 'self.nodes']
            if posit:
                rep.bad(rid, f, posit[0], '%s: the node to mark is taken by '
                        'list position (`%s`); node indices and list '
                        'positions differ as soon as the node list was '
                        'filtered (inaccessible nodes dropped with backup '
                        'nodes), so another node is marked than the one '
                        'granted' % (f.qual, short(posit[0], 50)),
                        f.loc(posit[0]),
                        history='backup nodes in use, node_01 inaccessible: '
                        'nodes keep indices [0, 2, 3]; a slot on node index 2 '
                        'marks list position 2 (node index 3): the granted '
                        'node stays FREE and is granted again')
                continue
            if not loops:
                # an alias of a part of another node variable
                # (cores = node['cores']) is judged through that variable
                if any(k == 'assign' and I.is_path(b.value) and
                       root_name(b.value) != 'self' and
                       al.is_rooted_expr(f.name, b.value)
                       for k, b in binds):
                    continue
                raise AnalysisError('UNRECOGNISED-IDIOM %s: binding of the '
                                    'node variable %r' % (f.where, nv))
            okl = False
            for L in loops:
                for n in walk(L):
                    if isinstance(n, ast.Compare) and len(n.ops) == 1 and \
                            isinstance(n.ops[0], (ast.Eq, ast.NotEq)):
                        # `==` leaves the loop on its true edge, `!=` (early
                        # continue form) on its false edge
                        match = 'T' if isinstance(n.ops[0], ast.Eq) else 'F'
                        sides = {unparse(_only_def(f, n.left)),
                                 unparse(_only_def(f, n.comparators[0]))}
                        if "%s['index']" % nv in sides and any(
                                x.endswith("['node_index']") for x in sides):
                            # the match leaves the loop
                            for t in [x for x in g.nodes if x.ast is n]:
                                for e in g.succ[t.id]:
                                    if e.label != match:
                                        continue
                                    r = g.reachable(e.dst, no_back=True)
                                    if any(isinstance(g.nodes[x].ast,
                                                      (ast.Break, ast.Return))
                                           for x in r):
                                        okl = True
            rep.check(okl, rid, f, "%s: the node is found by `%s['index'] == "
                      "slot['node_index']`" % (f.qual, nv),
                      construct='%s:lookup' % f.qual,
                      message="%s: the loop over self.nodes does not select "
                      "the node whose 'index' equals the slot's node_index"
                      % f.qual, loc=f.loc(),
                      history='the occupancy of another node than the '
                      'granted one is changed')


# ------------------------------------------------------------------------------
# R02.8  a node is offered at most once per search
#
def r02_8(prog, rep, rid='R02.8'):
    rep.rule(rid, '_iterate_nodes offers every node at most once per search '
             '(the search does not mark, a second visit would grant the same '
             'free cores again)', minimum=2)
    base, classes = sched_classes(prog)
    from ..flow import reaching_defs
    for K in classes:
        f = prog.find_method(K, '_iterate_nodes')
        if f is None:
            raise AnalysisError('%s._iterate_nodes missing' % K.name)
        rep.saw(f)
        g = cfg_of(f)
        smap = I.stmt_node_map(g)
        yields = [n for n in walk(f.node) if isinstance(n, (ast.Yield,
                                                           ast.YieldFrom))]
        if not yields:
            raise AnalysisError('UNRECOGNISED-IDIOM %s: no yield' % f.where)
        verdict = None            # True ok / False violation / None unknown
        why = ''
        for y in yields:
            yn = smap.get(id(y))
            if yn is None or not yn.loops:
                if isinstance(y, ast.YieldFrom):
                    verdict = None
                continue
            H = g.nodes[yn.loops[-1]]

            def is_len_nodes(e, at):
                for _ in range(3):
                    if isinstance(e, ast.Name):
                        rd = reaching_defs(g, e.id, at)
                        if len(rd) == 1 and rd[0][1] is not None:
                            e = rd[0][1]
                            continue
                    break
                return unparse(e) == 'len(self.nodes)'
            if H.kind == 'for':
                it = H.ast.iter
                if isinstance(it, ast.Call) and dotted(it.func) == 'range' \
                        and len(it.args) == 1:
                    if is_len_nodes(it.args[0], H.id):
                        verdict = True
                    else:
                        verdict, why = False, 'range(%s)' % short(it.args[0],
                                                                  30)
                elif 'self.nodes' in unparse(it) and not isinstance(
                        it, ast.Call):
                    verdict = True
                else:
                    verdict = None
            elif H.kind == 'while':
                t = H.ast.test
                if isinstance(t, ast.Compare) and len(t.ops) == 1 and \
                        isinstance(t.ops[0], ast.Lt) and \
                        isinstance(t.left, ast.Name) and \
                        is_len_nodes(t.comparators[0], H.id):
                    c = t.left.id
                    init = [v for n0, v in reaching_defs(g, c, H.id)
                            if n0.id not in g.loop_body[H.id]]
                    incs = [n0 for n0 in g.stmt_nodes()
                            if n0.id in g.loop_body[H.id] and
                            isinstance(n0.ast, ast.AugAssign) and
                            isinstance(n0.ast.op, ast.Add) and
                            unparse(n0.ast.target) == c and
                            unparse(n0.ast.value) == '1']
                    start = loop_slice(g, H.id)[0]
                    once = len(incs) == 1 and not guards(g, incs[0].id,
                                                         start=start)
                    zero = len(init) == 1 and isinstance(init[0],
                                                         ast.Constant) \
                        and init[0].value == 0
                    if once and zero:
                        verdict = True
                    else:
                        verdict, why = False, 'counter %s not 0..len-1' % c
                elif isinstance(t, ast.Compare) and len(t.ops) == 1 and \
                        isinstance(t.ops[0], ast.LtE) and \
                        is_len_nodes(t.comparators[0], H.id):
                    verdict, why = False, short(t, 40)
                else:
                    verdict = None
        if verdict is None:
            raise AnalysisError('UNRECOGNISED-IDIOM %s: cannot bound the '
                                'number of nodes yielded' % f.where)
        rep.check(verdict, rid, f, '%s._iterate_nodes yields len(self.nodes) '
                  'nodes per search' % K.name, construct='%s:once' % K.name,
                  message='%s._iterate_nodes can offer a node twice in one '
                  'search (%s): _find_resources does not mark what it finds, '
                  'so the second visit hands out the same free cores again'
                  % (K.name, why), loc=f.loc(),
                  history='ranks=5, ranks_per_node=2 on two 4-core nodes: the '
                  'start node is visited twice, one core is given to two '
                  'ranks and the node hosts 3 ranks')


# ------------------------------------------------------------------------------
# forward dataflow on a cfg (helper of R01.12 / R01.13)
#
def _forward(g, init, node_tf, edge_tf, join, limit=20000):
    """IN state of every cfg node reachable under the abstraction.
    node_tf(node, state) -> state after the node; edge_tf(node, edge, state
    after) -> state on that edge, or None when the edge is infeasible.  An
    'exc' edge carries the state *before* the node (its effect did not
    happen)."""
    IN = {g.entry.id: init}
    todo = [g.entry.id]
    steps = 0
    while todo:
        steps += 1
        if steps > limit:
            raise AnalysisError('dataflow over %d cfg nodes does not converge'
                                % len(g.nodes))
        nid = todo.pop()
        n = g.nodes[nid]
        pre = IN[nid]
        post = node_tf(n, pre)
        for e in g.succ[nid]:
            s = pre if e.label == 'exc' else edge_tf(n, e, post)
            if s is None:
                continue
            if e.dst in IN:
                j = join(IN[e.dst], s)
                if j == IN[e.dst]:
                    continue
                IN[e.dst] = j
            else:
                IN[e.dst] = s
            todo.append(e.dst)
    return IN


def _stored_names(stmt):
    """plain names (re)bound by a simple statement"""
    out = set()
    if isinstance(stmt, ast.Assign):
        for t in stmt.targets:
            out |= set(stores_in_target(t))
    elif isinstance(stmt, (ast.AugAssign, ast.AnnAssign)):
        out |= set(stores_in_target(stmt.target))
    for n in walk(stmt):
        if isinstance(n, ast.NamedExpr):
            out |= set(stores_in_target(n.target))
    return out


def _alias_names(fnode, is_src):
    """local names all of whose bindings are plain assignments from an
    expression accepted by is_src (x = node['lfs'])"""
    defs, bad = {}, set()
    for n in walk(fnode):
        if isinstance(n, ast.Assign):
            for t in n.targets:
                if isinstance(t, ast.Name):
                    defs.setdefault(t.id, []).append(n.value)
                else:
                    bad |= set(stores_in_target(t))
        elif isinstance(n, (ast.AugAssign, ast.AnnAssign)):
            bad |= set(stores_in_target(n.target))
        elif isinstance(n, (ast.For, ast.comprehension)):
            bad |= set(stores_in_target(n.target))
        elif isinstance(n, ast.NamedExpr):
            bad |= set(stores_in_target(n.target))
        elif isinstance(n, ast.withitem) and n.optional_vars is not None:
            bad |= set(stores_in_target(n.optional_vars))
    return {k for k, vs in defs.items()
            if k not in bad and all(is_src(v) for v in vs)}


def _unwrap_num(e):
    """strip int(..) / float(..) conversions"""
    while isinstance(e, ast.Call) and isinstance(e.func, ast.Name) and \
            e.func.id in ('int', 'float') and len(e.args) == 1 and \
            not e.keywords:
        e = e.args[0]
    return e


def _is_zero(e):
    return isinstance(e, ast.Constant) and not isinstance(e.value, bool) and \
        isinstance(e.value, (int, float)) and e.value == 0


# ------------------------------------------------------------------------------
# R01.12  the lfs / mem cap of the slot count cannot be bypassed
#
_TOP = 'TOP'         # the request of the kind is zero: nothing will be held


class _Cap:
    """Must-analysis "the value of this local is <= node[kind] // request" for
    one function and one kind (lfs | mem).  State: frozenset of capped local
    names, or _TOP on paths on which the per-slot request of the kind is known
    to be zero / None (such a slot holds nothing of that kind)."""

    def __init__(self, prog, f, kind, nodevars, avail, req, depth=0):
        self.prog, self.f, self.kind, self.depth = prog, f, kind, depth
        self.g = cfg_of(f)
        self.nodevars = set(nodevars)
        self.nodevars |= _alias_names(
            f.node, lambda v: isinstance(v, ast.Name) and v.id in nodevars)
        self.avail = set(avail) | _alias_names(f.node, self._avail_path)
        self.req0 = set(req)
        self.req = set(req) | _alias_names(
            f.node, lambda v: isinstance(v, ast.Name) and v.id in req)
        self.IN = None

    # -- recognisers ----------------------------------------------------------
    def _avail_path(self, e):
        return isinstance(e, ast.Subscript) and \
            isinstance(e.value, ast.Name) and e.value.id in self.nodevars and \
            isinstance(e.slice, ast.Constant) and e.slice.value == self.kind

    def is_avail(self, e):
        e = _unwrap_num(e)
        return self._avail_path(e) or (isinstance(e, ast.Name) and
                                       e.id in self.avail)

    def is_req(self, e):
        e = _unwrap_num(e)
        return isinstance(e, ast.Name) and e.id in self.req

    def is_quotient(self, e):
        return isinstance(e, ast.BinOp) and \
            isinstance(e.op, (ast.FloorDiv, ast.Div)) and \
            self.is_avail(e.left) and self.is_req(e.right)

    def zero_label(self, test):
        """label of the out-edge of a test atom on which the request of this
        kind is zero / None, or None if the atom does not decide that"""
        flip = False
        while isinstance(test, ast.UnaryOp) and isinstance(test.op, ast.Not):
            test, flip = test.operand, not flip
        lab = None
        if isinstance(test, ast.Name) and test.id in self.req:
            lab = 'F'
        elif isinstance(test, ast.Compare) and len(test.ops) == 1:
            l, r, op = test.left, test.comparators[0], test.ops[0]
            swap = {ast.Gt: ast.Lt, ast.Lt: ast.Gt, ast.GtE: ast.LtE,
                    ast.LtE: ast.GtE}
            t = type(op)
            if self.is_req(r) and not self.is_req(l):
                l, r, t = r, l, swap.get(t, t)
            if self.is_req(l):
                if _is_zero(r):
                    lab = {ast.Gt: 'F', ast.NotEq: 'F', ast.Eq: 'T',
                           ast.LtE: 'T'}.get(t)
                elif isinstance(r, ast.Constant) and r.value is None:
                    lab = {ast.Is: 'T', ast.Eq: 'T', ast.IsNot: 'F',
                           ast.NotEq: 'F'}.get(t)
        if lab and flip:
            lab = 'T' if lab == 'F' else 'F'
        return lab

    def capped(self, e, S):
        if S is _TOP:
            return True
        if isinstance(e, ast.Name):
            return e.id in S
        if _is_zero(e):
            return True
        if self.is_quotient(e):
            return True
        if isinstance(e, (ast.List, ast.Tuple)):
            # a collection of limits: min() of it is capped
            return any(self.capped(x, S) for x in e.elts)
        if isinstance(e, ast.IfExp):
            lab = self.zero_label(e.test)
            if lab == 'F':
                return self.capped(e.body, S)
            if lab == 'T':
                return self.capped(e.orelse, S)
            return self.capped(e.body, S) and self.capped(e.orelse, S)
        if isinstance(e, ast.Call) and not any(
                isinstance(a, ast.Starred) for a in e.args):
            name = call_name(e)
            last = name.split('.')[-1]
            if name == 'min' and not e.keywords:
                args = e.args
                if len(args) == 1 and isinstance(args[0], (ast.List,
                                                           ast.Tuple)):
                    args = args[0].elts
                return any(self.capped(a, S) for a in args)
            if (name in ('int', 'float') or last in ('floor', 'trunc')) and \
                    len(e.args) == 1 and not e.keywords:
                return self.capped(e.args[0], S)
            return self._callee_capped(e, S)
        return False

    def _callee_capped(self, call, S):
        """the result of a resolved helper is capped when every return of the
        helper is, given what the arguments are in the caller"""
        if self.depth >= 2:
            return False
        callee = self.prog.resolve_call(self.f, call)
        if callee is None or callee.node is self.f.node or \
                not isinstance(callee.node, ast.FunctionDef):
            return False
        params = list(callee.params)
        static = any(dotted(d) == 'staticmethod'
                     for d in callee.node.decorator_list)
        if callee.cls is not None and not static and params and \
                isinstance(call.func, ast.Attribute):
            params = params[1:]
        bind = dict(zip(params, call.args))
        for kw in call.keywords:
            if kw.arg:
                bind[kw.arg] = kw.value
        sub = _Cap(self.prog, callee, self.kind,
                   {p for p, a in bind.items()
                    if isinstance(a, ast.Name) and a.id in self.nodevars},
                   {p for p, a in bind.items() if self.is_avail(a)},
                   {p for p, a in bind.items() if self.is_req(a)},
                   self.depth + 1)
        init = frozenset(p for p, a in bind.items() if self.capped(a, S))
        return sub.returns_capped(init)

    # -- dataflow -------------------------------------------------------------
    def _node_tf(self, n, S):
        if n.kind == 'with':
            names = set()
            for i in n.ast.items:
                if i.optional_vars is not None:
                    names |= set(stores_in_target(i.optional_vars))
            return self._kill(S, names)
        if n.kind != 'stmt':
            return S
        a = n.ast
        if isinstance(a, (ast.Assign, ast.AnnAssign)) and \
                getattr(a, 'value', None) is not None:
            c = self.capped(a.value, S)
            tg = a.targets if isinstance(a, ast.Assign) else [a.target]
            names = _stored_names(a)
            for t in tg:
                if isinstance(t, ast.Subscript) and root_name(t):
                    names.add(root_name(t))      # limits[0] = ..
            S = self._kill(S, names)
            if c and S is not _TOP:
                S = S | {t.id for t in tg if isinstance(t, ast.Name)}
            return S
        if isinstance(a, ast.AugAssign):
            names = _stored_names(a)
            if isinstance(a.op, ast.Sub) and S is not _TOP and \
                    not (names & self.req0):
                return S                     # a capped count stays capped
            return self._kill(S, names)
        if isinstance(a, ast.Delete):
            return self._kill(S, {root_name(t) for t in a.targets} - {None})
        if isinstance(a, ast.Expr) and isinstance(a.value, ast.Call) and \
                isinstance(a.value.func, ast.Attribute) and \
                isinstance(a.value.func.value, ast.Name):
            # a list of limits (`limits.append(cap)` ... `min(limits)`): the
            # name stands for "min() of it is capped"
            c = a.value
            L, meth = c.func.value.id, c.func.attr
            if meth in ('append', 'add') and len(c.args) == 1 and \
                    self.capped(c.args[0], S):
                S = self._kill(S, _stored_names(a))
                return S if S is _TOP else S | {L}
            if meth == 'extend' and len(c.args) == 1 and \
                    isinstance(c.args[0], (ast.List, ast.Tuple)) and \
                    any(self.capped(x, S) for x in c.args[0].elts):
                S = self._kill(S, _stored_names(a))
                return S if S is _TOP else S | {L}
            if meth in ('pop', 'remove', 'clear', 'discard', '__delitem__',
                        '__setitem__'):
                S = self._kill(S, {L})
        return self._kill(S, _stored_names(a))

    def _kill(self, S, names):
        if not names:
            return S
        if S is _TOP:
            # the request itself is re-bound: what was known about it is gone
            return frozenset() if names & self.req else _TOP
        return S - names

    def _edge_tf(self, n, e, S):
        if n.kind == 'test' and e.label in ('T', 'F') and \
                self.zero_label(n.ast) == e.label:
            return _TOP
        if n.kind == 'for' and e.label == 'iter':
            return self._kill(S, set(stores_in_target(n.ast.target)))
        return S

    @staticmethod
    def _join(a, b):
        if a is _TOP:
            return b
        if b is _TOP:
            return a
        return a & b

    def run(self, init=frozenset()):
        if self.IN is None:
            self.IN = _forward(self.g, init, self._node_tf, self._edge_tf,
                               self._join)
        return self.IN

    def returns_capped(self, init):
        IN = self.run(init)
        rets = [n for n in self.g.nodes if n.kind == 'stmt' and
                isinstance(n.ast, ast.Return) and n.id in IN]
        return bool(rets) and all(
            n.ast.value is not None and self.capped(n.ast.value, IN[n.id])
            for n in rets)

    def reads_capped(self, expr, S):
        return any(self.capped(x, S) for x in walk(expr)
                   if isinstance(x, (ast.Name, ast.Call, ast.BinOp)))

    def cap_statements(self):
        """cfg nodes that compute node[kind] // request"""
        return [n for n in self.g.stmt_nodes() if n.kind == 'stmt' and any(
            self.is_quotient(x) for x in walk(n.ast))]


def _request_params(f, d, kind, nodevar):
    """parameters of the per-node search that end up as the `kind` amount of
    a slot it builds ({'lfs': lfs_per_slot, ..} / Slot(lfs=..))"""
    ed = _explicit_deps(d)
    vals = []
    # (a local closure that builds the slot reads the parameters of the
    # enclosing search by name: nested bodies are part of the search)
    for n in walk(f.node, nested=True):
        if isinstance(n, ast.Dict):
            for k, v in zip(n.keys, n.values):
                if isinstance(k, ast.Constant) and k.value == kind:
                    vals.append(v)
        elif isinstance(n, ast.Call):
            for kw in n.keywords:
                if kw.arg == kind:
                    vals.append(kw.value)
        elif isinstance(n, ast.Assign):
            for t in n.targets:
                if isinstance(t, ast.Subscript) and \
                        isinstance(t.slice, ast.Constant) and \
                        t.slice.value == kind and root_name(t) != nodevar:
                    vals.append(n.value)
    params = set(f.params) - {'self', 'cls', nodevar}
    out = set()
    for v in vals:
        out |= {x for x in ed.expr_depends(v) if x in params}
    return out


def r01_12(prog, rep, rid='R01.12'):
    rep.rule(rid, 'in _find_resources the number of slots collected on a node '
             "is capped by the node's free lfs / mem on every path on which "
             'the per-slot request of that kind is non-zero (only a test of '
             'the request itself may bypass the cap)', minimum=4)
    base, classes = sched_classes(prog)
    for K in classes:
        f, g, d, nodevar, res, appends = find_resources_info(prog, K)
        rep.saw(f)
        ctl = controlling(g, [a.id for a in appends])
        heads = set()
        for a in appends:
            heads |= set(a.loops)
        per_iter = [n for n, lab in ctl if not heads or n.id in heads or
                    any(n.id in g.loop_body[h] for h in heads)]
        for kind in ('lfs', 'mem'):
            req = _request_params(f, d, kind, nodevar)
            if not req:
                raise AnalysisError(
                    'UNRECOGNISED-IDIOM %s: no parameter flows into the %r '
                    'amount of the slots built here' % (f.where, kind))
            cx = _Cap(prog, f, kind, {nodevar}, set(), req)
            IN = cx.run()
            okc = False
            for n in per_iter:
                if n.id not in IN:
                    continue
                expr = n.ast.iter if n.kind == 'for' else n.ast
                if cx.reads_capped(expr, IN[n.id]):
                    okc = True
            what = ("%s: the loop that collects slots is bounded by "
                    "%s[%r] // %s unless %s is zero"
                    % (K.name, nodevar, kind, '/'.join(sorted(req)),
                       '/'.join(sorted(req))))
            if okc:
                rep.ok(rid, f, what, f.loc())
                continue
            caps = cx.cap_statements()
            if not caps:
                # no quotient in this function: either the kind is not tested
                # at all (R01.4 reports that) or the test has a shape this
                # rule does not know
                _, tst, _ = tested_kinds(prog, K)
                if kind in tst:
                    raise AnalysisError(
                        "UNRECOGNISED-IDIOM %s: %s[%r] limits the search but "
                        "not as a cap `%s[%r] // <request>` of the slot count"
                        % (f.where, nodevar, kind, nodevar, kind))
            foreign = []
            for c in caps:
                for tid, lab in guards(g, c.id):
                    z = cx.zero_label(g.nodes[tid].ast)
                    if z is None or z == lab:
                        foreign.append((g.nodes[tid].ast, lab))
            if foreign:
                why = 'the cap is applied only when %s' % ' and '.join(
                    '`%s` is %s' % (short(a, 50),
                                    'true' if lab == 'T' else 'false')
                    for a, lab in foreign[:3])
            elif caps:
                why = ('the capped count does not reach the test of the '
                       'collecting loop (overwritten, or the loop is bounded '
                       'by something else)')
            else:
                why = 'no statement computes %s[%r] // %s' % (
                    nodevar, kind, '/'.join(sorted(req)))
            loc = f.loc(caps[0].ast) if caps else f.loc()
            rep.bad(rid, f, '%s:%s:cap' % (K.name, kind),
                    "%s._find_resources: a request with %s > 0 can reach the "
                    "slot-collecting loop without the slot count being capped "
                    "by the node's free %s (%s[%r] // %s): %s.  %s[%r] is "
                    "the *remaining* amount (debited by _change_slot_states), "
                    "so every value of it - also 0 - must limit the search"
                    % (K.name, '/'.join(sorted(req)), kind, nodevar, kind,
                       '/'.join(sorted(req)), why, nodevar, kind), loc,
                    history="one node with %s 1024: task A (2 ranks x 512) is "
                    "placed, the node's free %s is exactly 0; task B (1 rank "
                    "x 256) arrives: the cap is skipped, a slot with %s=256 "
                    "is granted and _change_slot_states debits the node to "
                    "-256 (1280 held on a 1024 node)" % (kind, kind, kind))


# ------------------------------------------------------------------------------
# R01.13  the DOWN marker survives the conversion of a node dict into a Node
#
_BOT   = ('bot',)       # no value yet (empty list literal)
_UNK   = ('unk',)       # unknown, not derived from a node-list entry
_UNKT  = ('unk+',)      # unknown, derived from a DOWN node-list entry
_NUM   = ('num',)       # some number (not None)
_RAISE = ('raise',)     # the evaluation raises
_PARAM = ('param',)     # a parameter: possibly the caller's node dict
_NODE_LISTS = ('cores', 'gpus')


class _Marker:
    """Abstract evaluation of the methods of resource_config.Node for the
    case that an entry of the caller's node dict lists ('cores' / 'gpus') is
    the DOWN marker.  Values: ('down', key) the marker as found in the list
    `key`; ('c', v) a known constant; ('ct', v, key) a known constant that
    was chosen because an entry of list `key` is DOWN (`o or 0`, a default
    assigned under `if o is None`); ('list', elem); ('seq', (elems..)) an
    iterable of tuples; ('tup', (vals..)); _NUM, _PARAM, _UNK, _UNKT, _RAISE.
    Every RO(.., occupation=E) construction whose E is computed from a DOWN
    entry is recorded with the value of E."""

    def __init__(self, prog, ro_cls, down):
        self.prog, self.ro_cls, self.down = prog, ro_cls, down
        self.sites = {}            # id(call) -> [func, call, key, [values]]
        self._li = {}
        self.record = False
        self.touched = None
        self.kids = set()
        self.stack = []

    # -- values ---------------------------------------------------------------
    def is_down(self, v):
        return v[0] == 'down' or (v[0] in ('c', 'ct') and
                                  self._same(v[1], self.down))

    @staticmethod
    def _same(a, b):
        if a is None or b is None:
            return a is b
        return type(a) is type(b) and a == b

    @staticmethod
    def tainted(v):
        return v[0] in ('down', 'ct') or v == _UNKT

    def pyval(self, v):
        """(known, python value)"""
        if v[0] == 'down':
            return True, self.down
        if v[0] in ('c', 'ct'):
            return True, v[1]
        return False, None

    def truth(self, v):
        k, x = self.pyval(v)
        if k:
            try:
                return bool(x)
            except Exception:
                return None
        return None

    def join(self, a, b):
        if a == b:
            return a
        if a == _BOT:
            return b
        if b == _BOT:
            return a
        if a == _RAISE:
            return b
        if b == _RAISE:
            return a
        if a[0] == 'down' and b[0] == 'down':
            return ('down', '*')
        if a[0] in ('c', 'ct') and b[0] in ('c', 'ct') and \
                self._same(a[1], b[1]):
            return a if a[0] == 'ct' else b
        if a[0] == 'list' and b[0] == 'list':
            return ('list', self.join(a[1], b[1]))
        if a[0] in ('tup', 'seq') and a[0] == b[0] and len(a[1]) == len(b[1]):
            return (a[0], tuple(self.join(x, y) for x, y in zip(a[1], b[1])))
        if self.tainted(a) or self.tainted(b) or self._deep_taint(a) or \
                self._deep_taint(b):
            return _UNKT
        return _UNK

    def _deep_taint(self, v):
        if self.tainted(v):
            return True
        if v[0] == 'list':
            return self._deep_taint(v[1])
        if v[0] in ('tup', 'seq'):
            return any(self._deep_taint(x) for x in v[1])
        return False

    def join_env(self, a, b):
        if a == b:
            return a
        out = {}
        for k in set(a) | set(b):
            if k == '$pc':
                # branches decided by a DOWN entry end where paths merge
                if a.get(k) == b.get(k):
                    out[k] = a[k]
                continue
            if k in a and k in b:
                out[k] = self.join(a[k], b[k])
            else:
                out[k] = self.join(a.get(k, _UNK), b.get(k, _UNK))
        return out

    def elem(self, v):
        """value of one element when iterating v"""
        if v[0] == 'list':
            return v[1]
        if v[0] == 'seq':
            return ('tup', v[1])
        if v[0] == 'tup':
            out = _BOT
            for x in v[1]:
                out = self.join(out, x)
            return out
        return _UNKT if self._deep_taint(v) else _UNK

    def _see(self, v):
        if self.touched is not None:
            if v[0] == 'down':
                self.touched.add(v[1])
            elif v[0] == 'ct':
                self.touched.add(v[2])
        return v

    # -- expressions ----------------------------------------------------------
    def ev(self, f, e, env):
        m = getattr(self, '_e_' + type(e).__name__, None)
        outer, self.kids = self.kids, set()
        if m is None:
            vals = [self.ev(f, c, env) for c in ast.iter_child_nodes(e)
                    if isinstance(c, ast.expr)]
            v = _UNKT if any(self._deep_taint(v) for v in vals) else _UNK
        else:
            v = m(f, e, env)
        kids = self.kids
        # a constant computed from (selected by) a DOWN entry stays traceable
        if v[0] == 'c' and kids and not isinstance(e, (ast.Constant, ast.Name,
                                                       ast.Attribute)):
            v = ('ct', v[1], '/'.join(sorted(kids)))
        if v[0] == 'down':
            kids = kids | {v[1]}
        elif v[0] == 'ct':
            kids = kids | set(v[2].split('/'))
        self.kids = outer | kids
        return self._see(v)

    def _e_Constant(self, f, e, env):
        return ('c', e.value)

    def _e_Name(self, f, e, env):
        if e.id in env:
            return env[e.id]
        v = self.prog.fold(f.module, e, f.cls)
        return ('c', v) if v is not UNKNOWN else _UNK

    def _e_Attribute(self, f, e, env):
        v = self.prog.fold(f.module, e, f.cls)
        if v is not UNKNOWN:
            return ('c', v)
        b = self.ev(f, e.value, env)
        if self.is_down(b) and self.down is None:
            return _RAISE
        return _UNKT if self.tainted(b) else _UNK

    def _node_list(self, key):
        if isinstance(key, ast.Constant) and key.value in _NODE_LISTS:
            return ('list', ('down', key.value))
        return None

    def _e_Subscript(self, f, e, env):
        b = self.ev(f, e.value, env)
        if isinstance(e.slice, ast.Slice):
            for x in (e.slice.lower, e.slice.upper, e.slice.step):
                if x is not None:
                    self.ev(f, x, env)
            return b if b[0] == 'list' else (
                _UNKT if self._deep_taint(b) else _UNK)
        i = self.ev(f, e.slice, env)
        if b == _PARAM:
            return self._node_list(e.slice) or _UNK
        if b[0] == 'list':
            return b[1]
        if b[0] == 'tup':
            k, x = self.pyval(i)
            if k and isinstance(x, int) and -len(b[1]) <= x < len(b[1]):
                return b[1][x]
            return self.elem(b)
        if self.is_down(b) and self.down is None:
            return _RAISE
        return _UNKT if self._deep_taint(b) else _UNK

    def _e_List(self, f, e, env):
        out = _BOT
        for x in e.elts:
            out = self.join(out, self.ev(f, x, env))
        return ('list', out)

    def _e_Tuple(self, f, e, env):
        return ('tup', tuple(self.ev(f, x, env) for x in e.elts))

    def _e_BoolOp(self, f, e, env):
        out = _BOT
        is_or = isinstance(e.op, ast.Or)
        for i, x in enumerate(e.values):
            v = self.ev(f, x, env)
            if v == _RAISE:
                return v if out == _BOT else out
            if i == len(e.values) - 1:
                return self.join(out, v)
            t = self.truth(v)
            if t is None:
                out = self.join(out, v)      # may be the result, may go on
            elif t == is_or:
                return self.join(out, v)     # short circuit
        return out

    def _e_UnaryOp(self, f, e, env):
        v = self.ev(f, e.operand, env)
        if isinstance(e.op, ast.Not):
            t = self.truth(v)
            if t is not None:
                return ('c', not t)
            return _UNKT if self.tainted(v) else _UNK
        k, x = self.pyval(v)
        if k:
            try:
                return ('c', -x if isinstance(e.op, ast.USub) else +x)
            except Exception:
                return _RAISE
        return v if v in (_NUM, _UNKT) else _UNK

    def _e_BinOp(self, f, e, env):
        l = self.ev(f, e.left, env)
        r = self.ev(f, e.right, env)
        if _RAISE in (l, r):
            return _RAISE
        kl, xl = self.pyval(l)
        kr, xr = self.pyval(r)
        if (kl and xl is None) or (kr and xr is None):
            return _RAISE                     # arithmetic on None
        if kl and kr:
            v = self.prog.fold(f.module, ast.BinOp(
                left=ast.Constant(value=xl), op=e.op,
                right=ast.Constant(value=xr)))
            if v is not UNKNOWN:
                return ('c', v)
        if self._deep_taint(l) or self._deep_taint(r):
            return _UNKT
        return _NUM if l[0] in ('c', 'ct', 'num') and \
            r[0] in ('c', 'ct', 'num') else _UNK

    def _e_IfExp(self, f, e, env):
        t = self.truth(self.ev(f, e.test, env))
        if t is True:
            return self.ev(f, e.body, env)
        if t is False:
            return self.ev(f, e.orelse, env)
        return self.join(self.ev(f, e.body, env), self.ev(f, e.orelse, env))

    def _e_Compare(self, f, e, env):
        vals = [self.ev(f, e.left, env)] + [self.ev(f, c, env)
                                            for c in e.comparators]
        taint = any(self._deep_taint(v) for v in vals)
        if len(e.ops) != 1:
            return _UNKT if taint else _UNK
        l, r, op = vals[0], vals[1], e.ops[0]
        if _RAISE in (l, r):
            return _RAISE
        kl, xl = self.pyval(l)
        kr, xr = self.pyval(r)
        if isinstance(op, (ast.Is, ast.IsNot, ast.Eq, ast.NotEq)):
            res = None
            if kl and kr:
                if isinstance(op, (ast.Is, ast.IsNot)):
                    res = self._same(xl, xr)
                else:
                    try:
                        res = bool(xl == xr)
                    except Exception:
                        res = None
            elif (kl and xl is None and r[0] in ('num', 'list', 'tup')) or \
                    (kr and xr is None and l[0] in ('num', 'list', 'tup')):
                res = False
            if res is not None:
                return ('c', res if isinstance(op, (ast.Is, ast.Eq))
                        else not res)
        elif isinstance(op, (ast.In, ast.NotIn)):
            if kl and r[0] in ('tup',) and all(self.pyval(x)[0]
                                              for x in r[1]):
                res = any(self._same(xl, self.pyval(x)[1]) or
                          (xl is not None and xl == self.pyval(x)[1])
                          for x in r[1])
                return ('c', res if isinstance(op, ast.In) else not res)
        else:
            if (kl and xl is None) or (kr and xr is None):
                return _RAISE                 # ordering None
            if kl and kr:
                try:
                    res = {ast.Lt: xl < xr, ast.LtE: xl <= xr,
                           ast.Gt: xl > xr, ast.GtE: xl >= xr}[type(op)]
                    return ('c', bool(res))
                except Exception:
                    pass
        return _UNKT if taint else _UNK

    def _comp(self, f, e, env, elts):
        """comprehension: value of the element expression(s) over one
        abstract iteration; BOT when a filter is known to reject it"""
        env = dict(env)
        for gen in e.generators:
            it = self.ev(f, gen.iter, env)
            self.bind(gen.target, self.elem(it), env)
            for c in gen.ifs:
                if self.truth(self.ev(f, c, env)) is False:
                    return None
        return [self.ev(f, x, env) for x in elts]

    def _e_ListComp(self, f, e, env):
        r = self._comp(f, e, env, [e.elt])
        return ('list', r[0] if r else _BOT)

    _e_GeneratorExp = _e_ListComp
    _e_SetComp = _e_ListComp

    def _e_DictComp(self, f, e, env):
        r = self._comp(f, e, env, [e.key, e.value])
        return _UNKT if r and any(self._deep_taint(v) for v in r) else _UNK

    def _e_NamedExpr(self, f, e, env):
        v = self.ev(f, e.value, env)
        self.bind(e.target, v, env)
        return v

    def _e_Call(self, f, e, env):
        args = [self.ev(f, a.value if isinstance(a, ast.Starred) else a, env)
                for a in e.args]
        kws = {k.arg: self.ev(f, k.value, env) for k in e.keywords}
        allv = args + list(kws.values())
        taint = any(self._deep_taint(v) for v in allv)
        fn = e.func
        name = dotted(fn)
        # the conversion we look for
        if self._is_ro(f, fn):
            self._ro_site(f, e, env)
            return _UNK
        if isinstance(fn, ast.Attribute):
            recv = self.ev(f, fn.value, env)
            if fn.attr == 'get' and recv == _PARAM and e.args:
                return self._node_list(e.args[0]) or _UNK
            if fn.attr == 'copy' and recv[0] == 'list':
                return recv
            if self._deep_taint(recv):
                taint = True
        if isinstance(fn, ast.Name) and fn.id not in env and not e.keywords:
            b = fn.id
            if b in ('list', 'tuple', 'sorted', 'reversed', 'iter') and \
                    len(args) == 1 and args[0][0] in ('list', 'seq'):
                return args[0]
            if b == 'enumerate' and args:
                return ('seq', (_NUM, self.elem(args[0])))
            if b == 'zip' and args:
                return ('seq', tuple(self.elem(a) for a in args))
            if b == 'range':
                return ('list', _NUM)
            if b == 'len':
                return _NUM
            if b == 'bool' and len(args) == 1:
                t = self.truth(args[0])
                return ('c', t) if t is not None else (
                    _UNKT if taint else _UNK)
            if b in ('float', 'int', 'abs', 'round') and len(args) == 1:
                a = args[0]
                if a == _RAISE:
                    return a
                k, x = self.pyval(a)
                if k:
                    try:
                        return ('c', {'float': float, 'int': int, 'abs': abs,
                                      'round': round}[b](x))
                    except Exception:
                        return _RAISE
                return a if a in (_NUM, _UNKT) else _UNK
            if b in ('min', 'max') and any(
                    self.pyval(a) == (True, None) for a in args):
                return _RAISE
            if b == 'isinstance' and len(args) == 2:
                k, x = self.pyval(args[0])
                if k and x is None:
                    ts = e.args[1].elts if isinstance(e.args[1], ast.Tuple) \
                        else [e.args[1]]
                    if all(isinstance(t, ast.Name) and t.id in (
                            'int', 'float', 'str', 'bool', 'list', 'dict',
                            'tuple', 'set', 'bytes', 'complex') or
                           self._is_class(f, t) for t in ts):
                        return ('c', False)
        # a helper of the package: evaluate it with these arguments
        callee = self.prog.resolve_call(f, e)
        if callee is not None and isinstance(callee.node, ast.FunctionDef) \
                and len(self.stack) < 3 and callee.node not in [
                    s.node for s in self.stack] and not any(
                    isinstance(a, ast.Starred) for a in e.args) and \
                (taint or _PARAM in allv or any(
                    self._deep_param(v) for v in allv)):
            params = list(callee.params)
            static = any(dotted(d) == 'staticmethod'
                         for d in callee.node.decorator_list)
            if callee.cls is not None and not static and params and (
                    isinstance(fn, ast.Attribute) or callee.name == '__init__'):
                params = params[1:]
            cenv = {p: _UNK for p in params}
            cenv.update(dict(zip(params, args)))
            cenv.update({k: v for k, v in kws.items() if k})
            if callee.name == '__init__':
                self.run(callee, cenv)
                return _UNK
            return self.run(callee, cenv)
        return _UNKT if taint else _UNK

    @staticmethod
    def _deep_param(v):
        return v == _PARAM

    def _is_class(self, f, t):
        r = self.prog.resolve(f.module, t) if isinstance(
            t, (ast.Name, ast.Attribute)) else None
        return bool(r) and r[0] == 'class'

    def _is_ro(self, f, fn):
        if not isinstance(fn, (ast.Name, ast.Attribute)):
            return False
        li = self._li.get(id(f.node))
        if li is None:
            li = self._li[id(f.node)] = f.module.local_imports(f.node)
        r = self.prog.resolve(f.module, fn, li)
        for _ in range(3):
            if r and r[0] == 'const' and len(r[2]) == 1 and \
                    isinstance(r[2][0], ast.Name):
                r = self.prog.lookup(r[1], r[2][0].id)
        return bool(r) and r[0] == 'class' and r[1] is self.ro_cls

    def _ro_site(self, f, call, env):
        occ = kwarg(call, 'occupation')
        if occ is None:
            d = kwarg(call, 'from_dict', 0)
            if isinstance(d, ast.Dict):
                for k, v in zip(d.keys, d.values):
                    if isinstance(k, ast.Constant) and \
                            k.value == 'occupation':
                        occ = v
        if occ is None:
            return
        saved, self.touched = self.touched, set()
        v = self.ev(f, occ, env)
        touched, self.touched = self.touched, saved
        if saved is not None:
            saved |= touched
        if not touched and not self.tainted(v):
            return                     # not computed from a node-list entry
        if self.record:
            s = self.sites.setdefault(id(call), [f, call, occ, set(), []])
            s[3] |= touched
            s[4].append(v)

    # -- statements -----------------------------------------------------------
    def bind(self, target, v, env):
        if isinstance(target, ast.Name):
            if v[0] == 'c' and env.get('$pc'):
                v = ('ct', v[1], env['$pc'][1])
            env[target.id] = v
        elif isinstance(target, (ast.Tuple, ast.List)):
            if v[0] == 'tup' and len(v[1]) == len(target.elts) and not any(
                    isinstance(t, ast.Starred) for t in target.elts):
                for t, x in zip(target.elts, v[1]):
                    self.bind(t, x, env)
            else:
                x = self.elem(v)
                for t in target.elts:
                    self.bind(t.value if isinstance(t, ast.Starred) else t,
                              x, env)

    def _node_tf(self, f):
        def tf(n, env):
            a = n.ast
            if n.kind == 'stmt':
                env = dict(env)
                if isinstance(a, (ast.Assign, ast.AnnAssign)):
                    if a.value is not None:
                        v = self.ev(f, a.value, env)
                        tg = a.targets if isinstance(a, ast.Assign) \
                            else [a.target]
                        for t in tg:
                            self.bind(t, v, env)
                elif isinstance(a, ast.AugAssign):
                    v = self.ev(f, ast.BinOp(left=_load(a.target), op=a.op,
                                             right=a.value), env)
                    self.bind(a.target, v, env)
                elif isinstance(a, ast.Return):
                    v = self.ev(f, a.value, env) if a.value is not None \
                        else ('c', None)
                    env['return'] = self.join(env.get('return', _BOT), v)
                elif isinstance(a, (ast.Expr, ast.Assert)):
                    self.ev(f, a.value if isinstance(a, ast.Expr) else a.test,
                            env)
                elif isinstance(a, ast.expr):
                    self.ev(f, a, env)           # match subject
                return env
            if n.kind == 'with':
                env = dict(env)
                for i in a.items:
                    v = self.ev(f, i.context_expr, env)
                    if i.optional_vars is not None:
                        self.bind(i.optional_vars,
                                  _UNKT if self._deep_taint(v) else _UNK, env)
                return env
            if n.kind == 'handler' and getattr(a, 'name', None):
                env = dict(env)
                env[a.name] = _UNK
            return env
        return tf

    def _edge_tf(self, f):
        def tf(n, e, env):
            if n.kind == 'test' and e.label in ('T', 'F'):
                env2 = dict(env)
                v = self.ev(f, n.ast, env2)
                t = self.truth(v)
                if t is not None and (e.label == 'T') != t:
                    return None
                if v[0] == 'ct':
                    # this branch is taken because an entry is DOWN
                    env2['$pc'] = ('pc', v[2])
                return env2
            if n.kind == 'for' and e.label == 'iter':
                env = dict(env)
                self.bind(n.ast.target, self.elem(self.ev(f, n.ast.iter, env)),
                          env)
            return env
        return tf

    def run(self, f, env0):
        """abstract run of f; returns the joined return value"""
        g = cfg_of(f)
        self.stack.append(f)
        saved, self.record = self.record, False
        try:
            ntf, etf = self._node_tf(f), self._edge_tf(f)
            IN = _forward(g, dict(env0), ntf, etf, self.join_env)
            self.record = saved
            ret = _BOT
            # final pass over the fixpoint: sites are recorded with the
            # converged environments only
            for nid, env in IN.items():
                n = g.nodes[nid]
                post = ntf(n, env)
                for e in g.succ[nid]:
                    if e.label != 'exc':
                        etf(n, e, post)
                if n.kind == 'stmt' and isinstance(n.ast, ast.Return):
                    ret = self.join(ret, post.get('return', _BOT))
            if g.exit.id in IN and ret == _BOT:
                ret = ('c', None)
            return ret
        finally:
            self.record = saved
            self.stack.pop()


def _load(target):
    import copy
    t = copy.deepcopy(target)
    for n in ast.walk(t):
        if hasattr(n, 'ctx'):
            n.ctx = ast.Load()
    return t


def r01_13(prog, rep, rid='R01.13'):
    rep.rule(rid, 'resource_config.Node: an entry of the node dict\'s cores / '
             'gpus list that is rpc.DOWN is wrapped into RO(occupation=DOWN) '
             '(passed through or mapped to DOWN; never collapsed to a number '
             'by `or`, float(), a conditional default)', minimum=2)
    free, busy, down = consts(prog)
    node = prog.cls(*NODE)
    ro = prog.cls(NODE[0], 'RO')
    mk = _Marker(prog, ro, down)
    mk.record = True
    klasses = [node] + [k for k in prog.subclasses(node, strict=True)
                        if k is not node]
    for K in klasses:
        for mname, f in sorted(K.methods.items()):
            if not isinstance(f.node, ast.FunctionDef):
                continue
            params = [p for p in f.params]
            static = any(dotted(d) == 'staticmethod'
                         for d in f.node.decorator_list)
            env = {p: _PARAM for p in (params if static else params[1:])}
            mk.run(f, env)
    for f, call, occ, keys, vals in sorted(
            mk.sites.values(), key=lambda s: (s[0].where, s[1].lineno,
                                              s[1].col_offset)):
        rep.saw(f)
        key = '/'.join(sorted(keys)) or '*'
        lost = [v for v in vals if not mk.is_down(v) and v != _RAISE
                and v != _UNKT]
        what = "%s: RO(occupation=%s) built from an entry of the node " \
            "dict's %s list keeps rpc.DOWN" % (f.qual, short(occ, 40), key)
        if lost:
            v = lost[0]
            shown = repr(v[1]) if v[0] in ('c', 'ct') else 'a number'
            rep.bad(rid, f, '%s:RO:%s' % (f.qual, key),
                    "%s wraps the entries of the node dict's %s list into "
                    "RO(occupation=%s): for an entry that is rpc.DOWN (%r, a "
                    "blocked core/gpu) this evaluates to %s instead of DOWN, "
                    "so on the application side the blocked resource looks "
                    "%s; Node.find_slot (`occupation is DOWN: continue`) and "
                    "allocate_slot no longer skip / refuse it"
                    % (f.qual, key, short(occ, 50), down, shown,
                       'FREE' if v[0] in ('c', 'ct') and v[1] == free else
                       'like a usable one'), f.loc(call),
                    history="resource config blocks cores [0, 2]: the agent's "
                    "node_list carries rpc.DOWN at these indexes; "
                    "Pilot.nodelist builds Node(node) from it and "
                    "nodelist.find_slots(RankRequirements(n_cores=1)) hands "
                    "out core 0 of node 0")
        elif _UNKT in vals:
            raise AnalysisError(
                'UNRECOGNISED-IDIOM %s: cannot decide what RO(occupation=%s) '
                'is for an entry that is rpc.DOWN' % (f.where, short(occ, 50)))
        else:
            rep.ok(rid, f, what, f.loc(call))


# ------------------------------------------------------------------------------
# shared by R01.14 / R01.15 / R01.16: names resolved through their reaching
# definitions; truth of tests under an assignment to a few atoms
#
class _Resolver:
    """local names of one function, resolved flow-sensitively through their
    reaching definitions (flow.reaching_defs)"""

    def __init__(self, f):
        self.f = f
        self.g = cfg_of(f)
        self.smap = I.stmt_node_map(self.g)
        self._rd = {}

    def at(self, a):
        n = self.smap.get(id(a))
        if n is None:
            raise AnalysisError('UNRECOGNISED-IDIOM %s: `%s` is not part of a '
                                'statement of the function' % (self.f.where,
                                                               short(a, 40)))
        return n.id

    def defs(self, name, nid):
        key = (name, nid)
        if key not in self._rd:
            self._rd[key] = reaching_defs(self.g, name, nid)
        return self._rd[key]

    def def_ids(self, name, nid):
        return frozenset(n.id for n, v in self.defs(name, nid))

    def single(self, e, nid, depth=0):
        """(expression, node id) a plain name stands for when it has exactly
        one reaching definition `name = <expr>`; wrappers int()/float() are
        looked through; anything else is returned as it is"""
        while depth < 8:
            depth += 1
            if isinstance(e, ast.Call) and isinstance(e.func, ast.Name) and \
                    e.func.id in ('int', 'float') and len(e.args) == 1 and \
                    not e.keywords:
                e = e.args[0]
                continue
            if isinstance(e, ast.Name):
                d = self.defs(e.id, nid)
                if len(d) == 1 and d[0][1] is not None and \
                        isinstance(d[0][0].ast, (ast.Assign, ast.AnnAssign)) \
                        and isinstance(_single_target(d[0][0].ast), ast.Name):
                    e, nid = d[0][1], d[0][0].id
                    continue
            break
        return e, nid


def _single_target(st):
    if isinstance(st, ast.Assign):
        return st.targets[0] if len(st.targets) == 1 else None
    return st.target


def _cmp_range(lo, hi, op, c):
    """truth of `n <op> c` for an integer n known to lie in [lo, hi]
    (hi None: unbounded); None when both outcomes are possible"""
    if isinstance(op, ast.Gt):
        return True if lo > c else False if hi is not None and hi <= c \
            else None
    if isinstance(op, ast.GtE):
        return True if lo >= c else False if hi is not None and hi < c \
            else None
    if isinstance(op, ast.Lt):
        return True if hi is not None and hi < c else False if lo >= c \
            else None
    if isinstance(op, ast.LtE):
        return True if hi is not None and hi <= c else False if lo > c \
            else None
    if isinstance(op, (ast.Eq, ast.NotEq)):
        v = True if lo == hi == c else False if c < lo or (
            hi is not None and c > hi) else None
        if v is None or isinstance(op, ast.Eq):
            return v
        return not v
    return None


class _Truth:
    """Three valued truth of the tests of one function under an assignment
    {atom key: bool} ("this value is truthy / falsy"), and the cfg nodes that
    can still be reached when every test decided by the assignment only takes
    the edge it then takes.  `atom(expr, node id)` names the expressions the
    assignment is about.  Tests the assignment does not decide keep both
    edges, so a node reported as unreachable is unreachable for every input
    that satisfies the assignment."""

    def __init__(self, res, atom):
        self.res = res
        self.atom = atom

    def ev(self, e, nid, asg, depth=0):
        if depth > 12:
            return None
        k = self.atom(e, nid)
        if k is not None:
            return asg.get(k)
        if isinstance(e, ast.Constant):
            return bool(e.value)
        if isinstance(e, ast.Name):
            v, vn = self.res.single(e, nid)
            if v is e:
                return None
            return self.ev(v, vn, asg, depth + 1)
        if isinstance(e, ast.BoolOp):
            vals = [self.ev(v, nid, asg, depth + 1) for v in e.values]
            if isinstance(e.op, ast.And):
                return False if False in vals else \
                    True if all(v is True for v in vals) else None
            return True if True in vals else \
                False if all(v is False for v in vals) else None
        if isinstance(e, ast.UnaryOp) and isinstance(e.op, ast.Not):
            v = self.ev(e.operand, nid, asg, depth + 1)
            return None if v is None else not v
        if isinstance(e, ast.Call) and isinstance(e.func, ast.Name) and \
                e.func.id in ('bool', 'len', 'list', 'tuple') and \
                len(e.args) == 1 and not e.keywords:
            return self.ev(e.args[0], nid, asg, depth + 1)
        if isinstance(e, ast.Compare) and len(e.ops) == 1:
            l, r, op = e.left, e.comparators[0], e.ops[0]
            if not (isinstance(r, ast.Constant) and
                    isinstance(r.value, (int, float)) and
                    not isinstance(r.value, bool)):
                return None
            c = r.value
            if isinstance(l, ast.Call) and isinstance(l.func, ast.Name) and \
                    l.func.id == 'len' and len(l.args) == 1:
                v = self.ev(l.args[0], nid, asg, depth + 1)
                if v is None:
                    return None
                return _cmp_range(1, None, op, c) if v else \
                    _cmp_range(0, 0, op, c)
            v = self.ev(l, nid, asg, depth + 1)
            if v is None:
                return None
            if v:           # a non-zero amount / non-empty container
                if c == 0 and isinstance(op, ast.Eq):
                    return False
                if c == 0 and isinstance(op, ast.NotEq):
                    return True
                return None
            # zero, empty or None
            if isinstance(op, ast.Gt) and c >= 0 or \
                    isinstance(op, ast.GtE) and c > 0 or \
                    isinstance(op, ast.Lt) and c <= 0:
                return False
            return None
        return None

    def reach(self, asg, decided=None):
        g = self.res.g
        seen = set()
        todo = [g.entry.id]
        while todo:
            x = todo.pop()
            if x in seen:
                continue
            seen.add(x)
            n = g.nodes[x]
            skip = None
            if n.kind == 'test':
                v = self.ev(n.ast, x, asg)
                skip = None if v is None else 'F' if v else 'T'
                if v is not None and decided is not None:
                    decided.append((n.ast, v))
            elif n.kind == 'for':
                if self.ev(n.ast.iter, x, asg) is False:
                    skip = 'iter'
                    if decided is not None:
                        decided.append((n.ast.iter, False))
            for e in g.succ[x]:
                if e.label != skip:
                    todo.append(e.dst)
        return seen


def _assignments(keys, fixed):
    """all {key: bool} over `keys` that extend `fixed`"""
    free = [k for k in keys if k not in fixed]
    for bits in range(1 << len(free)):
        a = dict(fixed)
        for i, k in enumerate(free):
            a[k] = bool(bits >> i & 1)
        yield a


def _const_values(res, key):
    """the constants a symbolic key ('v', name, def ids) ranges over when all
    its definitions are loops over a literal tuple / list of constants"""
    vals = set()
    if not key[2]:
        return None
    for nid in key[2]:
        n = res.g.nodes[nid]
        if n.kind != 'for' or not isinstance(n.ast.target, ast.Name) or \
                not isinstance(n.ast.iter, (ast.Tuple, ast.List)) or \
                not all(isinstance(x, ast.Constant) for x in n.ast.iter.elts):
            return None
        vals |= {x.value for x in n.ast.iter.elts}
    return vals


def _key_text(k):
    return repr(k[1]) if k[0] == 'c' else k[1]


# ------------------------------------------------------------------------------
# R01.14  the kind that is debited is the kind of the operand
#
class _KindFlow:
    """One occupancy writer (`_change_slot_states` of a scheduler class, or
    Node.allocate_slot / deallocate_slot): its stores below a node object,
    keyed by resource kind, and the fields of the slot that flow into them."""

    def __init__(self, prog, f, is_node_root, slot_param, slot_is_list):
        self.prog = prog
        self.f = f
        self.res = _Resolver(f)
        self.is_node_root = is_node_root    # name -> bool
        self.slot_is_list = slot_is_list
        self.param = slot_param
        self.lists = set()
        if slot_is_list:
            self.lists.add(slot_param)
            changed = True
            while changed:
                changed = False
                for n in walk(f.node):
                    if isinstance(n, ast.Assign) and len(n.targets) == 1 and \
                            isinstance(n.targets[0], ast.Name) and \
                            n.targets[0].id not in self.lists and \
                            not isinstance(n.value, ast.Subscript) and any(
                            isinstance(x, ast.Name) and x.id in self.lists
                            for x in walk(n.value)):
                        self.lists.add(n.targets[0].id)
                        changed = True

    # -- what is a slot ---------------------------------------------------
    def _iter_is_list(self, it):
        if isinstance(it, ast.Name):
            return it.id in self.lists
        if isinstance(it, ast.Call) and isinstance(it.func, ast.Name) and \
                it.func.id in ('list', 'tuple', 'reversed', 'sorted', 'iter',
                               'enumerate') and it.args:
            return self._iter_is_list(it.args[0])
        return False

    def is_slot(self, e, nid, depth=0):
        """expression denotes one slot"""
        if depth > 4:
            return False
        if isinstance(e, ast.Subscript) and isinstance(e.value, ast.Name) \
                and e.value.id in self.lists and \
                not isinstance(e.slice, ast.Slice):
            return True
        if not isinstance(e, ast.Name):
            return False
        d = self.res.defs(e.id, nid)
        if not d:
            return not self.slot_is_list and e.id == self.param
        hit = False
        for n, v in d:
            if n.kind == 'for':
                t = n.ast.target
                en = isinstance(n.ast.iter, ast.Call) and \
                    dotted(n.ast.iter.func) == 'enumerate'
                mine = (isinstance(t, ast.Name) and t.id == e.id and not en) \
                    or (en and isinstance(t, ast.Tuple) and t.elts and
                        isinstance(t.elts[-1], ast.Name) and
                        t.elts[-1].id == e.id)
                if mine and self._iter_is_list(n.ast.iter):
                    hit = True
                    continue
                return False
            if v is not None and isinstance(v, ast.Constant) and \
                    v.value is None:
                continue
            if v is not None and self.is_slot(v, n.id, depth + 1):
                hit = True
                continue
            return False
        return hit

    def key(self, e, nid):
        """kind key of one access step `X[k]` / `X.k`: ('c', kind) for one of
        the four kinds, ('v', name, defs) for a variable key, None otherwise"""
        if isinstance(e, ast.Attribute):
            return ('c', e.attr) if e.attr in KINDS else None
        s = e.slice
        if isinstance(s, ast.Constant):
            return ('c', s.value) if s.value in KINDS else None
        if isinstance(s, ast.Name):
            return ('v', s.id, self.res.def_ids(s.id, nid))
        return None

    def slot_read(self, e, nid):
        if isinstance(e, (ast.Subscript, ast.Attribute)) and \
                self.is_slot(e.value, nid):
            return self.key(e, nid)
        return None

    # -- slot fields an expression is computed from -----------------------
    def reads(self, e, nid, out, seen, env):
        if isinstance(e, (ast.Subscript, ast.Attribute)) and \
                not (isinstance(e.value, ast.Name) and e.value.id in env) \
                and self.is_slot(e.value, nid):
            k = self.key(e, nid)
            if k is not None:
                out.append((k, e))
            return
        if isinstance(e, ast.Name):
            if not isinstance(e.ctx, ast.Load):
                return
            if e.id in env:
                it, env2 = env[e.id]
                self.reads(it, nid, out, seen, env2)
                return
            if (e.id, nid) in seen:
                return
            seen.add((e.id, nid))
            for n, v in self.res.defs(e.id, nid):
                if v is not None:
                    self.reads(v, n.id, out, seen, {})
                elif n.kind == 'for':
                    self.reads(n.ast.iter, n.id, out, seen, {})
                elif isinstance(n.ast, ast.AugAssign):
                    self.reads(n.ast.value, n.id, out, seen, {})
                    self.reads(_load(n.ast.target), n.id, out, seen, {})
                elif isinstance(n.ast, ast.Assign):
                    self.reads(n.ast.value, n.id, out, seen, {})
            return
        if isinstance(e, (ast.ListComp, ast.SetComp, ast.GeneratorExp,
                          ast.DictComp)):
            env2 = dict(env)
            for gen in e.generators:
                bound = (gen.iter, dict(env2))
                for nm in stores_in_target(gen.target):
                    env2[nm] = bound
                for c in gen.ifs:
                    self.reads(c, nid, out, seen, env2)
            for part in ([e.key, e.value] if isinstance(e, ast.DictComp)
                         else [e.elt]):
                self.reads(part, nid, out, seen, env2)
            return
        if isinstance(e, ast.Lambda):
            return
        for c in ast.iter_child_nodes(e):
            if isinstance(c, ast.expr):
                self.reads(c, nid, out, seen, env)
            elif isinstance(c, ast.keyword):
                self.reads(c.value, nid, out, seen, env)

    # -- stores below a node object ---------------------------------------
    def node_store(self, target, nid):
        """(kind key, [expressions of the access steps below the kind]) of a
        store below a node object; None when the target is something else"""
        steps = []
        e = target
        for _ in range(6):
            while isinstance(e, (ast.Subscript, ast.Attribute)):
                steps.append(e)
                e = e.value
            if not isinstance(e, ast.Name):
                return None
            if e.id == 'self':
                break
            if self.is_slot(e, nid):
                return None
            # a local standing for a part of the node (cores = node['cores'])
            # is followed to the node before the name itself is judged
            v, vn = self.res.single(e, nid)
            if v is not e and I.is_path(v) and \
                    isinstance(v, (ast.Subscript, ast.Attribute)):
                e = v
                continue
            if self.is_node_root(e.id):
                break
            return None
        else:
            return None
        steps.reverse()
        if e.id == 'self':
            if self.is_node_root('self'):
                pass                            # Node method: self.<kind>...
            elif len(steps) >= 2 and isinstance(steps[0], ast.Attribute) and \
                    steps[0].attr == 'nodes' and \
                    isinstance(steps[1], ast.Subscript):
                steps = steps[2:]               # self.nodes[i]<kind>...
            else:
                return None
        if not steps:
            return None
        k = self.key(steps[0], nid)
        if k is None:
            return None
        below = [s.slice for s in steps[1:] if isinstance(s, ast.Subscript)]
        return k, below

    def stores(self):
        out = []
        for kind, target, stmt in I.stores(self.f.node):
            if kind not in ('assign', 'aug') or id(stmt) not in self.res.smap:
                continue
            nid = self.res.at(stmt)
            ns = self.node_store(target, nid)
            if ns is None:
                continue
            out.append((stmt, target, nid, ns[0], ns[1]))
        return out

    def same_key(self, a, b):
        """True / False / None (cannot be decided)"""
        if a[0] == 'c' and b[0] == 'c':
            return a[1] == b[1]
        if a[0] == 'v' and b[0] == 'v':
            if a[1] == b[1] and a[2] == b[2]:
                return True
            va, vb = _const_values(self.res, a), _const_values(self.res, b)
            if va is not None and vb is not None and not (va & vb):
                return False
            return None
        c, v = (a, b) if a[0] == 'c' else (b, a)
        vals = _const_values(self.res, v)
        if vals is None:
            return None
        return False if vals != {c[1]} else True


def _kind_writers(prog):
    """[(label, FuncInfo, _KindFlow)] of the anchored occupancy writers"""
    out = []
    base, classes = sched_classes(prog)
    seen = set()
    for K in classes:
        f = prog.find_method(K, '_change_slot_states')
        if f is None:
            raise AnalysisError('anchor %s._change_slot_states not found'
                                % K.name)
        if id(f) in seen:
            continue
        seen.add(id(f))
        methods = I.class_methods(prog, K, stop_at=base)
        al = I.Aliases(prog, K, methods, 'self.nodes')
        rooted = al.rooted.get(f.name, set())
        params = [p for p in f.params if p != 'self']
        if not params:
            raise AnalysisError('UNRECOGNISED-IDIOM %s: parameters' % f.where)
        out.append((f, _KindFlow(prog, f, lambda nm, r=rooted: nm in r,
                                 params[0], True)))
    node = prog.cls(*NODE)
    for K in [node] + [k for k in prog.subclasses(node, strict=True)
                       if k is not node]:
        for mname in ('allocate_slot', 'deallocate_slot'):
            f = K.methods.get(mname)
            if f is None:
                if K is node:
                    raise AnalysisError('anchor Node.%s not found' % mname)
                continue
            params = [p for p in f.params if p != 'self']
            if not params:
                raise AnalysisError('UNRECOGNISED-IDIOM %s: parameters'
                                    % f.where)
            out.append((f, _KindFlow(prog, f, lambda nm: nm == 'self',
                                     params[0], False)))
    return out


def r01_14(prog, rep, rid='R01.14'):
    rep.rule(rid, 'occupancy writers (_change_slot_states, Node.allocate_slot '
             '/ deallocate_slot): what is written to a node\'s cores / gpus / '
             'lfs / mem is computed from the same-named field of the slot, '
             'and the write is reached whenever that field is non-zero',
             minimum=24)
    for f, kf in _kind_writers(prog):
        rep.saw(f)
        res = kf.res
        stores = kf.stores()
        if not stores:
            raise AnalysisError('UNRECOGNISED-IDIOM %s: no store below a node '
                                'object' % f.where)
        # the slot fields tests of this function are about
        atoms = {}
        for n in res.g.nodes:
            if n.kind != 'test':
                continue
            got = []
            kf.reads(n.ast, n.id, got, set(), {})
            for k, e in got:
                atoms.setdefault(k, e)
        truth = _Truth(res, kf.slot_read)
        written = set()
        for stmt, target, nid, K, below in stores:
            vals = {K[1]} if K[0] == 'c' else _const_values(res, K)
            written |= set(KINDS) if vals is None else vals
        if not set(KINDS) <= written:
            raise AnalysisError('R01.14: %s writes only the kinds %s of a '
                                'node' % (f.where, sorted(written)))
        for stmt, target, nid, K, below in stores:
            got = []
            for e in below + [stmt.value]:
                kf.reads(e, nid, got, set(), {})
            if not got:
                raise AnalysisError(
                    'UNRECOGNISED-IDIOM %s: `%s` writes the node\'s %s but '
                    'neither the amount nor the index is taken from the slot'
                    % (f.where, short(stmt, 60), _key_text(K)))
            wrong = undecided = None
            for k, e in got:
                s = kf.same_key(K, k)
                if s is False and wrong is None:
                    wrong = (k, e)
                elif s is None and undecided is None:
                    undecided = (k, e)
            if wrong is None and undecided is not None:
                raise AnalysisError(
                    'UNRECOGNISED-IDIOM %s: cannot decide whether the key of '
                    '`%s` is the kind written by `%s`'
                    % (f.where, short(undecided[1], 40), short(stmt, 60)))
            kt = _key_text(K)
            what = 'amount' if K[1] in ('lfs', 'mem') else \
                'index' if K[0] == 'c' else 'index / amount'
            rep.check(wrong is None, rid, f,
                      '%s: `%s` takes its %s from the slot\'s %s'
                      % (f.qual, short(stmt, 50), what, kt),
                      construct='%s:%s:%s' % (f.qual, kt, _store_op(stmt)),
                      message='%s: `%s` changes the node\'s %s by what the '
                      'slot holds of another kind (`%s`): the %s booked on '
                      'the node no longer follows the %s the tasks hold, so '
                      'the search (which tests the node\'s free %s) admits '
                      'tasks the node has no room for'
                      % (f.qual, short(stmt, 60), kt,
                         short(wrong[1], 40) if wrong else '', kt, kt, kt),
                      loc=f.loc(stmt),
                      history='node with mem 1024, four tasks with mem=600 '
                      'and lfs=0: each grant debits the node\'s mem by the '
                      'slot\'s lfs (0), all four are placed on the node: '
                      '2400 held > 1024' if kt == "'mem'" else
                      'two tasks each asking for most of the node\'s %s (and '
                      'none of the kind `%s` names) are both placed on the '
                      'node' % (kt, short(wrong[1], 30) if wrong else ''))
            # reached whenever the slot holds something of the kind
            keys = [k for k in atoms]
            if not keys:
                rep.ok(rid, f, '%s: `%s` is not conditional on a field of '
                       'the slot' % (f.qual, short(stmt, 50)), f.loc(stmt))
                continue
            if any(kf.same_key(K, k) is None for k in keys):
                raise AnalysisError(
                    'UNRECOGNISED-IDIOM %s: tests on slot fields with '
                    'constant and variable keys guard `%s`'
                    % (f.where, short(stmt, 60)))
            fixed = {k: True for k in keys if kf.same_key(K, k)}
            fixed[K] = True
            lost = None
            for asg in _assignments(keys, fixed):
                decided = []
                if nid not in truth.reach(asg, decided):
                    lost = (asg, decided)
                    break
            why = ''
            if lost:
                why = ', '.join('`%s` is %s' % (short(atoms[k], 30),
                                                'non-zero' if v else 'zero')
                                for k, v in sorted(lost[0].items(),
                                                   key=lambda x: str(x[0]))
                                if k in atoms)
            rep.check(lost is None, rid, f,
                      '%s: `%s` is reached whenever the slot\'s %s is '
                      'non-zero' % (f.qual, short(stmt, 50), kt),
                      construct='%s:%s:%s:guard' % (f.qual, kt,
                                                    _store_op(stmt)),
                      message='%s: `%s` is skipped for a slot whose %s is '
                      'non-zero (%s): the test that guards it looks at '
                      'another field of the slot, so the %s a task holds is '
                      'not booked on the node and is granted again'
                      % (f.qual, short(stmt, 60), kt, why, kt),
                      loc=f.loc(stmt),
                      history='a task with %s > 0 and zero of the kind the '
                      'guard tests is granted: the node\'s free %s is '
                      'unchanged; further tasks asking for %s are placed on '
                      'the same node beyond its capacity' % (kt, kt, kt))


def _store_op(stmt):
    if isinstance(stmt, ast.AugAssign):
        return type(stmt.op).__name__
    return 'set'


# ------------------------------------------------------------------------------
# R01.15  blocked cores are marked whenever cores are blocked (guard strength)
#
def _blocked_atom(res):
    """atom recogniser: a local name whose only reaching definition reads the
    config entry 'blocked_cores' / 'blocked_gpus'"""
    def atom(e, nid):
        if not isinstance(e, ast.Name):
            return None
        d = res.defs(e.id, nid)
        if len(d) != 1 or d[0][1] is None:
            return None
        for x in walk(d[0][1]):
            if isinstance(x, ast.Constant) and isinstance(x.value, str) and \
                    x.value.startswith('blocked_') and \
                    x.value[8:] in ('cores', 'gpus'):
                return ('blocked', x.value[8:])
        return None
    return atom


def r01_15(prog, rep, rid='R01.15'):
    rep.rule(rid, 'the statement that marks blocked cores (gpus) DOWN is '
             'reached whenever the configured list of blocked cores (gpus) is '
             'not empty, whatever the other list holds', minimum=2)
    free, busy, down = consts(prog)
    f = prog.method(RM[0], RM[1], '_init_from_scratch')
    rep.saw(f)
    res = _Resolver(f)
    atom = _blocked_atom(res)
    truth = _Truth(res, atom)
    marks = {}
    for k, target, stmt in I.stores(f.node):
        if k != 'assign' or not isinstance(target, ast.Subscript) or \
                id(stmt) not in res.smap:
            continue
        v = prog.fold(f.module, stmt.value)
        if v is UNKNOWN or not (v is down if down is None else v == down):
            continue
        e = target
        kinds = set()
        while isinstance(e, (ast.Subscript, ast.Attribute)):
            if isinstance(e, ast.Subscript) and \
                    isinstance(e.slice, ast.Constant) and \
                    e.slice.value in ('cores', 'gpus'):
                kinds.add(e.slice.value)
            if isinstance(e.value, ast.Name):
                v2, vn = res.single(e.value, res.at(stmt))
                if v2 is not e.value and I.is_path(v2):
                    e = v2
                    continue
            e = e.value
        for kd in kinds:
            marks.setdefault(kd, []).append(stmt)
    if not marks:
        raise AnalysisError('R01.15: no statement of %s marks a core / gpu '
                            'as rpc.DOWN' % f.where)
    known = set()
    for n in res.g.nodes:
        roots = [n.ast] if n.kind == 'test' else \
            [n.ast.iter] if n.kind == 'for' else []
        for r in roots:
            for x in walk(r):
                a = atom(x, n.id)
                if a:
                    known.add(a)
                elif isinstance(x, ast.Name):
                    # a hoisted test: `both = bc and bg ; if both:`
                    v, vn = res.single(x, n.id)
                    for y in (walk(v) if v is not x else ()):
                        a = atom(y, vn)
                        if a:
                            known.add(a)
    missing = [kd for kd in ('cores', 'gpus') if kd not in marks]
    for kd in sorted(marks):
        me = ('blocked', kd)
        if me not in known:
            # nothing on the way to the marking tests or iterates the list
            raise AnalysisError(
                'UNRECOGNISED-IDIOM %s: the marking of blocked %s does not '
                'iterate / test the configured list' % (f.where, kd))
        lost = None
        for asg in _assignments(sorted(known), {me: True}):
            decided = []
            r = truth.reach(asg, decided)
            if not any(res.at(s) in r for s in marks[kd]):
                lost = (asg, decided)
                break
        other = 'gpus' if kd == 'cores' else 'cores'
        why = ''
        if lost:
            why = '; '.join('`%s` is %s' % (short(t, 40), v)
                            for t, v in lost[1])
        rep.check(lost is None, rid, f,
                  'blocked %s are marked DOWN whenever blocked_%s is not '
                  'empty' % (kd, kd), construct='DOWN:%s:reached' % kd,
                  message='%s: with blocked %s configured and %s the '
                  'statement `%s` is never reached (%s): the blocked %s stay '
                  'FREE in the node list (and %s_per_node is not reduced), '
                  'the scheduler hands them to tasks'
                  % (f.qual, kd, ', '.join(
                      'blocked_%s %s' % (k[1], 'set' if v else 'empty')
                      for k, v in sorted(lost[0].items()) if k != me)
                      if lost else '', short(marks[kd][0], 50), why, kd, kd),
                  loc=f.loc(marks[kd][0]),
                  history='platform with system_architecture.blocked_%s = '
                  '[0, 1] and no blocked_%s: node map shows the two %s as '
                  'free, the first task is granted %s 0 of node 0'
                  % (kd, other, kd, kd[:-1]))
    if missing:
        # R01.7 reports the missing marking; this rule has nothing to decide
        raise AnalysisError('R01.15: no statement of %s marks blocked %s as '
                            'rpc.DOWN' % (f.where, ' / '.join(missing)))


# ------------------------------------------------------------------------------
# R01.16  application-level release goes to the node the slot names
#
def _field_of(e, names):
    """(base name, field) of `X.field` / `X['field']` with field in names"""
    if isinstance(e, ast.Attribute) and isinstance(e.value, ast.Name) and \
            e.attr in names:
        return e.value.id, e.attr
    if isinstance(e, ast.Subscript) and isinstance(e.value, ast.Name) and \
            isinstance(e.slice, ast.Constant) and e.slice.value in names:
        return e.value.id, e.slice.value
    return None


_NODE_ID = {'index': 'node_index', 'name': 'node_name'}


def _release_receiver(res, call, slot):
    """decide the receiver of `<R>.deallocate_slot(<slot>)`:
    ('ok', text) | ('bad', text) ; unknown shapes raise"""
    f, g = res.f, res.g
    nid = res.at(call)
    sdefs = res.def_ids(slot, nid)

    def unknown(why):
        raise AnalysisError('UNRECOGNISED-IDIOM %s: receiver of `%s`: %s'
                            % (f.where, short(call, 50), why))

    def names_slot_field(e, enid, field):
        v, vn = res.single(e, enid)
        fo = _field_of(v, (field,))
        if fo and fo[0] == slot and res.def_ids(slot, vn) == sdefs:
            return True
        # mentioned somewhere inside a larger expression?
        for x in walk(v):
            fo = _field_of(x, tuple(_NODE_ID.values()))
            if fo and fo[0] == slot:
                return None
        return False

    def by_value(v, vnid):
        if not isinstance(v, ast.Subscript):
            unknown('`%s` is not an element of self.nodes' % short(v, 40))
        cont, cn = res.single(v.value, vnid)
        ctext = unparse(cont)
        if ctext == 'self.nodes':
            field = 'node_index'
        elif ctext == 'self.__nodes_by_name__':
            field = 'node_name'
        else:
            unknown('container `%s`' % short(cont, 40))
        r = names_slot_field(v.slice, vnid, field)
        if r is None:
            unknown('key `%s`' % short(v.slice, 40))
        if r:
            return 'ok', short(v, 50)
        k, kn = res.single(v.slice, vnid)
        src = ''
        if isinstance(k, ast.Name):
            d = res.defs(k.id, kn)
            if any(slot in stores_in_target(n.ast.target) for n, x in d
                   if n.kind == 'for'):
                unknown('key bound together with the slot')
            src = ' (bound by %s)' % '; '.join(
                '`for %s in %s`' % (short(n.ast.target, 20),
                                    short(n.ast.iter, 30))
                if n.kind == 'for' else '`%s`' % short(n.ast, 40)
                for n, x in d) if d else ' (not bound in the function)'
        elif k is not v.slice:
            src = ' (= `%s`)' % short(k, 40)
        return 'bad', '`%s`: the key `%s`%s does not derive from the ' \
            'slot that is released (expected its %s)' % (
                short(v, 50), short(v.slice, 30), src, field)

    def by_loop(name, fornode):
        if unparse(fornode.ast.iter) != 'self.nodes' or not (
                isinstance(fornode.ast.target, ast.Name)):
            unknown('loop `for %s in %s`' % (short(fornode.ast.target, 20),
                                             short(fornode.ast.iter, 30)))
        for tid, lab in guards(g, nid):
            a = g.nodes[tid].ast
            if not (isinstance(a, ast.Compare) and len(a.ops) == 1 and
                    isinstance(a.ops[0], (ast.Eq, ast.NotEq))):
                continue
            if lab != ('T' if isinstance(a.ops[0], ast.Eq) else 'F'):
                continue
            sides = [a.left, a.comparators[0]]
            for x, y in (sides, sides[::-1]):
                fx = _field_of(res.single(x, tid)[0], tuple(_NODE_ID))
                fy = _field_of(res.single(y, tid)[0],
                               tuple(_NODE_ID.values()))
                if fx and fy and fx[0] == name and fy[0] == slot and \
                        _NODE_ID[fx[1]] == fy[1]:
                    return 'ok', 'node with %s == %s.%s' % (fx[1], slot, fy[1])
        return 'bad', 'every node of `for %s in self.nodes` (no test ' \
            'compares the node\'s index with the slot\'s node_index)' % name

    R = call.func.value
    if not isinstance(R, ast.Name):
        return by_value(R, nid)
    d = res.defs(R.id, nid)
    if not d:
        unknown('`%s` is not bound in the function' % R.id)
    verdicts = []
    for n, v in d:
        if n.kind == 'for':
            if slot in stores_in_target(n.ast.target):
                unknown('node bound together with the slot')
            verdicts.append(by_loop(R.id, n))
        elif v is not None and isinstance(n.ast, (ast.Assign, ast.AnnAssign)):
            if isinstance(v, ast.Constant) and v.value is None:
                continue
            verdicts.append(by_value(v, n.id))
        else:
            unknown('binding `%s`' % short(n.ast, 40))
    if not verdicts:
        unknown('`%s` is only bound to None' % R.id)
    bad = [t for s, t in verdicts if s == 'bad']
    if bad:
        return 'bad', bad[0]
    return 'ok', verdicts[0][1]


def r01_16(prog, rep, rid='R01.16'):
    rep.rule(rid, 'NodeList: deallocate_slot(slot) is sent to the node the '
             'slot names (self.nodes[slot.node_index], or the node whose '
             'index equals slot.node_index) - in the roll-back of find_slots '
             'and in release_slots; Node.find_slot stamps the slot with its '
             'own index', minimum=3)
    nl = prog.cls(NODE[0], 'NodeList')
    node = prog.cls(*NODE)
    n_rel = 0
    for K in [nl] + [k for k in prog.subclasses(nl, strict=True)
                     if k is not nl]:
        for mname, f in sorted(K.methods.items()):
            if not isinstance(f.node, ast.FunctionDef):
                continue
            calls = [c for c in calls_in(f.node)
                     if isinstance(c.func, ast.Attribute) and
                     c.func.attr == 'deallocate_slot']
            if not calls:
                continue
            rep.saw(f)
            res = _Resolver(f)
            for c in calls:
                arg = c.args[0] if c.args else kwarg(c, 'slot')
                if not isinstance(arg, ast.Name):
                    raise AnalysisError(
                        'UNRECOGNISED-IDIOM %s: argument of `%s`'
                        % (f.where, short(c, 50)))
                n_rel += 1
                verdict, text = _release_receiver(res, c, arg.id)
                rep.check(verdict == 'ok', rid, f,
                          '%s: `%s` goes to %s' % (f.qual, short(c, 40), text),
                          construct='%s:deallocate' % f.qual,
                          message='%s releases the slot on another node than '
                          'the one that holds it: `%s` is sent to %s.  The '
                          'node that granted the slot keeps its cores '
                          'occupied (leak) and the occupation of the cores '
                          'with the same indexes on the other node drops '
                          'below zero, so they pass `occupation <= BUSY - '
                          'ro.occupation` once more than they should and are '
                          'handed to two tasks' % (f.qual, short(c, 40), text),
                          loc=f.loc(c),
                          history='2 nodes x 2 cores: A(1 core) placed on '
                          'node 0, B(4) finds 3 slots on both nodes, fails '
                          'and is rolled back on the last node visited: node '
                          '1 core 1 has occupation -1.0; A released; the '
                          'next single-core requests D and E both get node 1 '
                          'core 1')
    if n_rel < 2:
        raise AnalysisError('R01.16: fewer than two deallocate_slot calls in '
                            'NodeList (roll-back of find_slots, release_slots)')
    n_stamp = 0
    for K in [node] + [k for k in prog.subclasses(node, strict=True)
                       if k is not node]:
        for mname, f in sorted(K.methods.items()):
            if not isinstance(f.node, ast.FunctionDef):
                continue
            res = None
            for c in calls_in(f.node):
                if call_name(c) != 'Slot':
                    continue
                kw = kwarg(c, 'node_index')
                if kw is None:
                    if mname == 'find_slot':
                        raise AnalysisError(
                            'UNRECOGNISED-IDIOM %s: `%s` without node_index'
                            % (f.where, short(c, 50)))
                    continue
                rep.saw(f)
                res = res or _Resolver(f)
                v, vn = res.single(kw, res.at(c))
                fo = _field_of(v, ('index',))
                n_stamp += 1
                rep.check(bool(fo) and fo[0] == 'self', rid, f,
                          '%s: the slot is stamped with node_index=self.index'
                          % f.qual, construct='%s:Slot:node_index' % f.qual,
                          message='%s allocates the slot on this node '
                          '(self.allocate_slot) but stamps it with '
                          'node_index=`%s`: NodeList.release_slots / the '
                          'roll-back of find_slots address the node by '
                          'slot.node_index and release on another node'
                          % (f.qual, short(kw, 40)), loc=f.loc(c),
                          history='find_slots on a 2 node list, slot found on '
                          'node 1, released on the node its node_index names: '
                          'node 1 stays occupied, the other node goes '
                          'negative and is granted twice')
    if not n_stamp:
        raise AnalysisError('R01.16: Node.find_slot does not build a Slot '
                            'with node_index')


# ------------------------------------------------------------------------------
# R01.17  an occupancy store runs once per element it is computed from
#
def _free_names(e, bound=frozenset()):
    """names an expression reads, without those a comprehension inside the
    expression binds itself"""
    if isinstance(e, ast.Name):
        if isinstance(e.ctx, ast.Load) and e.id not in bound:
            yield e.id
        return
    if isinstance(e, ast.Lambda):
        return
    if isinstance(e, (ast.ListComp, ast.SetComp, ast.GeneratorExp,
                      ast.DictComp)):
        b = set(bound)
        for gen in e.generators:
            yield from _free_names(gen.iter, frozenset(b))
            b |= set(stores_in_target(gen.target))
            for c in gen.ifs:
                yield from _free_names(c, frozenset(b))
        for part in ([e.key, e.value] if isinstance(e, ast.DictComp)
                     else [e.elt]):
            yield from _free_names(part, frozenset(b))
        return
    for c in ast.iter_child_nodes(e):
        if isinstance(c, (ast.expr, ast.keyword)):
            yield from _free_names(c, bound)


def _loops_behind(res, exprs, nid, elementwise=True):
    """ids of the `for` heads whose loop variable the values of `exprs`
    (evaluated at cfg node nid) are taken from - directly or through locals
    (reaching definitions), including the loops the iterated expressions are
    themselves taken from.

    elementwise: only chains on which the value IS one element of the loop -
    not a sum built up over the iterations (`total += x.amount`) and not an
    element picked by a test inside the loop (`if ..: chosen = x`).
    Otherwise every loop that has any influence counts, also through
    accumulation, selection and loop carried locals."""
    g = res.g
    out = set()
    seen = set()
    todo = [(e, nid) for e in exprs]

    here = set(g.nodes[nid].loops)

    def picked(n):
        # the definition is control dependent on a test inside a loop that
        # does not contain the place the value is used at
        away = set(n.loops) - here
        return bool(away) and any(set(g.nodes[t].loops) & away
                                  for t, lab in guards(g, n.id))

    while todo:
        e, at = todo.pop()
        for nm in _free_names(e):
            if (nm, at) in seen:
                continue
            seen.add((nm, at))
            for n, v in res.defs(nm, at):
                if n.kind == 'for':
                    out.add(n.id)
                    todo.append((n.ast.iter, n.id))
                    continue
                if isinstance(n.ast, ast.AugAssign):
                    if elementwise:
                        continue
                    todo.append((n.ast.value, n.id))
                    todo.append((_load(n.ast.target), n.id))
                elif elementwise and picked(n):
                    continue
                elif v is not None:
                    todo.append((v, n.id))
                elif isinstance(n.ast, ast.Assign):
                    todo.append((n.ast.value, n.id))
                if not elementwise:
                    out |= {h for h in n.loops if g.nodes[h].kind == 'for'}
    return out


def _plain_amount(e):
    """the operand of an augmented store is a value as it is read (a path,
    possibly cast), not a signed / scaled expression"""
    while isinstance(e, ast.Call) and isinstance(e.func, ast.Name) and \
            e.func.id in ('int', 'float') and len(e.args) == 1 and \
            not e.keywords:
        e = e.args[0]
    return I.is_path(e)


def _directions(res, stmt, K):
    """what a store below a node does to the node's free resources:
    'take' (marks busy / debits), 'give' (marks free / credits) or both (a
    state or signed amount decided elsewhere)"""
    both = {'take', 'give'}
    if not isinstance(stmt, ast.AugAssign) or \
            not isinstance(stmt.op, (ast.Add, ast.Sub)) or \
            not _plain_amount(stmt.value):
        return both
    vals = {K[1]} if K[0] == 'c' else _const_values(res, K)
    if not vals:
        return both
    add = isinstance(stmt.op, ast.Add)
    if vals <= {'cores', 'gpus'}:         # occupation: += occupies
        return {'take'} if add else {'give'}
    if vals <= {'lfs', 'mem'}:            # free amount: -= occupies
        return {'give'} if add else {'take'}
    return both


def r01_17(prog, rep, rid='R01.17'):
    rep.rule(rid, 'occupancy writers: a store that takes its index / amount '
             'from the elements of a loop lies in the body of that loop (every '
             'core / gpu of the slot is marked, not only the last), and a '
             'store that gives resources back is not repeated by a loop it '
             'takes nothing from', minimum=24)
    for f, kf in _kind_writers(prog):
        rep.saw(f)
        res = kf.res
        g = res.g
        stores = kf.stores()
        if not stores:
            raise AnalysisError('UNRECOGNISED-IDIOM %s: no store below a node '
                                'object' % f.where)

        def leaves_early(L):
            return any(isinstance(m.ast, ast.Break) and m.kind == 'stmt' and
                       m.loops and m.loops[-1] == L for m in g.nodes)

        for stmt, target, nid, K, below in stores:
            kt = _key_text(K)
            dirs = _directions(res, stmt, K)
            operands = list(below) + [stmt.value]
            if K[0] == 'v':
                operands.append(ast.Name(id=K[1], ctx=ast.Load()))
            behind = _loops_behind(res, operands, nid)
            # every element: the store is inside each loop it draws from
            outside = [L for L in sorted(behind)
                       if nid not in g.loop_body[L] and not leaves_early(L)]
            if 'take' not in dirs:
                outside = []
            L = outside[0] if outside else None
            la = g.nodes[L].ast if L is not None else None
            rep.check(not outside, rid, f,
                      '%s: `%s` runs for every element of the loop(s) it '
                      'takes its index / amount from (%d)'
                      % (f.qual, short(stmt, 50), len(behind)),
                      construct='%s:%s:%s:each' % (f.qual, kt,
                                                   _store_op(stmt)),
                      message='%s: `%s` takes its index / amount from the '
                      'variable of `for %s in %s` but is not part of that '
                      'loop: it runs once, after the loop, with the last '
                      'element only.  The other %s of the slot stay free on '
                      'the node although the task holds them, and are handed '
                      'to the next task' % (
                          f.qual, short(stmt, 60),
                          short(la.target, 20) if la is not None else '',
                          short(la.iter, 30) if la is not None else '', kt),
                      loc=f.loc(stmt),
                      history='two requests for 2 cores per rank on one free '
                      '4 core node: the first slot [0, 1] marks core 1 only; '
                      'the second search finds cores [0, 2]: core 0 is held by '
                      'two tasks')
            # once: a crediting `+=` / `-=` is not repeated by a loop that
            # has nothing to do with it
            if not isinstance(stmt, ast.AugAssign):
                continue
            around = [h for h in g.nodes[nid].loops
                      if g.nodes[h].kind == 'for']
            if not around:
                rep.ok(rid, f, '%s: `%s` is not inside a loop'
                       % (f.qual, short(stmt, 50)), f.loc(stmt))
                continue
            tests = [g.nodes[t].ast for t, lab in guards(g, nid)
                     if g.nodes[t].kind == 'test']
            drawn = _loops_behind(res, [_load(target), stmt.value] + tests,
                                  nid, elementwise=False)
            extra = [h for h in around if h not in drawn]
            if 'give' not in dirs:
                extra = []
            ha = g.nodes[extra[0]].ast if extra else None
            rep.check(not extra, rid, f,
                      '%s: `%s` depends on every loop that repeats it'
                      % (f.qual, short(stmt, 50)),
                      construct='%s:%s:%s:once' % (f.qual, kt,
                                                   _store_op(stmt)),
                      message='%s: `%s` gives %s back to the node inside '
                      '`for %s in %s`, from which neither the target nor the '
                      'amount is taken: the same amount is credited once per '
                      'iteration, the node shows more free %s than it has '
                      'and the search places tasks beyond its capacity' % (
                          f.qual, short(stmt, 60), kt,
                          short(ha.target, 20) if ha is not None else '',
                          short(ha.iter, 30) if ha is not None else '', kt),
                      loc=f.loc(stmt),
                      history='a slot with 2 gpus and lfs 512 on a node with '
                      'lfs 1024 is released: 1024 is credited; two tasks '
                      'asking for lfs 768 each are then both placed on that '
                      'node')


# ------------------------------------------------------------------------------
# R01.18  the application-level node list is one object per pilot
#
PILOT = ('pilot.py', 'Pilot')
NLIST = ('resource_config.py', 'NodeList')


class _CacheTruth(_Truth):
    """_Truth which also decides `x is None` / `x is not None` / `x == None`
    for an x whose truth is known to be True"""

    def ev(self, e, nid, asg, depth=0):
        if isinstance(e, ast.Compare) and len(e.ops) == 1 and \
                isinstance(e.comparators[0], ast.Constant) and \
                e.comparators[0].value is None and \
                isinstance(e.ops[0], (ast.Is, ast.IsNot, ast.Eq, ast.NotEq)):
            v = _Truth.ev(self, e.left, nid, asg, depth + 1)
            if v is True:
                return isinstance(e.ops[0], (ast.IsNot, ast.NotEq))
            return None
        return _Truth.ev(self, e, nid, asg, depth)


def _self_attr(e):
    """attribute name of `self.<name>` / getattr(self, '<name>'[, None])"""
    if isinstance(e, ast.Attribute) and isinstance(e.value, ast.Name) and \
            e.value.id == 'self':
        return e.attr
    if isinstance(e, ast.Call) and isinstance(e.func, ast.Name) and \
            e.func.id == 'getattr' and len(e.args) in (2, 3) and \
            isinstance(e.args[0], ast.Name) and e.args[0].id == 'self' and \
            isinstance(e.args[1], ast.Constant) and \
            isinstance(e.args[1].value, str) and (
                len(e.args) == 2 or (isinstance(e.args[2], ast.Constant) and
                                     not e.args[2].value)):
        return e.args[1].value
    return None


def r01_18(prog, rep, rid='R01.18'):
    rep.rule(rid, 'Pilot.nodelist: the NodeList that carries the application-'
             'level occupancy is built once per pilot - a fresh NodeList is '
             'kept in an attribute of the pilot, is only built while that '
             'attribute is empty, the attribute is what later accesses return, '
             'and nothing else re-binds it', minimum=4)
    pilot = prog.cls(*PILOT)
    nl = prog.cls(*NLIST)
    names = {nl.name} | {k.name for k in prog.subclasses(nl, strict=True)}
    f = pilot.methods.get('nodelist')
    if f is None:
        raise AnalysisError('anchor Pilot.nodelist not found')
    rep.saw(f)
    res = _Resolver(f)
    g = res.g

    def builds(fn, depth=0):
        """fn returns a NodeList it constructs"""
        r2 = _Resolver(fn)
        for n in r2.g.stmt_nodes():
            if n.kind == 'stmt' and isinstance(n.ast, ast.Return) and \
                    n.ast.value is not None:
                v, _ = r2.single(n.ast.value, n.id)
                if is_build(fn, v, depth + 1):
                    return True
        return False

    def is_build(fn, c, depth=0):
        if not isinstance(c, ast.Call):
            return False
        if dotted(c.func).split('.')[-1] in names:
            return True
        if depth < 2 and dotted(c.func).startswith('self.'):
            callee = prog.resolve_call(fn, c)
            if callee is not None and callee is not fn:
                return builds(callee, depth)
        return False

    sites = []
    for c in calls_in(f.node):
        if is_build(f, c) and id(c) in res.smap:
            sites.append((res.smap[id(c)], c))
    if not sites:
        raise AnalysisError('UNRECOGNISED-IDIOM %s: no NodeList is built here'
                            % f.where)
    returns = [n for n in g.stmt_nodes() if n.kind == 'stmt' and
               isinstance(n.ast, ast.Return) and n.ast.value is not None and
               not (isinstance(n.ast.value, ast.Constant) and
                    n.ast.value.value is None)]
    hist = ('pilot.nodelist.find_slots(RankRequirements(n_cores=1, lfs=600)) '
            'for two tasks on one node with lfs 1000: each access works on a '
            'NodeList whose nodes start at the full lfs / mem again, both '
            'requests succeed, and the tasks submitted with these td.slots '
            'hold 1200 lfs on a 1000 node')
    attrs = set()
    kept_stores = set()
    held = {}                   # site node id -> local name that holds it
    for n, c in sites:
        st = n.ast
        tgt = _single_target(st) if isinstance(st, (ast.Assign,
                                                    ast.AnnAssign)) else None
        a = _self_attr(tgt) if tgt is not None and st.value is c else None
        if a is not None:
            attrs.add(a)
            kept_stores.add(n.id)
            rep.ok(rid, f, 'the NodeList built by `%s` is kept in self.%s'
                   % (short(c, 40), a), f.loc(st))
            continue
        keep = []
        if isinstance(tgt, ast.Name) and st.value is c:
            held[n.id] = tgt.id
            for m in g.stmt_nodes():
                if m.kind == 'stmt' and isinstance(m.ast, ast.Assign) and \
                        len(m.ast.targets) == 1 and \
                        _self_attr(m.ast.targets[0]) is not None and \
                        isinstance(m.ast.value, ast.Name) and \
                        m.ast.value.id == tgt.id and \
                        res.def_ids(tgt.id, m.id) == frozenset([n.id]):
                    keep.append(m)
        elif not (isinstance(st, ast.Return) and st.value is c):
            raise AnalysisError('UNRECOGNISED-IDIOM %s: what happens to the '
                                'NodeList built by `%s`' % (f.where,
                                                            short(st, 60)))
        if not keep and n.id in held:
            # kept some other way (setattr, a container of the pilot, handed
            # to a call)?  then this rule does not know where it lives
            for x in walk(f.node):
                esc = []
                if isinstance(x, ast.Call):
                    esc = list(x.args) + [k.value for k in x.keywords]
                elif isinstance(x, ast.Assign) and not all(
                        isinstance(t, ast.Name) for t in x.targets):
                    esc = [x.value]
                elif isinstance(x, (ast.Yield, ast.YieldFrom)):
                    esc = [x.value] if x.value is not None else []
                if any(isinstance(y, ast.Name) and y.id == held[n.id]
                       for e in esc for y in walk(e)):
                    raise AnalysisError(
                        'UNRECOGNISED-IDIOM %s: the NodeList built by `%s` '
                        'is passed on by `%s`' % (f.where, short(c, 40),
                                                  short(x, 50)))
        lost = not keep
        for r in returns:
            if r.id != n.id and r.id in g.reachable(n.id) and not must_pass(
                    g, n.id, r.id, [m.id for m in keep], skip_exc=True):
                lost = True
        if isinstance(st, ast.Return):
            lost = True
        for m in keep:
            attrs.add(_self_attr(m.ast.targets[0]))
            kept_stores.add(m.id)
        rep.check(not lost, rid, f, 'the NodeList built by `%s` is kept in an '
                  'attribute of the pilot before it is returned'
                  % short(c, 40), construct='nodelist:kept',
                  message='%s: the NodeList built by `%s` is handed out '
                  'without being kept in an attribute of the pilot (on some '
                  'path to a return): the next access builds another one, on '
                  'which every node has its full lfs / mem again and - after a '
                  'copy of the resource details - free cores'
                  % (f.qual, short(c, 40)), loc=f.loc(st), history=hist)
    if len(attrs) != 1:
        if attrs:
            raise AnalysisError('UNRECOGNISED-IDIOM %s: the NodeList is kept '
                                'in several attributes %s' % (f.where,
                                                              sorted(attrs)))
        return
    A = next(iter(attrs))

    # built only while the attribute is empty
    def atom(e, nid):
        return 'cache' if _self_attr(e) == A else None
    truth = _CacheTruth(res, atom)
    live = truth.reach({'cache': True})
    for n, c in sites:
        rep.check(n.id not in live, rid, f, '`%s` is only reached while '
                  'self.%s is empty' % (short(c, 40), A),
                  construct='nodelist:guard',
                  message='%s: `%s` is reached although self.%s already holds '
                  'the node list (no test of self.%s that the filled attribute '
                  'fails lies on the way): the list kept in self.%s - with '
                  'the occupancy of all placements handed out so far - is '
                  'replaced by a fresh one'
                  % (f.qual, short(c, 40), A, A, A), loc=f.loc(n.ast),
                  history=hist)
    # what is returned is the kept object
    for r in returns:
        okr = True
        why = ''
        todo = [(r.ast.value, r.id)]
        seen = set()
        while todo and okr:
            e, at = todo.pop()
            e, at = res.single(e, at)
            a = _self_attr(e)
            if a is not None:
                if a != A:
                    okr, why = False, 'self.%s' % a
                continue
            if isinstance(e, ast.Call) and any(e is c for n, c in sites):
                continue
            if isinstance(e, ast.Constant) and e.value is None:
                continue
            if isinstance(e, ast.Name) and (e.id, at) not in seen:
                seen.add((e.id, at))
                ds = res.defs(e.id, at)
                if ds and all(v is not None for n, v in ds):
                    todo += [(v, n.id) for n, v in ds]
                    continue
            raise AnalysisError('UNRECOGNISED-IDIOM %s: what `%s` returns'
                                % (f.where, short(r.ast, 50)))
        rep.check(okr, rid, f, '`%s` returns what self.%s holds'
                  % (short(r.ast, 40), A), construct='nodelist:return',
                  message='%s: the NodeList is kept in self.%s but `%s` '
                  'returns %s: the caller does not work on the list that '
                  'carries the occupancy of the earlier placements'
                  % (f.qual, A, short(r.ast, 40), why), loc=f.loc(r.ast),
                  history=hist)
    # nothing else re-binds the attribute
    others = []
    for mname, m in sorted(pilot.methods.items()):
        for kind, target, stmt in I.stores(m.node, nested=True):
            if kind == 'mutate' or _self_attr(target) != A:
                continue
            if mname == '__init__' and m is not f:
                continue
            if m is f and id(stmt) in res.smap and \
                    res.smap[id(stmt)].id in kept_stores:
                continue
            others.append((m, stmt))
    for m, stmt in others:
        rep.bad(rid, m, stmt, '%s: `%s` re-binds self.%s, the attribute in '
                'which Pilot.nodelist keeps the NodeList: the next access '
                'builds a fresh list and the occupancy of the placements '
                'handed out so far is forgotten' % (m.qual, short(stmt, 50),
                                                    A),
                m.loc(stmt), history=hist)
    if not others:
        rep.ok(rid, pilot.name, 'self.%s is bound only in __init__ and where '
               'Pilot.nodelist keeps the list it built' % A, f.loc())


# ------------------------------------------------------------------------------
# R01.19  the list position that is occupied holds the requested index
#
def _index_base(e):
    """X of `X.index` / `X['index']`"""
    if isinstance(e, ast.Attribute) and e.attr == 'index':
        return e.value
    if isinstance(e, ast.Subscript) and isinstance(e.slice, ast.Constant) and \
            e.slice.value == 'index':
        return e.value
    return None


def _self_list(res, e, nid):
    """kind ('cores' / 'gpus') when e denotes self.<kind> / self['<kind>']
    (directly or through a local with one definition)"""
    e = res.single(e, nid)[0]
    if isinstance(e, ast.Call) and isinstance(e.func, ast.Name) and \
            e.func.id in ('list', 'tuple') and len(e.args) == 1 and \
            not e.keywords:
        e = e.args[0]
    k = None
    if isinstance(e, ast.Attribute):
        k = e.attr
    elif isinstance(e, ast.Subscript) and isinstance(e.slice, ast.Constant):
        k = e.slice.value
    if k in ('cores', 'gpus') and isinstance(e.value, ast.Name) and \
            e.value.id == 'self':
        return k
    return None


def _enum_parts(res, target, it, nid):
    """(position name | None, element name | None, kind) of
    `for p, x in enumerate(self.<kind>)`, `for x in self.<kind>`,
    `for p in range(len(self.<kind>))`; None for anything else"""
    if isinstance(it, ast.Call) and isinstance(it.func, ast.Name) and \
            not it.keywords:
        if it.func.id == 'enumerate' and it.args and (
                len(it.args) == 1 or (
                    len(it.args) == 2 and isinstance(it.args[1], ast.Constant)
                    and it.args[1].value == 0)) and \
                isinstance(target, ast.Tuple) and len(target.elts) == 2 and \
                all(isinstance(x, ast.Name) for x in target.elts):
            k = _self_list(res, it.args[0], nid)
            if k:
                return target.elts[0].id, target.elts[1].id, k
            return None
        if it.func.id == 'range' and len(it.args) == 1 and \
                isinstance(target, ast.Name):
            a = res.single(it.args[0], nid)[0]
            if isinstance(a, ast.Call) and isinstance(a.func, ast.Name) and \
                    a.func.id == 'len' and len(a.args) == 1:
                k = _self_list(res, a.args[0], nid)
                if k:
                    return target.id, None, k
            return None
    if isinstance(target, ast.Name):
        k = _self_list(res, it, nid)
        if k:
            return None, target.id, k
    return None


class _Positions:
    """Decides for one function whether the value of an expression is a
    position p of self.<kind> for which `self.<kind>[p].index == <request>
    .index` was established on every path to the place it is used at."""

    def __init__(self, res, is_request):
        self.res = res
        self.g = res.g
        self.is_request = is_request      # (expr, node id) -> bool

    def _same_value(self, a, an, b, bn):
        a = self.res.single(a, an)[0]
        b = self.res.single(b, bn)[0]
        if unparse(a) != unparse(b):
            return False
        return all(self.res.def_ids(nm, an) == self.res.def_ids(nm, bn)
                   for nm in set(_free_names(a)))

    def _loop_of(self, name, nid):
        d = self.res.defs(name, nid)
        if len(d) != 1 or d[0][0].kind != 'for':
            return None
        n = d[0][0]
        parts = _enum_parts(self.res, n.ast.target, n.ast.iter, n.id)
        return (n.id, parts) if parts else None

    def _element_at(self, x, xn, pos, pn, kind):
        """x (at xn) is the element of self.<kind> at position pos (at pn)"""
        x = self.res.single(x, xn)[0]
        if isinstance(x, ast.Subscript) and \
                not isinstance(x.slice, ast.Slice) and \
                _self_list(self.res, x.value, xn) == kind:
            return self._same_value(x.slice, xn, pos, pn)
        p = self.res.single(pos, pn)[0]
        if isinstance(x, ast.Name) and isinstance(p, ast.Name):
            lx = self._loop_of(x.id, xn)
            lp = self._loop_of(p.id, pn)
            return bool(lx and lp and lx[0] == lp[0] and lx[1][2] == kind and
                        lx[1][1] == x.id and lx[1][0] == p.id)
        return False

    def element_tests(self, nid):
        """the dominating tests that read the index of an element of a list
        of the node"""
        out = []
        for tid, lab in guards(self.g, nid):
            for x in walk(self.g.nodes[tid].ast):
                b = _index_base(x)
                if b is None or self.is_request(b, tid):
                    continue
                out.append(self.g.nodes[tid].ast)
                break
        return out

    def verified(self, pos, nid, kind):
        for tid, lab in guards(self.g, nid):
            a = self.g.nodes[tid].ast
            if not (isinstance(a, ast.Compare) and len(a.ops) == 1 and
                    isinstance(a.ops[0], (ast.Eq, ast.NotEq))):
                continue
            if lab != ('T' if isinstance(a.ops[0], ast.Eq) else 'F'):
                continue
            sides = [self.res.single(s, tid)[0]
                     for s in (a.left, a.comparators[0])]
            for x, y in (sides, sides[::-1]):
                bx, by = _index_base(x), _index_base(y)
                if bx is None or by is None or not self.is_request(by, tid):
                    continue
                if self._element_at(bx, tid, pos, nid, kind):
                    return True
        return False

    def comprehension(self, e, nid, kind):
        """True / False for the searching expressions
        `next(p for p, x in enumerate(self.<kind>) if x.index == r.index)`,
        `[p for p, x in ... if ...][0]` and
        `[x.index for x in self.<kind>].index(r.index)`; None otherwise"""
        e = self.res.single(e, nid)[0]
        if isinstance(e, ast.Call) and isinstance(e.func, ast.Attribute) and \
                e.func.attr == 'index' and len(e.args) == 1 and \
                not e.keywords:
            lst = self.res.single(e.func.value, nid)[0]
            want = _index_base(self.res.single(e.args[0], nid)[0])
            if isinstance(lst, ast.ListComp) and len(lst.generators) == 1 \
                    and not lst.generators[0].ifs and want is not None and \
                    self.is_request(want, nid):
                gen = lst.generators[0]
                parts = _enum_parts(self.res, gen.target, gen.iter, nid)
                b = _index_base(lst.elt)
                if parts and parts[2] == kind and parts[0] is None and \
                        isinstance(b, ast.Name) and b.id == parts[1]:
                    return True
            return None
        comp = None
        if isinstance(e, ast.Call) and isinstance(e.func, ast.Name) and \
                e.func.id == 'next' and e.args and \
                isinstance(e.args[0], ast.GeneratorExp):
            comp = e.args[0]
        elif isinstance(e, ast.Subscript) and \
                isinstance(e.slice, ast.Constant) and e.slice.value == 0 and \
                isinstance(e.value, ast.ListComp):
            comp = e.value
        if comp is None or len(comp.generators) != 1:
            return None
        gen = comp.generators[0]
        parts = _enum_parts(self.res, gen.target, gen.iter, nid)
        if not parts or parts[2] != kind or parts[0] is None or \
                not (isinstance(comp.elt, ast.Name) and
                     comp.elt.id == parts[0]):
            return None
        for c in gen.ifs:
            if not (isinstance(c, ast.Compare) and len(c.ops) == 1 and
                    isinstance(c.ops[0], ast.Eq)):
                return None
            sides = [c.left, c.comparators[0]]
            for x, y in (sides, sides[::-1]):
                bx, by = _index_base(x), _index_base(y)
                if bx is None or by is None:
                    continue
                elem = (isinstance(bx, ast.Name) and bx.id == parts[1]) or (
                    isinstance(bx, ast.Subscript) and
                    _self_list(self.res, bx.value, nid) == kind and
                    isinstance(bx.slice, ast.Name) and
                    bx.slice.id == parts[0])
                if elem and isinstance(by, ast.Name) and \
                        by.id not in (parts[0], parts[1]) and \
                        self.is_request(by, nid):
                    return True
        return False

    def alternatives(self, e, nid, depth=0):
        """[(expression, node id)]: the values e can stand for at nid"""
        if depth > 6:
            return [(e, nid)]
        if isinstance(e, ast.IfExp):
            return self.alternatives(e.body, nid, depth + 1) + \
                self.alternatives(e.orelse, nid, depth + 1)
        if not isinstance(e, ast.Name):
            return [(e, nid)]
        d = self.res.defs(e.id, nid)
        if not d:
            return [(e, nid)]
        out = []
        for n, v in d:
            if v is not None:
                if isinstance(v, ast.Constant) and v.value is None:
                    continue
                if isinstance(n.ast, (ast.Assign, ast.AnnAssign)) and \
                        isinstance(_single_target(n.ast), ast.Name):
                    out += self.alternatives(v, n.id, depth + 1)
                    continue
            if n.kind == 'for' and isinstance(n.ast.target, ast.Tuple) and \
                    not _enum_parts(self.res, n.ast.target, n.ast.iter, n.id):
                # for p, amount in [(<p>, <amount>) for ...]
                names = [x.id if isinstance(x, ast.Name) else None
                         for x in n.ast.target.elts]
                it = self.res.single(n.ast.iter, n.id)[0]
                if isinstance(it, (ast.ListComp, ast.GeneratorExp)) and \
                        isinstance(it.elt, ast.Tuple) and \
                        len(it.elt.elts) == len(names) and \
                        names.count(e.id) == 1:
                    out.append((it.elt.elts[names.index(e.id)], n.id))
                    continue
            if len(d) == 1:
                return [(e, nid)]
            raise AnalysisError('UNRECOGNISED-IDIOM %s: the bindings of the '
                                'position `%s`' % (self.res.f.where, e.id))
        return out


def _says_nothing(res, test, tid, is_request):
    """the test only reads the request and the length of a list of the node:
    it cannot tell which entry sits at a position"""
    class _Strip(ast.NodeTransformer):
        def visit_Call(self, c):
            if isinstance(c.func, ast.Name) and c.func.id == 'len' and \
                    len(c.args) == 1 and not c.keywords and \
                    _self_list(res, c.args[0], tid):
                return ast.Constant(value=0)
            return self.generic_visit(c)
    import copy

    def plain(e, depth=0):
        if depth > 6:
            return False
        e = _Strip().visit(copy.deepcopy(e))
        for x in walk(e):
            if isinstance(x, (ast.Call, ast.Lambda, ast.Await)):
                return False
            if not isinstance(x, ast.Name):
                continue
            if is_request(x, tid):
                continue
            v = res.single(x, tid)[0]
            if v is x or not plain(v, depth + 1):
                return False
        return True
    return plain(test)


_R19_HIST = ('NumaNode(8 cores, numa_domain_map {0: cores [0, 2, 4, 6], 1: '
             'cores [1, 3, 5, 7]}): the Node of domain 0 holds the ROs with '
             'index 0, 2, 4, 6 at positions 0..3.  find_slots(RankRequirements'
             '(n_cores=1, numa=True)) twice: the second slot names core 2, '
             'the occupation is added at position 2 (= core 4); core 2 still '
             'looks free and the third request is handed core 2 again')


def _check_lookup(prog, rep, rid, K, m, kind, user, done, depth=0):
    """the lookup method m returns, on every return, a position whose element
    carries the index of the RO it is asked for"""
    key = (id(m), kind)
    if key in done:
        return
    done.add(key)
    rep.saw(m)
    if depth > 3:
        raise AnalysisError('UNRECOGNISED-IDIOM %s: chain of position look-ups'
                            % m.where)
    params = [p for p in m.params if p != 'self']
    if not isinstance(m.node, ast.FunctionDef) or not params:
        raise AnalysisError('UNRECOGNISED-IDIOM %s: look-up without an '
                            'argument' % m.where)
    res = _Resolver(m)

    def is_request(b, nid):
        b = res.single(b, nid)[0]
        return isinstance(b, ast.Name) and b.id in params and \
            not res.defs(b.id, nid)

    ps = _Positions(res, is_request)
    rets = [n for n in walk(m.node) if isinstance(n, ast.Return) and
            n.value is not None and not (isinstance(n.value, ast.Constant)
                                         and n.value.value is None)]
    if not rets:
        raise AnalysisError('UNRECOGNISED-IDIOM %s: no position is returned'
                            % m.where)
    for ret in rets:
        rn = res.at(ret)
        for e, at in ps.alternatives(ret.value, rn):
            what = '%s: the position `%s` it returns holds the RO whose ' \
                'index equals the index asked for' % (m.qual, short(e, 30))
            if ps.verified(e, at, kind) or (at != rn and
                                            ps.verified(ret.value, rn, kind)):
                rep.ok(rid, m, what, m.loc(ret))
                continue
            c = ps.comprehension(e, at, kind)
            if c is True:
                rep.ok(rid, m, what, m.loc(ret))
                continue
            r = res.single(e, at)[0]
            if isinstance(r, ast.Call) and isinstance(r.func, ast.Attribute) \
                    and isinstance(r.func.value, ast.Name) and \
                    r.func.value.id == 'self':
                m2 = prog.find_method(K, r.func.attr)
                if m2 is None:
                    raise AnalysisError('UNRECOGNISED-IDIOM %s: `%s`'
                                        % (m.where, short(r, 40)))
                _check_lookup(prog, rep, rid, K, m2, kind, m, done, depth + 1)
                continue
            other = 'gpus' if kind == 'cores' else 'cores'
            if ps.verified(e, at, other) or \
                    ps.comprehension(e, at, other) is True:
                rep.bad(rid, m, '%s:%s:list' % (m.qual, kind),
                        '%s searches self.%s, but %s uses the position it '
                        'returns to address self.%s: the entry that is '
                        'occupied is not the one with the index the slot '
                        'names whenever the two lists are ordered differently '
                        '(NUMA domains), and the named %s stays free and is '
                        'handed out again' % (m.qual, other, user.qual, kind,
                                              kind[:-1]),
                        m.loc(ret), history=_R19_HIST)
                continue
            b = _index_base(r)
            seen = ps.element_tests(at) + (ps.element_tests(rn)
                                           if at != rn else [])
            blind = all(_says_nothing(res, res.g.nodes[t].ast, t, is_request)
                        for t, lab in guards(res.g, rn))
            if c is False or (b is not None and is_request(b, at)
                              and not seen and blind):
                tests = [short(a, 40) for a, pol in
                         [(res.g.nodes[t].ast, lab)
                          for t, lab in guards(res.g, rn)]]
                rep.bad(rid, m, '%s:%s:position' % (m.qual, kind),
                        '%s (used by %s to find the entry of self.%s that is '
                        'occupied) returns `%s` as a list position without '
                        'having compared the index of the entry at that '
                        'position with the index asked for%s.  Position and '
                        'index only agree for lists built by Node.__init__ '
                        'from plain values; the Nodes of NUMA domains hold a '
                        'selection of the ROs (NumaNode.__init__) and Node() '
                        'accepts RO lists as they are: another core / gpu '
                        'than the one the slot names is marked, the named one '
                        'stays free and is handed out again'
                        % (m.qual, user.qual, kind, short(ret.value, 40),
                           ' (the return is only guarded by %s)'
                           % ', '.join('`%s`' % t for t in tests)
                           if tests else ''),
                        m.loc(ret), history=_R19_HIST)
                continue
            raise AnalysisError(
                'UNRECOGNISED-IDIOM %s: cannot decide whether `%s` is the '
                'position of the entry with the index asked for'
                % (m.where, short(ret, 50)))


def r01_19(prog, rep, rid='R01.19'):
    rep.rule(rid, 'Node.allocate_slot: the position of self.cores / self.gpus '
             'whose occupation is raised was found by comparing the index of '
             'the entry at that position with the index the slot names (on '
             'every return of the look-up method, in the list that is '
             'written); position and index differ for the Nodes of NUMA '
             'domains', minimum=2)
    done = set()
    for f, kf in _kind_writers(prog):
        K = f.cls
        if K is None or not any(k.name == NODE[1] for k in prog.mro(K)):
            continue
        res = kf.res
        params = set(f.params)

        def is_request(b, nid, res=res):
            # anything that is not the node itself: the entries of the slot
            return root_name(res.single(b, nid)[0]) != 'self'

        ps = _Positions(res, is_request)
        for stmt, target, nid, key, below in kf.stores():
            if key[0] == 'c':
                kinds = {key[1]}
            else:
                kinds = _const_values(res, key)
                if kinds is None:
                    raise AnalysisError('UNRECOGNISED-IDIOM %s: kind written '
                                        'by `%s`' % (f.where, short(stmt, 50)))
            kinds = kinds & {'cores', 'gpus'}
            if not kinds or not below:
                continue
            if len(kinds) != 1 or len(below) != 1:
                raise AnalysisError('UNRECOGNISED-IDIOM %s: position written '
                                    'by `%s`' % (f.where, short(stmt, 50)))
            kind = sorted(kinds)[0]
            takes = 'take' in _directions(res, stmt, key)
            for e, at in ps.alternatives(below[0], nid):
                r = res.single(e, at)[0]
                if isinstance(r, ast.Call) and \
                        isinstance(r.func, ast.Attribute) and \
                        isinstance(r.func.value, ast.Name) and \
                        r.func.value.id == 'self':
                    m = prog.find_method(K, r.func.attr)
                    if m is None:
                        raise AnalysisError('UNRECOGNISED-IDIOM %s: `%s`'
                                            % (f.where, short(r, 40)))
                    _check_lookup(prog, rep, rid, K, m, kind, f, done)
                    continue
                if not takes:
                    # released on the whole node the slot names (R01.16),
                    # whose lists Node.__init__ built in index order
                    continue
                rep.saw(f)
                what = '%s: `%s` raises the occupation of the entry whose ' \
                    'index equals the index the slot names' \
                    % (f.qual, short(stmt, 50))
                if ps.verified(e, at, kind) or ps.verified(below[0], nid,
                                                           kind) or \
                        ps.comprehension(e, at, kind) is True:
                    rep.ok(rid, f, what, f.loc(stmt))
                    continue
                b = _index_base(r)
                if b is not None and is_request(b, at) and \
                        not ps.element_tests(at) and \
                        not ps.element_tests(nid) and all(
                            _says_nothing(res, res.g.nodes[t].ast, t,
                                          is_request)
                            for t, lab in guards(res.g, nid)):
                    rep.bad(rid, f, '%s:%s:position' % (f.qual, kind),
                            '%s: `%s` uses the index the slot names (`%s`) as '
                            'the position in self.%s without comparing the '
                            'index of the entry at that position.  Position '
                            'and index only agree for lists built by '
                            'Node.__init__ from plain values; the Nodes of '
                            'NUMA domains hold a selection of the ROs '
                            '(NumaNode.__init__): another %s than the one '
                            'the slot names is marked, the named one stays '
                            'free and is handed out again'
                            % (f.qual, short(stmt, 60), short(r, 30), kind,
                               kind[:-1]),
                            f.loc(stmt), history=_R19_HIST)
                    continue
                raise AnalysisError(
                    'UNRECOGNISED-IDIOM %s: cannot decide whether `%s` '
                    'addresses the entry with the index the slot names'
                    % (f.where, short(stmt, 60)))


# ------------------------------------------------------------------------------
#
def run(prog, rep, tier):
    rep.decided = ('single writer of node occupancy (only _change_slot_states '
        'writes below self.nodes); every granting path of _try_allocation '
        'marks and attaches the slots found; every start is a grant; the '
        'per-node search tests each kind the marking debits; every recorded '
        'index is guarded by a free/share test and the cursor/tally is '
        'advanced between picks; blocked cores/gpus are DOWN before the list '
        'is filtered; agent/service nodes are moved out of the list; Node '
        '(application-level finder) writes under its lock and tests lfs/mem; '
        'the lfs/mem cap of the slot count can only be bypassed by a zero '
        'request; Node() keeps the DOWN marker of blocked cores/gpus; the '
        'occupancy writers book every core / gpu of a slot (no store left '
        'behind its loop) and credit once; Pilot.nodelist builds the '
        'application-level NodeList once per pilot and keeps it.')
    rep.undecided = ('arithmetic adequacy of slots_per_node for all numeric '
        'inputs; overlapping application-supplied placements (known finding '
        'K1); real interleavings of the scheduler process and its callbacks.')
    rep.assumptions = [
        'no monkey patching / setattr with computed names on the analysed '
        'classes; subclasses outside the package do not override the anchors',
        'aliasing of node objects is by reference propagation through '
        'assignments, for-targets, enumerate() and resolved self calls only',
        'ru.lazy_bisect returns (good, bad, failed) as a partition of its '
        'input, `good` being exactly the items for which check() was true',
    ]
    rep.attempt(r01_1, prog, rep)
    rep.attempt(r01_2, prog, rep)
    rep.attempt(r01_3, prog, rep)
    rep.attempt(r01_4, prog, rep)
    rep.attempt(r01_5_6, prog, rep)
    rep.attempt(r01_7, prog, rep)
    rep.attempt(r01_8, prog, rep)
    rep.attempt(r01_9, prog, rep)
    rep.attempt(r01_10, prog, rep)
    rep.attempt(r02_8, prog, rep, rid='R01.11')
    rep.attempt(r01_12, prog, rep)
    rep.attempt(r01_13, prog, rep)
    rep.attempt(r01_14, prog, rep)
    rep.attempt(r01_15, prog, rep)
    rep.attempt(r01_16, prog, rep)
    rep.attempt(r01_17, prog, rep)
    rep.attempt(r01_18, prog, rep)
    rep.attempt(r01_19, prog, rep)
    if tier == 'thorough':
        # sweep: the single-writer rule over every scheduler class that
        # inherits the node-list representation
        # (subclasses of the two anchored schedulers; Hombre/Flux/Noop keep
        # their own structures and are out of scope - DESIGN 5.0)
        extra = []
        for anchor in (prog.cls(*CONT), prog.cls(*JSRUN)):
            for k in prog.subclasses(anchor, strict=True):
                if k not in extra:
                    extra.append(k)
        rep.rule('R01.1s', 'sweep of R01.1 over all subclasses of Continuous / '
                 'ContinuousJsrun', minimum=0)
        rep.attempt(r01_1, prog, rep, rid='R01.1s', extra_classes=extra)
        rep.stat('sweep_classes', len(extra))

# ------------------------------------------------------------------------------
# self-test variants (thorough tier / --selftest)
#
_B = 'agent/scheduler/base.py'
_C = 'agent/scheduler/continuous.py'
_J = 'agent/scheduler/continuous_jsrun.py'
_R = 'agent/resource_manager/base.py'
_N = 'resource_config.py'
_P = 'pilot.py'

MUTATIONS = [
    dict(name='R01.1 search marks the core it found', rules=('R01.1',), edits=[
        (_C, "                if core == rpc.FREE:\n                    slot['cores'].append(RO(index=core_idx,\n                                            occupation=rpc.BUSY))\n",
             "                if core == rpc.FREE:\n                    slot['cores'].append(RO(index=core_idx,\n                                            occupation=rpc.BUSY))\n                    node['cores'][core_idx] = rpc.BUSY\n")]),
    dict(name='R01.1 schedule_task credits lfs through an alias', rules=('R01.1',), edits=[
        (_C, "            node_index = node['index']\n            node_name  = node['name']\n\n            self._log.debug_7('next %d : %s', node_index, node_name)",
             "            node_index = node['index']\n            node_name  = node['name']\n            n = node\n            n['lfs'] += 0\n\n            self._log.debug_7('next %d : %s', node_index, node_name)")]),
    dict(name='R01.2 marking dropped in _try_allocation', rules=('R01.2',), edits=[
        (_B, "            self._change_slot_states(slots, rpc.BUSY)\n            task['slots']     = slots\n",
             "            task['slots']     = slots\n")]),
    dict(name='R01.2 marks FREE instead of BUSY', rules=('R01.2',), edits=[
        (_B, "            self._change_slot_states(slots, rpc.BUSY)\n            task['slots']     = slots\n",
             "            self._change_slot_states(slots, rpc.FREE)\n            task['slots']     = slots\n")]),
    dict(name='R01.2 marking only for multi-slot placements', rules=('R01.2',), edits=[
        (_B, "            self._change_slot_states(slots, rpc.BUSY)\n            task['slots']     = slots\n",
             "            if len(slots) > 1:\n                self._change_slot_states(slots, rpc.BUSY)\n            task['slots']     = slots\n")]),
    dict(name='R01.2 slots not attached to the task', rules=('R01.2',), edits=[
        (_B, "            task['slots']     = slots\n            task['partition'] = partition\n",
             "            task['partition'] = partition\n")]),
    dict(name='R01.3 pre-placed tasks not marked (F09 reverted)', rules=('R01.3',), edits=[
        (_B, "                    try:\n                        self._change_slot_states(task['slots'], rpc.BUSY)\n                    except Exception as e:\n                        self._fail_task(task, e,\n                                        '\\n'.join(ru.get_exception_trace()))\n                        continue\n                    self._active_cnt += 1\n",
             "")]),
    dict(name='R01.3 waiting tasks started although allocation failed', rules=('R01.3',), edits=[
        (_B, "                    else:\n                        to_wait.append(task)\n\n                except Exception as e:",
             "                    else:\n                        self.advance(task, rps.AGENT_EXECUTING_PENDING,\n                                     publish=True, push=True)\n\n                except Exception as e:")]),
    dict(name='R01.4 lfs/mem not tested (F07 reverted)', rules=('R01.4',), edits=[
        (_C, "        while len(slots) < max_slots:", "        while len(slots) < n_slots:")]),
    dict(name='R01.4 jsrun search ignores free mem', rules=('R01.4',), edits=[
        (_J, "        if mem_per_slot:\n            alc_slots = min(alc_slots, int(m.floor(free_mem / mem_per_slot)))\n", "")]),
    dict(name='R01.5 core pick guard flipped', rules=('R01.5',), edits=[
        (_C, "                if core == rpc.FREE:", "                if core != rpc.FREE:")]),
    dict(name='R01.5 gpu pick tests BUSY', rules=('R01.5',), edits=[
        (_C, "                    if gpu == rpc.FREE:", "                    if gpu == rpc.BUSY:")]),
    dict(name='R01.5 gpu pick unguarded', rules=('R01.5',), edits=[
        (_C, "                    if gpu == rpc.FREE:\n                        slot['gpus'].append(RO(index=gpu_idx,\n                                               occupation=rpc.BUSY))\n",
             "                    slot['gpus'].append(RO(index=gpu_idx,\n                                           occupation=rpc.BUSY))\n")]),
    dict(name='R01.5 share test reversed', rules=('R01.5',), edits=[
        (_C, "                    if gpus_per_slot <= rpc.BUSY - gpu_used:", "                    if gpus_per_slot >= rpc.BUSY - gpu_used:")]),
    dict(name='R01.5 jsrun core pick guard flipped', rules=('R01.5',), edits=[
        (_J, "                if node['cores'][core_idx] == rpc.FREE:", "                if node['cores'][core_idx] != rpc.FREE:")]),
    dict(name='R01.5 Node.find_slot share test reversed', rules=('R01.5',), edits=[
        (_N, "                    if rr.core_occupation <= BUSY - ro.occupation:", "                    if rr.core_occupation >= BUSY - ro.occupation:")]),
    dict(name='R01.6 core cursor not advanced', rules=('R01.6',), edits=[
        (_C, "            loop_core_idx = core_idx + 1\n", "")]),
    dict(name='R01.6 gpu cursor not advanced', rules=('R01.6',), edits=[
        (_C, "                loop_gpu_idx = gpu_idx + 1\n\n                if len(slot['gpus']) < gpus_per_slot:", "                if len(slot['gpus']) < gpus_per_slot:")]),
    dict(name='R01.6 share tally dropped (F08 reverted)', rules=('R01.6',), edits=[
        (_C, "                        gpu_shares[gpu_idx] = gpus_per_slot + \\\n                                              gpu_shares.get(gpu_idx, 0.0)\n", "")]),
    dict(name='R01.6 jsrun gpu cursor reset per slot', rules=('R01.6',), edits=[
        (_J, "            cores = list()\n            gpus  = list()\n\n            while len(cores) < cores_per_slot:",
             "            cores = list()\n            gpus  = list()\n            gpu_idx = 0\n\n            while len(cores) < cores_per_slot:")],
         note='re-initialising the cursor is a write to it: R01.6 is a necessary condition only (DESIGN)'),
    dict(name='R01.7 blocked cores marked FREE', rules=('R01.7',), edits=[
        (_R, "                    node['cores'][idx] = rpc.DOWN", "                    node['cores'][idx] = rpc.FREE")]),
    dict(name='R01.7 blocked gpus not marked', rules=('R01.7',), edits=[
        (_R, "                for idx in blocked_gpus:\n                    assert len(node['gpus']) > idx\n                    node['gpus'][idx] = rpc.DOWN\n", "")]),
    dict(name='R01.7 marking after filtering', rules=('R01.7',), edits=[
        (_R, "        self._filter_nodes(rm_info)\n\n        # add launch method", "        # add launch method"),
        (_R, "        if blocked_cores or blocked_gpus:\n", "        self._filter_nodes(rm_info)\n        if blocked_cores or blocked_gpus:\n")]),
    dict(name='R01.7 marking only when not oversubscribing', rules=('R01.7',), edits=[
        (_R, "        if blocked_cores or blocked_gpus:\n", "        if (blocked_cores or blocked_gpus) and not rm_info.details['oversubscribe']:\n")]),
    dict(name='R01.7 DOWN equals FREE', rules=('R01.7',), edits=[
        ('constants.py', "DOWN = None", "DOWN = 0.0")]),
    dict(name='R01.8 agent node copied, not moved', rules=('R01.8',), edits=[
        (_R, "                    rm_info.agent_node_list.append(rm_info.node_list.pop())", "                    rm_info.agent_node_list.append(rm_info.node_list[-1])")]),
    dict(name='R01.9 deallocate_slot without the lock', rules=('R01.9',), edits=[
        (_N, "    def deallocate_slot(self, slot : 'Slot') -> None:\n\n        with self.__lock__:\n", "    def deallocate_slot(self, slot : 'Slot') -> None:\n\n        if True:\n")]),
    dict(name='R01.9 find_slot lfs test reversed', rules=('R01.9',), edits=[
        (_N, "            if self.lfs is not None:\n                if rr.lfs and self.lfs < rr.lfs: return None\n\n            if self.mem is not None:\n                if rr.mem and self.mem < rr.mem: return None\n\n            slot = Slot(",
             "            if self.lfs is not None:\n                if rr.lfs and self.lfs > rr.lfs: return None\n\n            if self.mem is not None:\n                if rr.mem and self.mem < rr.mem: return None\n\n            slot = Slot(")]),
    dict(name='R01.9 find_slot mem test dropped', rules=('R01.9',), edits=[
        (_N, "            if self.mem is not None:\n                if rr.mem and self.mem < rr.mem: return None\n\n            slot = Slot(", "            slot = Slot(")]),
    dict(name='R01.6 share tally overwritten instead of accumulated (seed C01-a)', rules=('R01.6',), edits=[
        (_C, "                        gpu_shares[gpu_idx] = gpus_per_slot + \\\n                                              gpu_shares.get(gpu_idx, 0.0)\n", "                        gpu_shares[gpu_idx] = gpus_per_slot\n")]),
    dict(name='R01.10 node addressed by list position (seed C01-b)', rules=('R01.10',), edits=[
        (_B, "            node = None\n            node_found = False\n            for node in self.nodes:\n                if node['index'] == slot['node_index']:\n                    node_found = True\n                    break\n\n            if not node_found:\n                raise RuntimeError('inconsistent node information')\n\n            # iterate over cores/gpus in the slot, and update state\n            for core in slot['cores']:\n                node['cores'][core['index']] = new_state",
             "            node = self.nodes[slot['node_index']]\n\n            # iterate over cores/gpus in the slot, and update state\n            for core in slot['cores']:\n                node['cores'][core['index']] = new_state")]),
    dict(name='R01.10 jsrun: node matched by name of another slot field', rules=('R01.10',), edits=[
        (_J, "                if node['index'] == slot['node_index']:", "                if node['index'] == slot['lfs']:")]),
    dict(name='R01.11 start node offered twice (seed C02-a)', rules=('R01.11',), edits=[
        (_C, "        while iterator_count < len(self.nodes):", "        while iterator_count <= len(self.nodes):")]),
    dict(name='R01.11 jsrun iterator counts in steps of zero', rules=('R01.11',), edits=[
        (_J, "            iterator_count    += 1\n", "            iterator_count    += 0\n")]),
    dict(name='R01.12 lfs/mem cap skipped when the node has exactly 0 left (seed C01-c)', rules=('R01.12',), edits=[
        (_C, "        if lfs_per_slot:\n            max_slots = min(max_slots, int(node['lfs'] // lfs_per_slot))\n",
             "        if lfs_per_slot and node['lfs']:\n            max_slots = min(max_slots, int(node['lfs'] // lfs_per_slot))\n"),
        (_C, "        if mem_per_slot:\n            max_slots = min(max_slots, int(node['mem'] // mem_per_slot))\n",
             "        if mem_per_slot and node['mem']:\n            max_slots = min(max_slots, int(node['mem'] // mem_per_slot))\n")]),
    dict(name='R01.12 jsrun: mem cap only when the node reports free mem', rules=('R01.12',), edits=[
        (_J, "        if mem_per_slot:\n            alc_slots = min(alc_slots, int(m.floor(free_mem / mem_per_slot)))\n",
             "        if mem_per_slot:\n            if free_mem > 0:\n                alc_slots = min(alc_slots, int(m.floor(free_mem / mem_per_slot)))\n")]),
    dict(name='R01.12 lfs cap not applied to partial searches', rules=('R01.12',), edits=[
        (_C, "        if lfs_per_slot:\n            max_slots = min(max_slots, int(node['lfs'] // lfs_per_slot))\n",
             "        if lfs_per_slot and not partial:\n            max_slots = min(max_slots, int(node['lfs'] // lfs_per_slot))\n")]),
    dict(name='R01.12 capped slot count raised to at least one afterwards', rules=('R01.12',), edits=[
        (_C, "        if mem_per_slot:\n            max_slots = min(max_slots, int(node['mem'] // mem_per_slot))\n",
             "        if mem_per_slot:\n            max_slots = min(max_slots, int(node['mem'] // mem_per_slot))\n        max_slots = max(max_slots, 1)\n")]),
    dict(name='R01.12 jsrun: lfs quotient rounded up', rules=('R01.12',), edits=[
        (_J, "        if lfs_per_slot:\n            alc_slots = min(alc_slots, int(m.floor(free_lfs / lfs_per_slot)))\n",
             "        if lfs_per_slot:\n            alc_slots = min(alc_slots, int(m.ceil(free_lfs / lfs_per_slot)))\n")]),
    dict(name='R01.13 Node() casts occupancy with float(o or 0) (seed C01-d)', rules=('R01.13',), edits=[
        (_N, "                from_dict['cores'] = [RO(index=i, occupation=o)\n                                                    for i,o in enumerate(cores)]\n",
             "                from_dict['cores'] = [RO(index=i, occupation=float(o or 0))\n                                                    for i,o in enumerate(cores)]\n"),
        (_N, "                from_dict['gpus'] = [RO(index=i, occupation=o)\n                                                     for i,o in enumerate(gpus)]\n",
             "                from_dict['gpus'] = [RO(index=i, occupation=float(o or 0))\n                                                     for i,o in enumerate(gpus)]\n")]),
    dict(name='R01.13 Node() defaults a missing gpu occupancy to 0.0', rules=('R01.13',), edits=[
        (_N, "                from_dict['gpus'] = [RO(index=i, occupation=o)\n                                                     for i,o in enumerate(gpus)]\n",
             "                from_dict['gpus'] = [RO(index=i, occupation=o if o is not None else 0.0)\n                                                     for i,o in enumerate(gpus)]\n")]),
    dict(name='R01.13 Node() loop form: DOWN entry replaced by FREE before wrapping', rules=('R01.13',), edits=[
        (_N, "                from_dict['cores'] = [RO(index=i, occupation=o)\n                                                    for i,o in enumerate(cores)]\n",
             "                ros = list()\n                for i,o in enumerate(cores):\n                    if o is None:\n                        o = 0.0\n                    ros.append(RO(index=i, occupation=o))\n                from_dict['cores'] = ros\n")]),
    dict(name='R01.13 Node() cleans the core list with `c or 0.0` before wrapping', rules=('R01.13',), edits=[
        (_N, "        cores = from_dict.get('cores')\n        gpus  = from_dict.get('gpus')\n\n        if cores:\n            if not isinstance(cores[0], RO):\n",
             "        cores = from_dict.get('cores')\n        gpus  = from_dict.get('gpus')\n\n        if cores:\n            if not isinstance(cores[0], RO):\n                cores = [c or 0.0 for c in cores]\n")]),
    dict(name='R01.12 limits list: lfs limit appended only when the node reports lfs', rules=('R01.12',), edits=[
        (_C, "        max_slots = n_slots\n        if lfs_per_slot:\n            max_slots = min(max_slots, int(node['lfs'] // lfs_per_slot))\n        if mem_per_slot:\n            max_slots = min(max_slots, int(node['mem'] // mem_per_slot))\n",
             "        limits = [n_slots]\n        if lfs_per_slot and node['lfs']:\n            limits.append(int(node['lfs'] // lfs_per_slot))\n        if mem_per_slot:\n            limits.append(int(node['mem'] // mem_per_slot))\n        max_slots = min(limits)\n")]),
    dict(name='R01.14 mem debited by the lfs amount (seed C01-g2)', rules=('R01.14',), edits=[
        (_B, "                    node['mem'] -= slot['mem']\n",
             "                    node['mem'] -= slot['lfs']\n")]),
    dict(name='R01.14 lfs credited by the mem amount', rules=('R01.14',), edits=[
        (_B, "                    node['lfs'] += slot['lfs']\n",
             "                    node['lfs'] += slot['mem']\n")]),
    dict(name='R01.14 mem debit and credit both take the lfs amount (symmetric, R03.1 blind)', rules=('R01.14',), edits=[
        (_B, "            if slot['mem']:\n                if new_state == rpc.BUSY:\n                    node['mem'] -= slot['mem']\n                else:\n                    node['mem'] += slot['mem']\n",
             "            if slot['mem']:\n                if new_state == rpc.BUSY:\n                    node['mem'] -= slot['lfs']\n                else:\n                    node['mem'] += slot['lfs']\n")]),
    dict(name='R01.14 jsrun: gpu states written from the core maps of the slot', rules=('R01.14',), edits=[
        (_J, "            for gpu_map in slot['gpus']:\n",
             "            for gpu_map in slot['cores']:\n")]),
    dict(name='R01.14 mem update guarded by the lfs request', rules=('R01.14',), edits=[
        (_B, "            if slot['mem']:\n                if new_state == rpc.BUSY:\n                    node['mem'] -= slot['mem']\n                else:\n                    node['mem'] += slot['mem']\n",
             "            if slot['lfs']:\n                if new_state == rpc.BUSY:\n                    node['mem'] -= slot['mem']\n                else:\n                    node['mem'] += slot['mem']\n")]),
    dict(name='R01.14 Node.deallocate_slot credits mem with the lfs of the slot', rules=('R01.14',), edits=[
        (_N, '            if self.mem is not None: self.mem += slot.mem\n',
             '            if self.mem is not None: self.mem += slot.lfs\n')]),
    dict(name='R01.14 Node.allocate_slot: local `mem` read from slot.lfs', rules=('R01.14',), edits=[
        (_N, '        mem   = slot.mem\n',
             '        mem   = slot.lfs\n')]),
    dict(name='R01.15 blocked cores only honoured when gpus are blocked, too (seed C01-g3)', rules=('R01.15',), edits=[
        (_R, '        if blocked_cores or blocked_gpus:\n',
             '        if blocked_cores and blocked_gpus:\n')]),
    dict(name='R01.15 marking guarded by the gpu list only', rules=('R01.15',), edits=[
        (_R, '        if blocked_cores or blocked_gpus:\n',
             '        if blocked_gpus:\n')]),
    dict(name='R01.15 conjunction hoisted into a local', rules=('R01.15',), edits=[
        (_R, '        if blocked_cores or blocked_gpus:\n',
             '        both = blocked_cores and blocked_gpus\n        if both:\n')]),
    dict(name='R01.15 conjunction spelled with len()', rules=('R01.15',), edits=[
        (_R, '        if blocked_cores or blocked_gpus:\n',
             '        if len(blocked_cores) > 0 and len(blocked_gpus) > 0:\n')]),
    dict(name='R01.15 core marking nested below the test of the gpu list', rules=('R01.15',), edits=[
        (_R, "                for idx in blocked_cores:\n                    assert len(node['cores']) > idx\n                    node['cores'][idx] = rpc.DOWN\n",
             "                if not blocked_gpus:\n                    continue\n                for idx in blocked_cores:\n                    assert len(node['cores']) > idx\n                    node['cores'][idx] = rpc.DOWN\n")]),
    dict(name='R01.16 roll-back releases on the last node visited (seed C01-g5)', rules=('R01.16',), edits=[
        (_N, '            for slot in slots:\n                node = self.nodes[slot.node_index]\n                node.deallocate_slot(slot)\n',
             '            for slot in slots:\n                node = self.nodes[idx]\n                node.deallocate_slot(slot)\n')]),
    dict(name='R01.16 release_slots releases on the node of the search cursor', rules=('R01.16',), edits=[
        (_N, '        for slot in slots:\n\n            node = self.nodes[slot.node_index]\n            node.deallocate_slot(slot)\n',
             '        for slot in slots:\n\n            node = self.nodes[self.__index__]\n            node.deallocate_slot(slot)\n')]),
    dict(name='R01.16 roll-back as a search loop with the match test inverted', rules=('R01.16',), edits=[
        (_N, '            for slot in slots:\n                node = self.nodes[slot.node_index]\n                node.deallocate_slot(slot)\n',
             '            for slot in slots:\n                for node in self.nodes:\n                    if node.index != slot.node_index:\n                        node.deallocate_slot(slot)\n')]),
    dict(name='R01.16 Node.find_slot stamps the slot with a constant node index', rules=('R01.16',), edits=[
        (_N, '                        node_index=self.index, node_name=self.name)\n            self.allocate_slot(slot, _check=False)\n',
             '                        node_index=0, node_name=self.name)\n            self.allocate_slot(slot, _check=False)\n')]),
    dict(name='R01.8 local reserve helper copies the node instead of moving it', rules=('R01.8',), edits=[
        (_R, '        if agent_nodes:\n\n            if not rm_info.agent_node_list:\n                for _ in range(agent_nodes):\n                    rm_info.agent_node_list.append(rm_info.node_list.pop())\n\n            assert agent_nodes == len(rm_info.agent_node_list)\n\n        if service_nodes:\n\n            if not rm_info.service_node_list:\n                for _ in range(service_nodes):\n                    rm_info.service_node_list.append(rm_info.node_list.pop())\n\n            assert service_nodes == len(rm_info.service_node_list)\n',
             '        def _reserve(reserved, n_nodes):\n\n            if not n_nodes:\n                return\n\n            if not reserved:\n                for _ in range(n_nodes):\n                    reserved.append(rm_info.node_list[-1])\n\n            assert n_nodes == len(reserved)\n\n        _reserve(rm_info.agent_node_list,   agent_nodes)\n        _reserve(rm_info.service_node_list, service_nodes)\n')]),
    dict(name='R01.17 occupation update dedented out of the core loop (seed C01-h4)', rules=('R01.17',), edits=[
        (_N, '                c_idx = self._get_core_index(ro)\n                self.cores[c_idx].occupation += ro.occupation\n',
             '                c_idx = self._get_core_index(ro)\n            self.cores[c_idx].occupation += ro.occupation\n')]),
    dict(name='R01.17 Node.allocate_slot: gpu occupation booked after the gpu loop', rules=('R01.17',), edits=[
        (_N, '                g_idx = self._get_gpu_index(ro)\n                self.gpus[g_idx].occupation += ro.occupation\n',
             '                g_idx = self._get_gpu_index(ro)\n            self.gpus[g_idx].occupation += ro.occupation\n')]),
    dict(name='R01.17 _change_slot_states: core state written after the loop over the slot cores', rules=('R01.17',), edits=[
        (_B, "            for core in slot['cores']:\n                node['cores'][core['index']] = new_state\n",
             "            for core in slot['cores']:\n                core_idx = core['index']\n            node['cores'][core_idx] = new_state\n")]),
    dict(name='R01.17 jsrun: core state written once per core map (after the inner loop)', rules=('R01.17',), edits=[
        (_J, "                for core in core_map:\n                    node['cores'][core] = new_state\n",
             "                for core in core_map:\n                    pass\n                node['cores'][core] = new_state\n")]),
    dict(name='R01.17 Node.deallocate_slot: lfs credited once per gpu of the slot', rules=('R01.17',), edits=[
        (_N, '            for ro in slot.gpus:\n                self.gpus[ro.index].occupation -= ro.occupation\n',
             '            for ro in slot.gpus:\n                self.gpus[ro.index].occupation -= ro.occupation\n                if self.lfs is not None: self.lfs += slot.lfs\n'),
        (_N, '            if self.lfs is not None: self.lfs += slot.lfs\n            if self.mem',
             '            if self.mem')]),
    dict(name='R01.17 _change_slot_states: mem booked inside the loop over the slot gpus', rules=('R01.17',), edits=[
        (_B, "            for gpu in slot['gpus']:\n                node['gpus'][gpu['index']] = new_state\n",
             "            for gpu in slot['gpus']:\n                node['gpus'][gpu['index']] = new_state\n                if slot['mem']:\n                    if new_state == rpc.BUSY:\n                        node['mem'] -= slot['mem']\n                    else:\n                        node['mem'] += slot['mem']\n"),
        (_B, "            if slot['mem']:\n                if new_state == rpc.BUSY:\n                    node['mem'] -= slot['mem']\n                else:\n                    node['mem'] += slot['mem']\n",
             '')]),
    dict(name='R01.18 cache attribute misspelled where the list is kept (seed C01-h6)', rules=('R01.18',), edits=[
        (_P, '            self._nodelist = NodeList(nodes=nodes)\n            self._nodelist.verify()\n\n        return self._nodelist\n',
             '            self._node_list = NodeList(nodes=nodes)\n            self._node_list.verify()\n\n        return self._node_list\n')]),
    dict(name='R01.18 node list rebuilt on every access (guard dropped)', rules=('R01.18',), edits=[
        (_P, '        if not self._nodelist:\n',
             '        if True:\n')]),
    dict(name='R01.18 guard tests the resource details instead of the cache', rules=('R01.18',), edits=[
        (_P, '        if not self._nodelist:\n',
             '        if self.resource_details:\n')]),
    dict(name='R01.18 fresh list returned from a local, never kept', rules=('R01.18',), edits=[
        (_P, '            self._nodelist = NodeList(nodes=nodes)\n            self._nodelist.verify()\n\n        return self._nodelist\n',
             '            nodelist = NodeList(nodes=nodes)\n            nodelist.verify()\n            return nodelist\n\n        return self._nodelist\n')]),
    dict(name='R01.18 _update drops the kept list when resource details arrive', rules=('R01.18',), edits=[
        (_P, "        if rm_info:\n            del pilot_dict['resources']['rm_info']\n",
             "        if rm_info:\n            self._nodelist = None\n            del pilot_dict['resources']['rm_info']\n")]),
    dict(name='R01.18 kept in one attribute, returned from another', rules=('R01.18',), edits=[
        (_P, '            self._nodelist = NodeList(nodes=nodes)\n            self._nodelist.verify()\n\n        return self._nodelist\n',
             '            self._nodelist = NodeList(nodes=nodes)\n            self._nodelist.verify()\n\n        return self._node_list\n'),
        (_P, '        self._nodelist   = None\n',
             '        self._nodelist   = None\n        self._node_list  = None\n')]),
    dict(name='R01.5 (C01-r10 shape) gpu pick through the local alias with the guard flipped', rules=('R01.5',), edits=[
        (_C, "        max_slots = n_slots\n        if lfs_per_slot:\n            max_slots = min(max_slots, int(node['lfs'] // lfs_per_slot))\n        if mem_per_slot:\n            max_slots = min(max_slots, int(node['mem'] // mem_per_slot))\n\n        # find at most `n_slots`\n        loop_core_idx = 0\n        loop_gpu_idx  = 0\n        gpu_shares    = dict()  # GPU shares handed to slots found so far\n        node_idx  = node['index']\n        node_name = node['name']\n\n        while len(slots) < max_slots:\n\n            self._log.debug_9('find resources on %s:%d', node_name, node_idx)\n            self._log.debug_9('node: %s', pprint.pformat(node))\n            self._log.debug_9('cps : %s', cores_per_slot)\n\n            slot  = {'node_name' : node_name,\n                     'node_index': node_idx,\n                     'cores'     : list(),\n                     'gpus'      : list(),\n                     'lfs'       : lfs_per_slot,\n                     'mem'       : mem_per_slot}\n\n            for core_idx,core in enumerate(node['cores'][loop_core_idx:],\n                                                         loop_core_idx):\n                if core == rpc.FREE:\n                    slot['cores'].append(RO(index=core_idx,\n                                            occupation=rpc.BUSY))\n\n                if len(slot['cores']) == cores_per_slot:\n                    break\n\n            loop_core_idx = core_idx + 1\n\n            if len(slot['cores']) < cores_per_slot:\n                self._log.debug_9('not enough cores on %s', node_name)\n                break\n\n            # gpus can be shared, so we need proper resource tracking.  If\n            # a slot requires one or more GPUs, GPU sharing is disabled.\n            if gpus_per_slot >= 1.0:\n\n                tmp = int(gpus_per_slot)\n                if tmp != gpus_per_slot:\n                    raise ValueError('cannot share GPUs>1')\n                gpus_per_slot = tmp\n\n                for gpu_idx,gpu in enumerate(node['gpus'][loop_gpu_idx:],\n                                                          loop_gpu_idx):\n\n                    if gpu == rpc.FREE:\n                        slot['gpus'].append(RO(index=gpu_idx,\n                                               occupation=rpc.BUSY))\n\n                    if len(slot['gpus']) == gpus_per_slot:\n                        break\n\n                loop_gpu_idx = gpu_idx + 1\n\n                if len(slot['gpus']) < gpus_per_slot:\n                    self._log.debug_9('not enough gpus on %s (1)', node_name)\n                    break\n\n            elif gpus_per_slot > 0.0:\n\n                # find a GPU which has sufficient space left\n                for gpu_idx,gpu_occ in enumerate(node['gpus'][loop_gpu_idx:],\n                                                              loop_gpu_idx):\n\n                    # account for shares of this GPU which were handed to\n                    # previously found slots of this request\n                    gpu_used = gpu_occ + gpu_shares.get(gpu_idx, 0.0)\n                    if gpus_per_slot <= rpc.BUSY - gpu_used:\n                        slot['gpus'].append(RO(index=gpu_idx,\n                                               occupation=gpus_per_slot))\n                        gpu_shares[gpu_idx] = gpus_per_slot + \\\n                                              gpu_shares.get(gpu_idx, 0.0)\n                        break\n                    else:\n                        loop_gpu_idx = gpu_idx + 1\n\n                if len(slot['gpus']) < 1:\n",
             "        limits = [n_slots]\n        if lfs_per_slot:\n            limits.append(int(node['lfs'] // lfs_per_slot))\n        if mem_per_slot:\n            limits.append(int(node['mem'] // mem_per_slot))\n        max_slots = min(limits)\n\n        # find at most `n_slots`\n        loop_core_idx = 0\n        loop_gpu_idx  = 0\n        gpu_shares    = dict()  # GPU shares handed to slots found so far\n        node_idx  = node['index']\n        node_name = node['name']\n\n        def _new_slot():\n            # an empty slot on this node, to be filled with cores and gpus\n            return {'node_name' : node_name,\n                    'node_index': node_idx,\n                    'cores'     : list(),\n                    'gpus'      : list(),\n                    'lfs'       : lfs_per_slot,\n                    'mem'       : mem_per_slot}\n\n        while len(slots) < max_slots:\n\n            self._log.debug_9('find resources on %s:%d', node_name, node_idx)\n            self._log.debug_9('node: %s', pprint.pformat(node))\n            self._log.debug_9('cps : %s', cores_per_slot)\n\n            slot      = _new_slot()\n            slot_gpus = slot['gpus']\n\n            for core_idx,core in enumerate(node['cores'][loop_core_idx:],\n                                                         loop_core_idx):\n                if core == rpc.FREE:\n                    slot['cores'].append(RO(index=core_idx,\n                                            occupation=rpc.BUSY))\n\n                if len(slot['cores']) == cores_per_slot:\n                    break\n\n            loop_core_idx = core_idx + 1\n\n            if len(slot['cores']) < cores_per_slot:\n                self._log.debug_9('not enough cores on %s', node_name)\n                break\n\n            # gpus can be shared, so we need proper resource tracking.  If\n            # a slot requires one or more GPUs, GPU sharing is disabled.\n            if gpus_per_slot >= 1.0:\n\n                tmp = int(gpus_per_slot)\n                if tmp != gpus_per_slot:\n                    raise ValueError('cannot share GPUs>1')\n                gpus_per_slot = tmp\n\n                for gpu_idx,gpu in enumerate(node['gpus'][loop_gpu_idx:],\n                                                          loop_gpu_idx):\n\n                    if gpu != rpc.FREE:\n                        slot_gpus.append(RO(index=gpu_idx,\n                                            occupation=rpc.BUSY))\n\n                    if len(slot_gpus) == gpus_per_slot:\n                        break\n\n                loop_gpu_idx = gpu_idx + 1\n\n                if len(slot_gpus) < gpus_per_slot:\n                    self._log.debug_9('not enough gpus on %s (1)', node_name)\n                    break\n\n            elif gpus_per_slot > 0.0:\n\n                # find a GPU which has sufficient space left\n                for gpu_idx,gpu_occ in enumerate(node['gpus'][loop_gpu_idx:],\n                                                              loop_gpu_idx):\n\n                    # account for shares of this GPU which were handed to\n                    # previously found slots of this request\n                    gpu_shared = gpu_shares.get(gpu_idx, 0.0)\n                    gpu_used   = gpu_occ + gpu_shared\n                    if gpus_per_slot <= rpc.BUSY - gpu_used:\n                        slot_gpus.append(RO(index=gpu_idx,\n                                            occupation=gpus_per_slot))\n                        gpu_shares[gpu_idx] = gpus_per_slot + gpu_shared\n                        break\n\n                    # this GPU is exhausted, also for the slots to come\n                    loop_gpu_idx = gpu_idx + 1\n\n                else:\n                    # search ended without `break`: no GPU had space left\n")]),
    dict(name='R01.1 (C01-r10 shape) local alias of the node gpu list is appended to', rules=('R01.1',), edits=[
        (_C, "        max_slots = n_slots\n        if lfs_per_slot:\n            max_slots = min(max_slots, int(node['lfs'] // lfs_per_slot))\n        if mem_per_slot:\n            max_slots = min(max_slots, int(node['mem'] // mem_per_slot))\n\n        # find at most `n_slots`\n        loop_core_idx = 0\n        loop_gpu_idx  = 0\n        gpu_shares    = dict()  # GPU shares handed to slots found so far\n        node_idx  = node['index']\n        node_name = node['name']\n\n        while len(slots) < max_slots:\n\n            self._log.debug_9('find resources on %s:%d', node_name, node_idx)\n            self._log.debug_9('node: %s', pprint.pformat(node))\n            self._log.debug_9('cps : %s', cores_per_slot)\n\n            slot  = {'node_name' : node_name,\n                     'node_index': node_idx,\n                     'cores'     : list(),\n                     'gpus'      : list(),\n                     'lfs'       : lfs_per_slot,\n                     'mem'       : mem_per_slot}\n\n            for core_idx,core in enumerate(node['cores'][loop_core_idx:],\n                                                         loop_core_idx):\n                if core == rpc.FREE:\n                    slot['cores'].append(RO(index=core_idx,\n                                            occupation=rpc.BUSY))\n\n                if len(slot['cores']) == cores_per_slot:\n                    break\n\n            loop_core_idx = core_idx + 1\n\n            if len(slot['cores']) < cores_per_slot:\n                self._log.debug_9('not enough cores on %s', node_name)\n                break\n\n            # gpus can be shared, so we need proper resource tracking.  If\n            # a slot requires one or more GPUs, GPU sharing is disabled.\n            if gpus_per_slot >= 1.0:\n\n                tmp = int(gpus_per_slot)\n                if tmp != gpus_per_slot:\n                    raise ValueError('cannot share GPUs>1')\n                gpus_per_slot = tmp\n\n                for gpu_idx,gpu in enumerate(node['gpus'][loop_gpu_idx:],\n                                                          loop_gpu_idx):\n\n                    if gpu == rpc.FREE:\n                        slot['gpus'].append(RO(index=gpu_idx,\n                                               occupation=rpc.BUSY))\n\n                    if len(slot['gpus']) == gpus_per_slot:\n                        break\n\n                loop_gpu_idx = gpu_idx + 1\n\n                if len(slot['gpus']) < gpus_per_slot:\n                    self._log.debug_9('not enough gpus on %s (1)', node_name)\n                    break\n\n            elif gpus_per_slot > 0.0:\n\n                # find a GPU which has sufficient space left\n                for gpu_idx,gpu_occ in enumerate(node['gpus'][loop_gpu_idx:],\n                                                              loop_gpu_idx):\n\n                    # account for shares of this GPU which were handed to\n                    # previously found slots of this request\n                    gpu_used = gpu_occ + gpu_shares.get(gpu_idx, 0.0)\n                    if gpus_per_slot <= rpc.BUSY - gpu_used:\n                        slot['gpus'].append(RO(index=gpu_idx,\n                                               occupation=gpus_per_slot))\n                        gpu_shares[gpu_idx] = gpus_per_slot + \\\n                                              gpu_shares.get(gpu_idx, 0.0)\n                        break\n                    else:\n                        loop_gpu_idx = gpu_idx + 1\n\n                if len(slot['gpus']) < 1:\n",
             "        limits = [n_slots]\n        if lfs_per_slot:\n            limits.append(int(node['lfs'] // lfs_per_slot))\n        if mem_per_slot:\n            limits.append(int(node['mem'] // mem_per_slot))\n        max_slots = min(limits)\n\n        # find at most `n_slots`\n        loop_core_idx = 0\n        loop_gpu_idx  = 0\n        gpu_shares    = dict()  # GPU shares handed to slots found so far\n        node_idx  = node['index']\n        node_name = node['name']\n\n        def _new_slot():\n            # an empty slot on this node, to be filled with cores and gpus\n            return {'node_name' : node_name,\n                    'node_index': node_idx,\n                    'cores'     : list(),\n                    'gpus'      : list(),\n                    'lfs'       : lfs_per_slot,\n                    'mem'       : mem_per_slot}\n\n        while len(slots) < max_slots:\n\n            self._log.debug_9('find resources on %s:%d', node_name, node_idx)\n            self._log.debug_9('node: %s', pprint.pformat(node))\n            self._log.debug_9('cps : %s', cores_per_slot)\n\n            slot      = _new_slot()\n            slot_gpus = node['gpus']\n\n            for core_idx,core in enumerate(node['cores'][loop_core_idx:],\n                                                         loop_core_idx):\n                if core == rpc.FREE:\n                    slot['cores'].append(RO(index=core_idx,\n                                            occupation=rpc.BUSY))\n\n                if len(slot['cores']) == cores_per_slot:\n                    break\n\n            loop_core_idx = core_idx + 1\n\n            if len(slot['cores']) < cores_per_slot:\n                self._log.debug_9('not enough cores on %s', node_name)\n                break\n\n            # gpus can be shared, so we need proper resource tracking.  If\n            # a slot requires one or more GPUs, GPU sharing is disabled.\n            if gpus_per_slot >= 1.0:\n\n                tmp = int(gpus_per_slot)\n                if tmp != gpus_per_slot:\n                    raise ValueError('cannot share GPUs>1')\n                gpus_per_slot = tmp\n\n                for gpu_idx,gpu in enumerate(node['gpus'][loop_gpu_idx:],\n                                                          loop_gpu_idx):\n\n                    if gpu == rpc.FREE:\n                        slot_gpus.append(RO(index=gpu_idx,\n                                            occupation=rpc.BUSY))\n\n                    if len(slot_gpus) == gpus_per_slot:\n                        break\n\n                loop_gpu_idx = gpu_idx + 1\n\n                if len(slot_gpus) < gpus_per_slot:\n                    self._log.debug_9('not enough gpus on %s (1)', node_name)\n                    break\n\n            elif gpus_per_slot > 0.0:\n\n                # find a GPU which has sufficient space left\n                for gpu_idx,gpu_occ in enumerate(node['gpus'][loop_gpu_idx:],\n                                                              loop_gpu_idx):\n\n                    # account for shares of this GPU which were handed to\n                    # previously found slots of this request\n                    gpu_shared = gpu_shares.get(gpu_idx, 0.0)\n                    gpu_used   = gpu_occ + gpu_shared\n                    if gpus_per_slot <= rpc.BUSY - gpu_used:\n                        slot_gpus.append(RO(index=gpu_idx,\n                                            occupation=gpus_per_slot))\n                        gpu_shares[gpu_idx] = gpus_per_slot + gpu_shared\n                        break\n\n                    # this GPU is exhausted, also for the slots to come\n                    loop_gpu_idx = gpu_idx + 1\n\n                else:\n                    # search ended without `break`: no GPU had space left\n")]),
    dict(name='R01.10 (C03-r10 shape) hoisted lookup key taken from another slot field', rules=('R01.10',), edits=[
        (_B, "        # for node_name, node_index, cores, gpus in slots['ranks']:\n        for slot in slots:\n\n            # Find the entry in the slots list\n\n            # TODO: [Optimization] Assuming 'node_index' is the ID of the node,\n            #       it seems a bit wasteful to have to look at all of the nodes\n            #       available for use if at most one node can have that uid.\n            #       Maybe it would be worthwhile to simply keep a list of nodes\n            #       that we would read, and keep a dictionary that maps the uid\n            #       of the node to the location on the list?\n\n            node = None\n            node_found = False\n            for node in self.nodes:\n                if node['index'] == slot['node_index']:\n                    node_found = True\n                    break\n\n            if not node_found:\n                raise RuntimeError('inconsistent node information')\n\n            # iterate over cores/gpus in the slot, and update state\n            for core in slot['cores']:\n                node['cores'][core['index']] = new_state\n\n            for gpu in slot['gpus']:\n                node['gpus'][gpu['index']] = new_state\n\n            if slot['lfs']:\n                if new_state == rpc.BUSY:\n                    node['lfs'] -= slot['lfs']\n                else:\n                    node['lfs'] += slot['lfs']\n\n            if slot['mem']:\n                if new_state == rpc.BUSY:\n                    node['mem'] -= slot['mem']\n                else:\n                    node['mem'] += slot['mem']\n",
             "        # `lfs` and `mem` are amounts: they are taken from the node when the\n        # slot becomes BUSY, and are given back to the node otherwise\n        sign = -1 if new_state == rpc.BUSY else 1\n\n        # for node_name, node_index, cores, gpus in slots['ranks']:\n        for slot in slots:\n\n            # Find the entry in the slots list\n\n            # TODO: [Optimization] Assuming 'node_index' is the ID of the node,\n            #       it seems a bit wasteful to have to look at all of the nodes\n            #       available for use if at most one node can have that uid.\n            #       Maybe it would be worthwhile to simply keep a list of nodes\n            #       that we would read, and keep a dictionary that maps the uid\n            #       of the node to the location on the list?\n\n            node_index = slot['lfs']\n            for node in self.nodes:\n                if node['index'] == node_index:\n                    break\n            else:\n                raise RuntimeError('inconsistent node information')\n\n            # iterate over cores/gpus in the slot, and update state\n            for kind in ('cores', 'gpus'):\n                for ro in slot[kind]:\n                    node[kind][ro['index']] = new_state\n\n            for kind in ('lfs', 'mem'):\n                amount = slot[kind]\n                if amount:\n                    node[kind] += sign * amount\n")]),
    dict(name='R01.17 (C03-r10 shape) key loop: state written after the loop over the slot entries', rules=('R01.17',), edits=[
        (_B, "        # for node_name, node_index, cores, gpus in slots['ranks']:\n        for slot in slots:\n\n            # Find the entry in the slots list\n\n            # TODO: [Optimization] Assuming 'node_index' is the ID of the node,\n            #       it seems a bit wasteful to have to look at all of the nodes\n            #       available for use if at most one node can have that uid.\n            #       Maybe it would be worthwhile to simply keep a list of nodes\n            #       that we would read, and keep a dictionary that maps the uid\n            #       of the node to the location on the list?\n\n            node = None\n            node_found = False\n            for node in self.nodes:\n                if node['index'] == slot['node_index']:\n                    node_found = True\n                    break\n\n            if not node_found:\n                raise RuntimeError('inconsistent node information')\n\n            # iterate over cores/gpus in the slot, and update state\n            for core in slot['cores']:\n                node['cores'][core['index']] = new_state\n\n            for gpu in slot['gpus']:\n                node['gpus'][gpu['index']] = new_state\n\n            if slot['lfs']:\n                if new_state == rpc.BUSY:\n                    node['lfs'] -= slot['lfs']\n                else:\n                    node['lfs'] += slot['lfs']\n\n            if slot['mem']:\n                if new_state == rpc.BUSY:\n                    node['mem'] -= slot['mem']\n                else:\n                    node['mem'] += slot['mem']\n",
             "        # `lfs` and `mem` are amounts: they are taken from the node when the\n        # slot becomes BUSY, and are given back to the node otherwise\n        sign = -1 if new_state == rpc.BUSY else 1\n\n        # for node_name, node_index, cores, gpus in slots['ranks']:\n        for slot in slots:\n\n            # Find the entry in the slots list\n\n            # TODO: [Optimization] Assuming 'node_index' is the ID of the node,\n            #       it seems a bit wasteful to have to look at all of the nodes\n            #       available for use if at most one node can have that uid.\n            #       Maybe it would be worthwhile to simply keep a list of nodes\n            #       that we would read, and keep a dictionary that maps the uid\n            #       of the node to the location on the list?\n\n            node_index = slot['node_index']\n            for node in self.nodes:\n                if node['index'] == node_index:\n                    break\n            else:\n                raise RuntimeError('inconsistent node information')\n\n            # iterate over cores/gpus in the slot, and update state\n            for kind in ('cores', 'gpus'):\n                for ro in slot[kind]:\n                    ro_idx = ro['index']\n                node[kind][ro_idx] = new_state\n\n            for kind in ('lfs', 'mem'):\n                amount = slot[kind]\n                if amount:\n                    node[kind] += sign * amount\n")]),
    dict(name='R01.19 (C01-i5) fast path of the core look-up returns the index as position without comparing the entry', rules=('R01.19',), edits=[
        (_N, '    def _get_core_index(self, ro):\n\n        for i, _ro in enumerate(self.cores):\n            if _ro.index == ro.index:\n                return i\n',
             '    def _get_core_index(self, ro):\n\n        # cores are stored in index order: no need to search the list\n        if ro.index < len(self.cores):\n            return ro.index\n\n        for i, _ro in enumerate(self.cores):\n            if _ro.index == ro.index:\n                return i\n')]),
    dict(name='R01.19 the same fast path in the gpu look-up, through a local', rules=('R01.19',), edits=[
        (_N, '    def _get_gpu_index(self, ro):\n\n        for i, _ro in enumerate(self.gpus):\n            if _ro.index == ro.index:\n                return i\n',
             '    def _get_gpu_index(self, ro):\n\n        pos = ro.index\n        if len(self.gpus) > pos:\n            return pos\n\n        for i, _ro in enumerate(self.gpus):\n            if _ro.index == ro.index:\n                return i\n')]),
    dict(name='R01.19 allocate_slot addresses the core list by the index the slot names', rules=('R01.19',), edits=[
        (_N, '                c_idx = self._get_core_index(ro)\n                self.cores[c_idx].occupation += ro.occupation\n',
             '                c_idx = ro.index\n                self.cores[c_idx].occupation += ro.occupation\n')]),
    dict(name='R01.19 fast path as a conditional expression in allocate_slot', rules=('R01.19',), edits=[
        (_N, '                g_idx = self._get_gpu_index(ro)\n                self.gpus[g_idx].occupation += ro.occupation\n',
             '                g_idx = ro.index if ro.index < len(self.gpus) \\\n                        else self._get_gpu_index(ro)\n                self.gpus[g_idx].occupation += ro.occupation\n')]),
    dict(name='R01.19 core position looked up in the gpu list', rules=('R01.19',), edits=[
        (_N, '                c_idx = self._get_core_index(ro)\n                self.cores[c_idx].occupation += ro.occupation\n',
             '                c_idx = self._get_gpu_index(ro)\n                self.cores[c_idx].occupation += ro.occupation\n')]),
    dict(name='R01.19 look-up by generator expression without the comparison', rules=('R01.19',), edits=[
        (_N, '    def _get_core_index(self, ro):\n\n        for i, _ro in enumerate(self.cores):\n            if _ro.index == ro.index:\n                return i\n',
             '    def _get_core_index(self, ro):\n\n        if ro.index < len(self.cores):\n            return next(i for i, _ro in enumerate(self.cores) if i == ro.index)\n\n        for i, _ro in enumerate(self.cores):\n            if _ro.index == ro.index:\n                return i\n')]),
]

SILENT = [
    dict(name='pick guard in early-continue form', edits=[
        (_C, "                if core == rpc.FREE:\n                    slot['cores'].append(RO(index=core_idx,\n                                            occupation=rpc.BUSY))\n",
             "                if core != rpc.FREE:\n                    continue\n                slot['cores'].append(RO(index=core_idx,\n                                        occupation=rpc.BUSY))\n")]),
    dict(name='cursor renamed', edits=[
        (_C, "        loop_core_idx = 0\n", "        cur = 0\n"),
        (_C, "            for core_idx,core in enumerate(node['cores'][loop_core_idx:],\n                                                         loop_core_idx):",
             "            for core_idx,core in enumerate(node['cores'][cur:], cur):"),
        (_C, "            loop_core_idx = core_idx + 1\n", "            cur = core_idx + 1\n")]),
    dict(name='attach before mark in _try_allocation', edits=[
        (_B, "            self._change_slot_states(slots, rpc.BUSY)\n            task['slots']     = slots\n",
             "            task['slots']     = slots\n            self._change_slot_states(slots, rpc.BUSY)\n")]),
    dict(name='share test written from the other side', edits=[
        (_C, "                    if gpus_per_slot <= rpc.BUSY - gpu_used:", "                    if rpc.BUSY - gpu_used >= gpus_per_slot:")]),
    dict(name='free test with constant on the left', edits=[
        (_J, "                if node['cores'][core_idx] == rpc.FREE:", "                if rpc.FREE == node['cores'][core_idx]:")]),
    dict(name='node alias in _change_slot_states', edits=[
        (_B, "            for core in slot['cores']:\n                node['cores'][core['index']] = new_state\n",
             "            cores = node['cores']\n            for core in slot['cores']:\n                cores[core['index']] = new_state\n")]),
    dict(name='success signalled by returning the slots', edits=[
        (_B, "            self._prof.prof('schedule_ok', uid=uid)\n\n        except Exception as e:", "            self._prof.prof('schedule_ok', uid=uid)\n            return bool(slots)\n\n        except Exception as e:")]),
    dict(name='find_slot lfs test as >=', edits=[
        (_N, "                if rr.lfs and self.lfs < rr.lfs: return None\n\n            if self.mem is not None:\n                if rr.mem and self.mem < rr.mem: return None\n\n            slot = Slot(", "                if rr.lfs and not self.lfs >= rr.lfs: return None\n\n            if self.mem is not None:\n                if rr.mem and self.mem < rr.mem: return None\n\n            slot = Slot(")]),
    dict(name='blocked marking split in two ifs', edits=[
        (_R, "                for idx in blocked_gpus:\n                    assert len(node['gpus']) > idx\n                    node['gpus'][idx] = rpc.DOWN\n",
             "                if blocked_gpus:\n                    for idx in blocked_gpus:\n                        node['gpus'][idx] = rpc.DOWN\n")]),
    dict(name='placement result tested into a local first', edits=[
        (_B, "                    if self._try_allocation(task):\n                        # task got scheduled", "                    placed = self._try_allocation(task)\n                    if placed:\n                        # task got scheduled")]),
    dict(name='node iterator as for-range over len(self.nodes)', edits=[
        (_C, "        iterator_count = 0\n\n        while iterator_count < len(self.nodes):\n            yield self.nodes[self._node_offset]\n            iterator_count    += 1\n", "        n_nodes = len(self.nodes)\n        for _ in range(n_nodes):\n            yield self.nodes[self._node_offset]\n")]),
    dict(name='tally accumulated with +=', edits=[
        (_C, "                        gpu_shares[gpu_idx] = gpus_per_slot + \\\n                                              gpu_shares.get(gpu_idx, 0.0)\n", "                        gpu_shares.setdefault(gpu_idx, 0.0)\n                        gpu_shares[gpu_idx] += gpus_per_slot\n")]),
    dict(name='lfs cap with hoisted quotient and aliased free amount', edits=[
        (_C, "        if lfs_per_slot:\n            max_slots = min(max_slots, int(node['lfs'] // lfs_per_slot))\n",
             "        free_lfs = node['lfs']\n        if lfs_per_slot:\n            by_lfs    = int(free_lfs // lfs_per_slot)\n            max_slots = min(max_slots, by_lfs)\n")]),
    dict(name='lfs cap guarded by `> 0`, min over a list', edits=[
        (_C, "        if lfs_per_slot:\n            max_slots = min(max_slots, int(node['lfs'] // lfs_per_slot))\n",
             "        if lfs_per_slot > 0:\n            max_slots = min([max_slots, int(node['lfs'] // lfs_per_slot)])\n")]),
    dict(name='mem cap in the else branch of a negated request test', edits=[
        (_C, "        if mem_per_slot:\n            max_slots = min(max_slots, int(node['mem'] // mem_per_slot))\n",
             "        if not mem_per_slot:\n            pass\n        else:\n            max_slots = min(max_slots, int(node['mem'] // mem_per_slot))\n")]),
    dict(name='lfs cap as a conditional expression', edits=[
        (_C, "        if lfs_per_slot:\n            max_slots = min(max_slots, int(node['lfs'] // lfs_per_slot))\n",
             "        max_slots = min(max_slots, int(node['lfs'] // lfs_per_slot)) \\\n                    if lfs_per_slot else max_slots\n")]),
    dict(name='slot-collecting loop as while True with a break on the cap', edits=[
        (_C, "        while len(slots) < max_slots:\n", "        while True:\n\n            if len(slots) >= max_slots:\n                break\n")]),
    dict(name='lfs/mem caps extracted into a helper method', edits=[
        (_C, "        max_slots = n_slots\n        if lfs_per_slot:\n            max_slots = min(max_slots, int(node['lfs'] // lfs_per_slot))\n        if mem_per_slot:\n            max_slots = min(max_slots, int(node['mem'] // mem_per_slot))\n",
             "        max_slots = self._max_slots(node, n_slots, lfs_per_slot, mem_per_slot)\n"),
        (_C, "    # --------------------------------------------------------------------------\n    #\n    def _find_resources(self, node, n_slots, cores_per_slot,\n",
             "    def _max_slots(self, node, wanted, lfs, mem):\n        res = wanted\n        if lfs:\n            res = min(res, int(node['lfs'] // lfs))\n        if mem:\n            res = min(res, int(node['mem'] // mem))\n        return res\n\n    # --------------------------------------------------------------------------\n    #\n    def _find_resources(self, node, n_slots, cores_per_slot,\n")]),
    dict(name='jsrun: mem cap before lfs cap', edits=[
        (_J, "        if lfs_per_slot:\n            alc_slots = min(alc_slots, int(m.floor(free_lfs / lfs_per_slot)))\n\n        if mem_per_slot:\n            alc_slots = min(alc_slots, int(m.floor(free_mem / mem_per_slot)))\n", "        if mem_per_slot:\n            alc_slots = min(alc_slots, int(m.floor(free_mem / mem_per_slot)))\n\n        if lfs_per_slot:\n            alc_slots = min(alc_slots, int(m.floor(free_lfs / lfs_per_slot)))\n")]),
    dict(name='Node() wraps the core list in an explicit loop, renamed locals', edits=[
        (_N, "                from_dict['cores'] = [RO(index=i, occupation=o)\n                                                    for i,o in enumerate(cores)]\n",
             "                wrapped = list()\n                for pos, occ in enumerate(cores):\n                    wrapped.append(RO(index=pos, occupation=occ))\n                from_dict['cores'] = wrapped\n")]),
    dict(name='Node() casts occupancy to float but keeps DOWN', edits=[
        (_N, "                from_dict['cores'] = [RO(index=i, occupation=o)\n                                                    for i,o in enumerate(cores)]\n",
             "                from_dict['cores'] = [RO(index=i, occupation=None if o is None else float(o))\n                                                    for i,o in enumerate(cores)]\n"),
        (_N, "                from_dict['gpus'] = [RO(index=i, occupation=o)\n                                                     for i,o in enumerate(gpus)]\n",
             "                from_dict['gpus'] = [RO(index=i, occupation=o if o is DOWN else float(o))\n                                                     for i,o in enumerate(gpus)]\n")]),
    dict(name='Node() wraps both lists through a helper', edits=[
        (_N, "                from_dict['cores'] = [RO(index=i, occupation=o)\n                                                    for i,o in enumerate(cores)]\n", "                from_dict['cores'] = self._wrap(cores)\n"),
        (_N, "                from_dict['gpus'] = [RO(index=i, occupation=o)\n                                                     for i,o in enumerate(gpus)]\n", "                from_dict['gpus'] = self._wrap(gpus)\n"),
        (_N, "    # --------------------------------------------------------------------------\n    #\n    def _get_core_index(self, ro):\n",
             "    @staticmethod\n    def _wrap(values):\n        return [RO(index=idx, occupation=val) for idx, val in enumerate(values)]\n\n    # --------------------------------------------------------------------------\n    #\n    def _get_core_index(self, ro):\n")]),
    dict(name='Node() indexes the gpu list instead of enumerating it', edits=[
        (_N, "                from_dict['gpus'] = [RO(index=i, occupation=o)\n                                                     for i,o in enumerate(gpus)]\n",
             "                from_dict['gpus'] = [RO(index=i, occupation=gpus[i])\n                                                     for i in range(len(gpus))]\n")]),
    dict(name='lfs/mem limits collected in a list, min() taken once', edits=[
        (_C, "        max_slots = n_slots\n        if lfs_per_slot:\n            max_slots = min(max_slots, int(node['lfs'] // lfs_per_slot))\n        if mem_per_slot:\n            max_slots = min(max_slots, int(node['mem'] // mem_per_slot))\n",
             "        limits = [n_slots]\n        if lfs_per_slot:\n            limits.append(int(node['lfs'] // lfs_per_slot))\n        if mem_per_slot:\n            limits.append(int(node['mem'] // mem_per_slot))\n        max_slots = min(limits)\n")]),
    dict(name='jsrun: node lookup in early-continue form', edits=[
        (_J, "                if node['index'] == slot['node_index']:\n                    node_found = True\n                    break\n",
             "                if node['index'] != slot['node_index']:\n                    continue\n                node_found = True\n                break\n")]),
    dict(name='mem amount hoisted into a local', edits=[
        (_B, "            if slot['mem']:\n                if new_state == rpc.BUSY:\n                    node['mem'] -= slot['mem']\n                else:\n                    node['mem'] += slot['mem']\n",
             "            amount = slot['mem']\n            if amount:\n                if new_state == rpc.BUSY:\n                    node['mem'] -= amount\n                else:\n                    node['mem'] += amount\n")]),
    dict(name='early continue when the slot holds neither lfs nor mem', edits=[
        (_B, "            if slot['lfs']:\n                if new_state == rpc.BUSY:\n                    node['lfs'] -= slot['lfs']\n                else:\n                    node['lfs'] += slot['lfs']\n",
             "            if not slot['lfs'] and not slot['mem']:\n                continue\n\n            if slot['lfs']:\n                if new_state == rpc.BUSY:\n                    node['lfs'] -= slot['lfs']\n                else:\n                    node['lfs'] += slot['lfs']\n")]),
    dict(name='lfs/mem booked in a loop over the two kinds', edits=[
        (_B, "            if slot['lfs']:\n                if new_state == rpc.BUSY:\n                    node['lfs'] -= slot['lfs']\n                else:\n                    node['lfs'] += slot['lfs']\n\n            if slot['mem']:\n                if new_state == rpc.BUSY:\n                    node['mem'] -= slot['mem']\n                else:\n                    node['mem'] += slot['mem']\n",
             "            for kind in ('lfs', 'mem'):\n                held = slot[kind]\n                if not held:\n                    continue\n                if new_state == rpc.BUSY:\n                    node[kind] -= held\n                else:\n                    node[kind] += held\n")]),
    dict(name='mem booking extracted into a helper method', edits=[
        (_B, "            if slot['mem']:\n                if new_state == rpc.BUSY:\n                    node['mem'] -= slot['mem']\n                else:\n                    node['mem'] += slot['mem']\n",
             '            self._book_mem(node, slot, new_state)\n'),
        (_B, '    # --------------------------------------------------------------------------\n    #\n    # Change the reserved state of slots (rpc.FREE or rpc.BUSY)\n',
             "    def _book_mem(self, where, what, state):\n        if not what['mem']:\n            return\n        if state == rpc.BUSY:\n            where['mem'] -= what['mem']\n        else:\n            where['mem'] += what['mem']\n\n    # --------------------------------------------------------------------------\n    #\n    # Change the reserved state of slots (rpc.FREE or rpc.BUSY)\n")]),
    dict(name='jsrun: core maps flattened by a comprehension', edits=[
        (_J, "            for core_map in slot['cores']:\n                for core in core_map:\n                    node['cores'][core] = new_state\n",
             "            for cidx in [c for cmap in slot['cores'] for c in cmap]:\n                node['cores'][cidx] = new_state\n")]),
    dict(name='Node.deallocate_slot with the amounts in locals', edits=[
        (_N, '            if self.lfs is not None: self.lfs += slot.lfs\n            if self.mem is not None: self.mem += slot.mem\n',
             '            storage, memory = slot.lfs, slot.mem\n            if self.mem is not None: self.mem += memory\n            if self.lfs is not None: self.lfs += storage\n')]),
    dict(name='blocked test spelled with len()', edits=[
        (_R, '        if blocked_cores or blocked_gpus:\n',
             '        if len(blocked_cores) > 0 or len(blocked_gpus) > 0:\n')]),
    dict(name='blocked test hoisted into a local', edits=[
        (_R, '        if blocked_cores or blocked_gpus:\n',
             '        any_blocked = bool(blocked_cores or blocked_gpus)\n        if any_blocked:\n')]),
    dict(name='blocked test negated, marking in the else branch', edits=[
        (_R, '        if blocked_cores or blocked_gpus:\n',
             '        if not blocked_cores and not blocked_gpus:\n            pass\n        else:\n')]),
    dict(name='blocked marking without the outer test (empty lists mark nothing)', edits=[
        (_R, '        if blocked_cores or blocked_gpus:\n',
             '        if True:\n')]),
    dict(name='roll-back addresses the node inline', edits=[
        (_N, '            for slot in slots:\n                node = self.nodes[slot.node_index]\n                node.deallocate_slot(slot)\n',
             '            for slot in slots:\n                self.nodes[slot.node_index].deallocate_slot(slot)\n')]),
    dict(name='roll-back with renamed locals and hoisted index', edits=[
        (_N, '            for slot in slots:\n                node = self.nodes[slot.node_index]\n                node.deallocate_slot(slot)\n',
             '            for found in slots:\n                owner_idx = found.node_index\n                owner = self.nodes[owner_idx]\n                owner.deallocate_slot(found)\n')]),
    dict(name='release_slots finds the node by comparing indexes (early continue)', edits=[
        (_N, '        for slot in slots:\n\n            node = self.nodes[slot.node_index]\n            node.deallocate_slot(slot)\n',
             '        for slot in slots:\n\n            for node in self.nodes:\n                if node.index != slot.node_index:\n                    continue\n                node.deallocate_slot(slot)\n                break\n')]),
    dict(name='Node.find_slot stamps the slot through a local', edits=[
        (_N, '            slot = Slot(cores=cores, gpus=gpus, lfs=rr.lfs, mem=rr.mem,\n                        node_index=self.index, node_name=self.name)\n',
             '            my_index = self.index\n            slot = Slot(cores=cores, gpus=gpus, lfs=rr.lfs, mem=rr.mem,\n                        node_name=self.name, node_index=my_index)\n')]),
    dict(name='agent/service reservation through one local helper (seed C18-r7)', edits=[
        (_R, '        if agent_nodes:\n\n            if not rm_info.agent_node_list:\n                for _ in range(agent_nodes):\n                    rm_info.agent_node_list.append(rm_info.node_list.pop())\n\n            assert agent_nodes == len(rm_info.agent_node_list)\n\n        if service_nodes:\n\n            if not rm_info.service_node_list:\n                for _ in range(service_nodes):\n                    rm_info.service_node_list.append(rm_info.node_list.pop())\n\n            assert service_nodes == len(rm_info.service_node_list)\n',
             '        def _reserve(reserved, n_nodes):\n\n            if not n_nodes:\n                return\n\n            if not reserved:\n                for _ in range(n_nodes):\n                    reserved.append(rm_info.node_list.pop())\n\n            assert n_nodes == len(reserved)\n\n        _reserve(rm_info.agent_node_list,   agent_nodes)\n        _reserve(rm_info.service_node_list, service_nodes)\n')]),
    dict(name='Node.allocate_slot: core index computed inline', edits=[
        (_N, '                c_idx = self._get_core_index(ro)\n                self.cores[c_idx].occupation += ro.occupation\n',
             '                self.cores[self._get_core_index(ro)].occupation += ro.occupation\n')]),
    dict(name='Node.allocate_slot: gpu bookings collected first, applied in a second loop', edits=[
        (_N, '            for ro in gpus:\n                g_idx = self._get_gpu_index(ro)\n                self.gpus[g_idx].occupation += ro.occupation\n',
             '            todo = [(self._get_gpu_index(ro), ro.occupation) for ro in gpus]\n            for g_idx, occ in todo:\n                self.gpus[g_idx].occupation += occ\n')]),
    dict(name='Node.deallocate_slot: cores released by position, renamed locals', edits=[
        (_N, '            for ro in slot.cores:\n                self.cores[ro.index].occupation -= ro.occupation\n',
             '            held = slot.cores\n            for pos in range(len(held)):\n                item = held[pos]\n                self.cores[item.index].occupation -= item.occupation\n')]),
    dict(name='_change_slot_states: gpu index hoisted into a local inside the loop', edits=[
        (_B, "            for gpu in slot['gpus']:\n                node['gpus'][gpu['index']] = new_state\n",
             "            for gpu in slot['gpus']:\n                gpu_idx = gpu['index']\n                node['gpus'][gpu_idx] = new_state\n")]),
    dict(name='_change_slot_states: lfs/mem booked inside the node lookup loop (match branch)', edits=[
        (_B, "                if node['index'] == slot['node_index']:\n                    node_found = True\n                    break\n",
             "                if node['index'] == slot['node_index']:\n                    node_found = True\n                    if slot['lfs']:\n                        if new_state == rpc.BUSY:\n                            node['lfs'] -= slot['lfs']\n                        else:\n                            node['lfs'] += slot['lfs']\n                    break\n"),
        (_B, "            if slot['lfs']:\n                if new_state == rpc.BUSY:\n                    node['lfs'] -= slot['lfs']\n                else:\n                    node['lfs'] += slot['lfs']\n\n",
             '')]),
    dict(name='limits list, local slot closure, alias of the slot gpu list, for/else (seed C01-r10)', edits=[
        (_C, "        max_slots = n_slots\n        if lfs_per_slot:\n            max_slots = min(max_slots, int(node['lfs'] // lfs_per_slot))\n        if mem_per_slot:\n            max_slots = min(max_slots, int(node['mem'] // mem_per_slot))\n\n        # find at most `n_slots`\n        loop_core_idx = 0\n        loop_gpu_idx  = 0\n        gpu_shares    = dict()  # GPU shares handed to slots found so far\n        node_idx  = node['index']\n        node_name = node['name']\n\n        while len(slots) < max_slots:\n\n            self._log.debug_9('find resources on %s:%d', node_name, node_idx)\n            self._log.debug_9('node: %s', pprint.pformat(node))\n            self._log.debug_9('cps : %s', cores_per_slot)\n\n            slot  = {'node_name' : node_name,\n                     'node_index': node_idx,\n                     'cores'     : list(),\n                     'gpus'      : list(),\n                     'lfs'       : lfs_per_slot,\n                     'mem'       : mem_per_slot}\n\n            for core_idx,core in enumerate(node['cores'][loop_core_idx:],\n                                                         loop_core_idx):\n                if core == rpc.FREE:\n                    slot['cores'].append(RO(index=core_idx,\n                                            occupation=rpc.BUSY))\n\n                if len(slot['cores']) == cores_per_slot:\n                    break\n\n            loop_core_idx = core_idx + 1\n\n            if len(slot['cores']) < cores_per_slot:\n                self._log.debug_9('not enough cores on %s', node_name)\n                break\n\n            # gpus can be shared, so we need proper resource tracking.  If\n            # a slot requires one or more GPUs, GPU sharing is disabled.\n            if gpus_per_slot >= 1.0:\n\n                tmp = int(gpus_per_slot)\n                if tmp != gpus_per_slot:\n                    raise ValueError('cannot share GPUs>1')\n                gpus_per_slot = tmp\n\n                for gpu_idx,gpu in enumerate(node['gpus'][loop_gpu_idx:],\n                                                          loop_gpu_idx):\n\n                    if gpu == rpc.FREE:\n                        slot['gpus'].append(RO(index=gpu_idx,\n                                               occupation=rpc.BUSY))\n\n                    if len(slot['gpus']) == gpus_per_slot:\n                        break\n\n                loop_gpu_idx = gpu_idx + 1\n\n                if len(slot['gpus']) < gpus_per_slot:\n                    self._log.debug_9('not enough gpus on %s (1)', node_name)\n                    break\n\n            elif gpus_per_slot > 0.0:\n\n                # find a GPU which has sufficient space left\n                for gpu_idx,gpu_occ in enumerate(node['gpus'][loop_gpu_idx:],\n                                                              loop_gpu_idx):\n\n                    # account for shares of this GPU which were handed to\n                    # previously found slots of this request\n                    gpu_used = gpu_occ + gpu_shares.get(gpu_idx, 0.0)\n                    if gpus_per_slot <= rpc.BUSY - gpu_used:\n                        slot['gpus'].append(RO(index=gpu_idx,\n                                               occupation=gpus_per_slot))\n                        gpu_shares[gpu_idx] = gpus_per_slot + \\\n                                              gpu_shares.get(gpu_idx, 0.0)\n                        break\n                    else:\n                        loop_gpu_idx = gpu_idx + 1\n\n                if len(slot['gpus']) < 1:\n",
             "        limits = [n_slots]\n        if lfs_per_slot:\n            limits.append(int(node['lfs'] // lfs_per_slot))\n        if mem_per_slot:\n            limits.append(int(node['mem'] // mem_per_slot))\n        max_slots = min(limits)\n\n        # find at most `n_slots`\n        loop_core_idx = 0\n        loop_gpu_idx  = 0\n        gpu_shares    = dict()  # GPU shares handed to slots found so far\n        node_idx  = node['index']\n        node_name = node['name']\n\n        def _new_slot():\n            # an empty slot on this node, to be filled with cores and gpus\n            return {'node_name' : node_name,\n                    'node_index': node_idx,\n                    'cores'     : list(),\n                    'gpus'      : list(),\n                    'lfs'       : lfs_per_slot,\n                    'mem'       : mem_per_slot}\n\n        while len(slots) < max_slots:\n\n            self._log.debug_9('find resources on %s:%d', node_name, node_idx)\n            self._log.debug_9('node: %s', pprint.pformat(node))\n            self._log.debug_9('cps : %s', cores_per_slot)\n\n            slot      = _new_slot()\n            slot_gpus = slot['gpus']\n\n            for core_idx,core in enumerate(node['cores'][loop_core_idx:],\n                                                         loop_core_idx):\n                if core == rpc.FREE:\n                    slot['cores'].append(RO(index=core_idx,\n                                            occupation=rpc.BUSY))\n\n                if len(slot['cores']) == cores_per_slot:\n                    break\n\n            loop_core_idx = core_idx + 1\n\n            if len(slot['cores']) < cores_per_slot:\n                self._log.debug_9('not enough cores on %s', node_name)\n                break\n\n            # gpus can be shared, so we need proper resource tracking.  If\n            # a slot requires one or more GPUs, GPU sharing is disabled.\n            if gpus_per_slot >= 1.0:\n\n                tmp = int(gpus_per_slot)\n                if tmp != gpus_per_slot:\n                    raise ValueError('cannot share GPUs>1')\n                gpus_per_slot = tmp\n\n                for gpu_idx,gpu in enumerate(node['gpus'][loop_gpu_idx:],\n                                                          loop_gpu_idx):\n\n                    if gpu == rpc.FREE:\n                        slot_gpus.append(RO(index=gpu_idx,\n                                            occupation=rpc.BUSY))\n\n                    if len(slot_gpus) == gpus_per_slot:\n                        break\n\n                loop_gpu_idx = gpu_idx + 1\n\n                if len(slot_gpus) < gpus_per_slot:\n                    self._log.debug_9('not enough gpus on %s (1)', node_name)\n                    break\n\n            elif gpus_per_slot > 0.0:\n\n                # find a GPU which has sufficient space left\n                for gpu_idx,gpu_occ in enumerate(node['gpus'][loop_gpu_idx:],\n                                                              loop_gpu_idx):\n\n                    # account for shares of this GPU which were handed to\n                    # previously found slots of this request\n                    gpu_shared = gpu_shares.get(gpu_idx, 0.0)\n                    gpu_used   = gpu_occ + gpu_shared\n                    if gpus_per_slot <= rpc.BUSY - gpu_used:\n                        slot_gpus.append(RO(index=gpu_idx,\n                                            occupation=gpus_per_slot))\n                        gpu_shares[gpu_idx] = gpus_per_slot + gpu_shared\n                        break\n\n                    # this GPU is exhausted, also for the slots to come\n                    loop_gpu_idx = gpu_idx + 1\n\n                else:\n                    # search ended without `break`: no GPU had space left\n")]),
    dict(name='node lookup as for/else with hoisted node_index, kinds in key loops, sign factor (seed C03-r10)', edits=[
        (_B, "        # for node_name, node_index, cores, gpus in slots['ranks']:\n        for slot in slots:\n\n            # Find the entry in the slots list\n\n            # TODO: [Optimization] Assuming 'node_index' is the ID of the node,\n            #       it seems a bit wasteful to have to look at all of the nodes\n            #       available for use if at most one node can have that uid.\n            #       Maybe it would be worthwhile to simply keep a list of nodes\n            #       that we would read, and keep a dictionary that maps the uid\n            #       of the node to the location on the list?\n\n            node = None\n            node_found = False\n            for node in self.nodes:\n                if node['index'] == slot['node_index']:\n                    node_found = True\n                    break\n\n            if not node_found:\n                raise RuntimeError('inconsistent node information')\n\n            # iterate over cores/gpus in the slot, and update state\n            for core in slot['cores']:\n                node['cores'][core['index']] = new_state\n\n            for gpu in slot['gpus']:\n                node['gpus'][gpu['index']] = new_state\n\n            if slot['lfs']:\n                if new_state == rpc.BUSY:\n                    node['lfs'] -= slot['lfs']\n                else:\n                    node['lfs'] += slot['lfs']\n\n            if slot['mem']:\n                if new_state == rpc.BUSY:\n                    node['mem'] -= slot['mem']\n                else:\n                    node['mem'] += slot['mem']\n",
             "        # `lfs` and `mem` are amounts: they are taken from the node when the\n        # slot becomes BUSY, and are given back to the node otherwise\n        sign = -1 if new_state == rpc.BUSY else 1\n\n        # for node_name, node_index, cores, gpus in slots['ranks']:\n        for slot in slots:\n\n            # Find the entry in the slots list\n\n            # TODO: [Optimization] Assuming 'node_index' is the ID of the node,\n            #       it seems a bit wasteful to have to look at all of the nodes\n            #       available for use if at most one node can have that uid.\n            #       Maybe it would be worthwhile to simply keep a list of nodes\n            #       that we would read, and keep a dictionary that maps the uid\n            #       of the node to the location on the list?\n\n            node_index = slot['node_index']\n            for node in self.nodes:\n                if node['index'] == node_index:\n                    break\n            else:\n                raise RuntimeError('inconsistent node information')\n\n            # iterate over cores/gpus in the slot, and update state\n            for kind in ('cores', 'gpus'):\n                for ro in slot[kind]:\n                    node[kind][ro['index']] = new_state\n\n            for kind in ('lfs', 'mem'):\n                amount = slot[kind]\n                if amount:\n                    node[kind] += sign * amount\n")]),
    dict(name='Pilot.nodelist: cache guard spelled `is None`', edits=[
        (_P, '        if not self._nodelist:\n',
             '        if self._nodelist is None:\n')]),
    dict(name='Pilot.nodelist: early return of the kept list, list built into a local first', edits=[
        (_P, "        if not self._nodelist:\n\n            resource_details = self.resource_details\n            if not resource_details:\n                return None\n\n            numa_domain_map = resource_details.get('numa_domain_map')\n            node_list       = resource_details.get('node_list')\n\n            if not node_list:\n                return None\n\n            # only create NUMA resources if a numa domain map is available\n            if not numa_domain_map:\n                nodes = [Node(node) for node in node_list]\n            else:\n                nodes = [NumaNode(node, numa_domain_map)\n                                       for node in node_list]\n\n            self._nodelist = NodeList(nodes=nodes)\n            self._nodelist.verify()\n\n        return self._nodelist\n",
             "        if self._nodelist:\n            return self._nodelist\n\n        resource_details = self.resource_details\n        if not resource_details:\n            return None\n\n        numa_domain_map = resource_details.get('numa_domain_map')\n        node_list       = resource_details.get('node_list')\n\n        if not node_list:\n            return None\n\n        if not numa_domain_map:\n            nodes = [Node(node) for node in node_list]\n        else:\n            nodes = [NumaNode(node, numa_domain_map)\n                                   for node in node_list]\n\n        fresh = NodeList(nodes=nodes)\n        fresh.verify()\n        self._nodelist = fresh\n\n        return fresh\n")]),
    dict(name='Pilot.nodelist: cache attribute renamed everywhere', edits=[
        (_P, '        self._nodelist   = None\n',
             '        self._nl_cache   = None\n'),
        (_P, '        if not self._nodelist:\n',
             '        if not self._nl_cache:\n'),
        (_P, '            self._nodelist = NodeList(nodes=nodes)\n            self._nodelist.verify()\n\n        return self._nodelist\n',
             '            self._nl_cache = NodeList(nodes=nodes)\n            self._nl_cache.verify()\n\n        return self._nl_cache\n')]),
    dict(name='Pilot.nodelist: construction and verification in a helper method', edits=[
        (_P, "        if not self._nodelist:\n\n            resource_details = self.resource_details\n            if not resource_details:\n                return None\n\n            numa_domain_map = resource_details.get('numa_domain_map')\n            node_list       = resource_details.get('node_list')\n\n            if not node_list:\n                return None\n\n            # only create NUMA resources if a numa domain map is available\n            if not numa_domain_map:\n                nodes = [Node(node) for node in node_list]\n            else:\n                nodes = [NumaNode(node, numa_domain_map)\n                                       for node in node_list]\n\n            self._nodelist = NodeList(nodes=nodes)\n            self._nodelist.verify()\n\n        return self._nodelist\n",
             "        if not self._nodelist:\n\n            resource_details = self.resource_details\n            if not resource_details:\n                return None\n\n            numa_domain_map = resource_details.get('numa_domain_map')\n            node_list       = resource_details.get('node_list')\n\n            if not node_list:\n                return None\n\n            # only create NUMA resources if a numa domain map is available\n            if not numa_domain_map:\n                nodes = [Node(node) for node in node_list]\n            else:\n                nodes = [NumaNode(node, numa_domain_map)\n                                       for node in node_list]\n\n            self._nodelist = self._make_nodelist(nodes)\n\n        return self._nodelist\n"),
        (_P, '    # -------------------------------------------------------------------------\n    #\n    @property\n    def nodelist(self):\n',
             '    @staticmethod\n    def _make_nodelist(nodes):\n        made = NodeList(nodes=nodes)\n        made.verify()\n        return made\n\n    # -------------------------------------------------------------------------\n    #\n    @property\n    def nodelist(self):\n')]),
    dict(name='Pilot.nodelist: cache read through a local and getattr', edits=[
        (_P, '        if not self._nodelist:\n',
             "        kept = getattr(self, '_nodelist', None)\n        if not kept:\n")]),
    dict(name='Node._get_core_index: fast path that does compare the entry at the position', edits=[
        (_N, '    def _get_core_index(self, ro):\n\n        for i, _ro in enumerate(self.cores):\n            if _ro.index == ro.index:\n                return i\n',
             '    def _get_core_index(self, ro):\n\n        # fast path: lists built by __init__ are in index order\n        if ro.index < len(self.cores) and \\\n                self.cores[ro.index].index == ro.index:\n            return ro.index\n\n        for i, _ro in enumerate(self.cores):\n            if _ro.index == ro.index:\n                return i\n')]),
    dict(name='Node._get_core_index: range(len()) loop, early-continue form, renamed locals', edits=[
        (_N, '    def _get_core_index(self, ro):\n\n        for i, _ro in enumerate(self.cores):\n            if _ro.index == ro.index:\n                return i\n',
             '    def _get_core_index(self, wanted):\n\n        for pos in range(len(self.cores)):\n            if self.cores[pos].index != wanted.index:\n                continue\n            return pos\n')]),
    dict(name='Node._get_gpu_index: position kept in a local, returned after the loop; hoisted index', edits=[
        (_N, '    def _get_gpu_index(self, ro):\n\n        for i, _ro in enumerate(self.gpus):\n            if _ro.index == ro.index:\n                return i\n',
             '    def _get_gpu_index(self, ro):\n\n        want  = ro.index\n        found = None\n        for i, _ro in enumerate(self.gpus):\n            if _ro.index == want:\n                found = i\n                break\n\n        if found is not None:\n            return found\n')]),
    dict(name='Node._get_core_index: next() over a generator expression', edits=[
        (_N, "    def _get_core_index(self, ro):\n\n        for i, _ro in enumerate(self.cores):\n            if _ro.index == ro.index:\n                return i\n\n        raise ValueError('invalid core index %s' % ro.index)\n",
             "    def _get_core_index(self, ro):\n\n        try:\n            return next(i for i, _ro in enumerate(self.cores)\n                          if  _ro.index == ro.index)\n        except StopIteration:\n            pass\n\n        raise ValueError('invalid core index %s' % ro.index)\n")]),
    dict(name='Node._get_gpu_index: list.index over the indexes of the entries', edits=[
        (_N, '    def _get_gpu_index(self, ro):\n\n        for i, _ro in enumerate(self.gpus):\n            if _ro.index == ro.index:\n                return i\n',
             '    def _get_gpu_index(self, ro):\n\n        known = [_ro.index for _ro in self.gpus]\n        if ro.index in known:\n            return known.index(ro.index)\n')]),
    dict(name='Node.allocate_slot: look-up inlined, entry compared in the writer itself', edits=[
        (_N, '                c_idx = self._get_core_index(ro)\n                self.cores[c_idx].occupation += ro.occupation\n',
             '                for c_idx, _ro in enumerate(self.cores):\n                    if _ro.index != ro.index:\n                        continue\n                    self.cores[c_idx].occupation += ro.occupation\n                    break\n')]),
]
