"""C15  Waiting on tasks and pilots returns when it should  (DESIGN 5 / C15)

Anchors: Task.wait, Pilot.wait, TaskManager.wait_tasks, PilotManager.wait_pilots.

R15.1  decision table of the requested-state normalisation: for each of the
       three kinds of `state` argument (falsy / one state / list of states) the
       definition of the requested-state variable that reaches the polling
       loop is rps.FINAL / [state] / state; and the loop depends on it.
R15.2  the polling loop has no infinite path once every awaited entity is
       final (whatever was requested), nor once the timeout has expired.  Both
       are decided by a small abstract interpretation of the loop: branch
       edges contradicting the assumption are pruned, list emptiness is
       tracked, and the rule fires iff a cycle through the loop head remains.
       A comparison of the timeout with an elapsed time is decided by the
       orientation of the elapsed time: both sides are brought into the linear
       form a*NOW + b*START + c*timeout (NOW: a clock read that is fresh in
       every round, START: the stamp taken before the loop, through locals and
       helpers); with a == -b the difference grows with the sign of a, which
       with the operator gives the truth of the test once time has gone on
       (`timeout <= start - now` never fires).  When the clock reads cancel
       (a == b == 0: the stamp is taken anew in every round - on every path
       of the round to the test - or both reads are taken before the loop) the
       'elapsed time' does not grow and the test never fires either.
       Predicates extracted into helpers, nested closures (which may read the
       locals of the wait function and `self`), lambdas and if-return chains
       are read as the boolean expression they return (all rules).
R15.3  every `return` of the four functions returns a state read that is not
       older than the polling loop - also when the returned value is looked up
       in a local memo (`seen.get(uid, <fresh read>)`, `last[uid]`): every
       state read stored into the memo (`D[k] = x.state`, `D.update({..})`,
       `D = {..}`, append / setdefault) is a source of the returned value, and
       none may be made before or inside the loop.  The list wait_tasks / wait_pilots return
       is index-aligned with the awaited uids: the per-uid state reads walk
       the `uids` (all of them, in the caller's order: not `sorted(uids)`,
       `uids[1:]`, a filtered walk or the check list), one state per round,
       and nothing changes the list in place (sort / reverse / pop / insert /
       append / element store, also through an alias) between the reads and
       the return.
R15.4  the keep-waiting condition, evaluated over the folded state tables for
       every request, lets go of an entity that is in a requested state or
       final and keeps waiting for one that is before every requested state:
       the filter of the check list in wait_tasks / wait_pilots, and for
       Task.wait / Pilot.wait the tests of the polling loop that read the
       entity state (a round trip head -> head must exist / must not exist).
       A threshold folded over the requested states before the loop
       (`v = min(v, value[s])`) is run for every concrete request, so `max`
       for `min` is decided, not guessed - and so is the DOMAIN of the fold
       (`for s in states[1:]`, `range(1, len(states))`: slices, copies,
       range / enumerate are evaluated on the concrete request).
R15.5  wait_tasks / wait_pilots: monotone shrink.  On every path through one
       round of the polling loop the check list at the end of the round holds
       only members it held at the start (abstract interpretation: subset-of-
       the-previous-list / element-of-it / taken-from-<other collection>).
       A list rebuilt from another collection is a violation iff leaving the
       list is not permanent over the state table (an entity dropped in state
       s1 qualifies again in a later state s2); if leaving is permanent,
       re-filtering the list of awaited entities is equivalent and accepted.
R15.6  same source: every comparison of the polling loop that involves the
       timeout and a clock is computed (through the definitions that reach it
       and single-return helpers) from reads of one clock function only.
R15.7  who wakes the wait: every blocking call of the four functions
       (`time.sleep(T)`, `<event>.wait(T)`) either has a period T bounded by a
       constant (the states are polled) or - T derived from the timeout, or
       None - blocks on an event that every writer of the awaited state (the
       `<x>._update(..)` call sites of the manager class; the writes of
       `self._state` for Task.wait / Pilot.wait) sets afterwards on every
       path (in the function, in a method it calls, in Task/Pilot._update
       itself, or in every caller); an unbounded sleep is a violation; a
       `clear()` of the event inside the loop is followed by a read of the
       states before the wait blocks (no lost wake-up).
R15.8  hand-over: where a function of the four classes calls a wait anchor and
       was itself given a timeout, the value it passes (sign analysis over
       {None, <0, 0, >0} along the definitions that reach the call, narrowed
       by the tests in between) is one the callee takes as a timeout: never
       None, and 0 / a negative number only if the callee's polling loop
       (R15.2 machinery, run for that sign) ends for it; inside a loop the
       value shrinks with a clock or is a constant.
R15.9  "has reached", not "is in": the keep-waiting condition of all four is
       false in every state whose value lies above that of a requested state.
       The states are polled every 0.1 s, so a requested non-final state the
       entity only passes through is never seen by a membership test; only
       wait_tasks compares values.  (KNOWN findings on today's tree for
       Task.wait, Pilot.wait and wait_pilots.)
R15.10 "shortly after": every bounded blocking call of the polling loop has a
       period whose least upper bound over ALL rounds is at most POLL_LIMIT
       (1 s; the code polls every 0.1 s).  The period is evaluated by value:
       constants folded, locals followed, min / max / helpers, and a period
       computed from its own previous value (`d = min(d * 2, cap)`, `d += s`:
       a back-off) iterated from its initial value to its fixpoint.
R15.11 the polled state becomes final: for a pilot facade in any non-final
       state that is notified DONE / FAILED / CANCELED (notifications between
       may be lost), the states PilotManager._update_pilot hands Pilot._update,
       applied one by one by Pilot._update as it is, leave Pilot._state - what
       Pilot.wait and wait_pilots poll - in that final state.  Decidable only
       by value over the state table: C14's R14.7 is evaluated (imported, not
       copied) and a finding of it is taken over only when the facade really
       misses the final state; everything else about the replay stays C14's.
"""

import ast

from ..model import (walk, dotted, call_name, unparse, short, UNKNOWN,
                     AnalysisError, calls_in, stores_in_target)
from ..cfg import cfg_of
from ..flow import Deps, Exploration

ANCHORS = [
    ('task.py',          'Task',         'wait',        'task'),
    ('pilot.py',         'Pilot',        'wait',        'pilot'),
    ('task_manager.py',  'TaskManager',  'wait_tasks',  'task'),
    ('pilot_manager.py', 'PilotManager', 'wait_pilots', 'pilot'),
]

STATE_ATTRS = ('state', '_state')

# the anchors which wait for a list of entities (a check list that shrinks);
# the others poll the state of `self`
MANAGER_WAITS = ('wait_tasks', 'wait_pilots')


# ------------------------------------------------------------------------------
# helpers
#
def _final(prog):
    v = prog.const('states.py', 'FINAL')
    if not isinstance(v, list) or len(v) < 3:
        raise AnalysisError('states.py::FINAL is not a list of >= 3 states')
    return v


BLOCKING = ('sleep', 'wait')


def _callee_name(call):
    """last name of the callee expression (`to_check[0].wait` -> 'wait')"""
    if isinstance(call.func, ast.Attribute):
        return call.func.attr
    return call.func.id if isinstance(call.func, ast.Name) else ''


def wait_loop(f, g):
    """the polling loop: the (outermost) `while` whose body blocks - it sleeps
    (`time.sleep(T)`) or waits on something (`<event>.wait(T)`, R15.7 decides
    who wakes it; `<entity>.wait(..)`, R15.8 decides the hand-over)"""
    heads = []
    for h, a in g.loop_ast.items():
        if isinstance(a, ast.While) and any(
                _callee_name(c) in BLOCKING for c in calls_in(a)):
            heads.append(h)
    heads = [h for h in heads
             if not any(o in g.nodes[h].loops for o in heads if o != h)]
    if len(heads) != 1:
        raise AnalysisError('UNRECOGNISED-IDIOM %s: expected exactly one '
                            'polling `while` loop with a sleep() / wait() in '
                            'its body, found %d' % (f.where, len(heads)))
    return heads[0]


def stores_of(node):
    """plain names (re)bound by a cfg node"""
    a = node.ast
    if a is None:
        return []
    if node.kind == 'for':
        return stores_in_target(a.target)
    if node.kind != 'stmt':
        return []
    out = []
    if isinstance(a, ast.Assign):
        for t in a.targets:
            out += stores_in_target(t)
    elif isinstance(a, (ast.AugAssign, ast.AnnAssign)):
        out += stores_in_target(a.target)
    return out


def reads_name(expr, name):
    return any(isinstance(n, ast.Name) and n.id == name and
               isinstance(n.ctx, ast.Load) for n in walk(expr, nested=True))


def reads_state_attr(expr):
    return any(isinstance(n, ast.Attribute) and n.attr in STATE_ATTRS
               for n in walk(expr, nested=True))


def succ_ids(g, nid):
    return [e.dst for e in g.succ[nid] if e.label != 'exc']


def tainted_by_rebinding(g, name):
    """cfg nodes which may execute after `name` (a parameter) was rebound"""
    starts = []
    for n in g.nodes:
        if name in stores_of(n):
            starts += succ_ids(g, n.id)
    return g.reachable(starts) if starts else set()


def contains_final(prog, f, expr, final):
    """expression denotes a collection that includes every final state"""
    v = prog.fold(f.module, expr, f.cls)
    if v is not UNKNOWN and isinstance(v, (list, tuple, set, dict)):
        try:
            return set(final) <= set(v)
        except TypeError:
            return False
    if isinstance(expr, ast.BinOp) and isinstance(expr.op, (ast.Add,
                                                            ast.BitOr)):
        return contains_final(prog, f, expr.left, final) or \
               contains_final(prog, f, expr.right, final)
    if isinstance(expr, ast.Call) and dotted(expr.func) in (
            'set', 'list', 'tuple', 'frozenset', 'sorted') and \
            len(expr.args) == 1:
        return contains_final(prog, f, expr.args[0], final)
    return False


def and_conjuncts(expr):
    if isinstance(expr, ast.BoolOp) and isinstance(expr.op, ast.And):
        out = []
        for v in expr.values:
            out += and_conjuncts(v)
        return out
    return [expr]


# ------------------------------------------------------------------------------
# R15.1  decision table of the normalisation
#
ROWS = [('falsy',   'no state requested (None / empty)'),
        ('single',  'one state requested (a string)'),
        ('list',    'a list of states requested')]


def _isinstance_list(atom, pname):
    if isinstance(atom, ast.Call) and dotted(atom.func) == 'isinstance' and \
            len(atom.args) == 2 and isinstance(atom.args[0], ast.Name) and \
            atom.args[0].id == pname:
        t = atom.args[1]
        names = [unparse(e) for e in (t.elts if isinstance(t, ast.Tuple)
                                      else [t])]
        if 'list' in names:
            return True
    return False


def _row_edge(f, atom, pname, row):
    """which out-edge labels of a test on the parameter are feasible for this
    row: set of 'T'/'F'; raises for a test the recogniser does not know"""
    both = {'T', 'F'}
    if isinstance(atom, ast.Name) and atom.id == pname:
        return {'F'} if row == 'falsy' else {'T'}
    if _isinstance_list(atom, pname):
        if row == 'list':
            return {'T'}
        if row == 'single':
            return {'F'}
        return both                      # None or []
    if isinstance(atom, ast.Compare) and len(atom.ops) == 1 and \
            isinstance(atom.left, ast.Name) and atom.left.id == pname and \
            isinstance(atom.comparators[0], ast.Constant) and \
            atom.comparators[0].value is None and \
            isinstance(atom.ops[0], (ast.Is, ast.IsNot, ast.Eq, ast.NotEq)):
        if row == 'falsy':
            return both
        return {'F'} if isinstance(atom.ops[0], (ast.Is, ast.Eq)) else {'T'}
    if not reads_name(atom, pname):
        return both
    raise AnalysisError('UNRECOGNISED-IDIOM %s: test `%s` on the requested '
                        'state is not one of `%s`, `isinstance(%s, list)`, '
                        '`%s is None`' % (f.where, short(atom, 60), pname,
                                          pname, pname))


def _classify_def(prog, f, value, pname, final):
    """'final' | 'single' | 'list' | 'either' | ('const', v) | None"""
    if isinstance(value, (ast.List, ast.Tuple, ast.Set)) and \
            len(value.elts) == 1 and isinstance(value.elts[0], ast.Name) and \
            value.elts[0].id == pname:
        return 'single'
    if isinstance(value, ast.Name) and value.id == pname:
        return 'list'
    if isinstance(value, ast.Call):
        d = dotted(value.func)
        if d.split('.')[-1] == 'as_list' and len(value.args) == 1 and \
                isinstance(value.args[0], ast.Name) and \
                value.args[0].id == pname:
            return 'either'
        if d in ('list', 'tuple', 'set') and len(value.args) == 1 and \
                isinstance(value.args[0], ast.Name) and \
                value.args[0].id == pname:
            return 'list'
    if isinstance(value, ast.Subscript) and isinstance(value.value, ast.Name) \
            and value.value.id == pname and isinstance(value.slice, ast.Slice) \
            and value.slice.lower is None and value.slice.upper is None:
        return 'list'
    v = prog.fold(f.module, value, f.cls)
    if v is not UNKNOWN and isinstance(v, (list, tuple, set)):
        try:
            if set(v) == set(final):
                return 'final'
        except TypeError:
            pass
        return ('const', v)
    if v is None and isinstance(value, ast.Constant):
        return ('const', None)
    return None


def _def_kinds(prog, f, value, pname, final, row, depth=0):
    """[(kind, text)] of a definition of the requested-state variable; a call
    of a resolvable helper with the `state` argument is followed into the
    helper: every `return` it can reach for this row counts"""
    k = _classify_def(prog, f, value, pname, final)
    if k is not None or depth > 2:
        return [(k, '')]
    if isinstance(value, ast.Call) and len(value.args) == 1 and \
            not value.keywords and isinstance(value.args[0], ast.Name) and \
            value.args[0].id == pname:
        h = prog.resolve_call(f, value)
        if h is None:
            return [(None, '')]
        params = list(h.params)
        static = any(unparse(d) in ('staticmethod',)
                     for d in h.node.decorator_list)
        if h.cls is not None and not static and params:
            params = params[1:]
        if len(params) != 1:
            return [(None, '')]
        hp = params[0]
        hg = cfg_of(h)
        if tainted_by_rebinding(hg, hp):
            return [(None, '')]

        def transfer(node, edge, st):
            if node.kind == 'test' and edge.label in 'TF':
                if edge.label not in _row_edge(h, node.ast, hp, row):
                    return None
            return st

        def is_ret(nid):
            n = hg.nodes[nid]
            return nid in (hg.exit.id, hg.raise_.id) or (
                n.kind == 'stmt' and isinstance(n.ast, ast.Return))
        ex = Exploration(hg, hg.entry.id, 0, transfer, stop=is_ret)
        out = []
        for t in ex.terminals:
            n = hg.nodes[t.node]
            if t.node == hg.raise_.id:
                continue
            if t.node == hg.exit.id or n.ast.value is None:
                out.append((('const', None), '%s returns nothing' % h.qual))
                continue
            for kk, txt in _def_kinds(prog, h, n.ast.value, hp, final, row,
                                      depth + 1):
                out.append((kk, '%s: %s' % (h.qual, short(n.ast, 50))))
        return out or [(None, '')]
    return [(None, '')]


def normalisation(prog, f, g, head):
    """(parameter name, requested-state variable, tainted node ids)"""
    pname = 'state'
    if pname not in f.params:
        raise AnalysisError('anchor %s has no parameter `state`' % f.where)
    tainted = tainted_by_rebinding(g, pname)
    pre = set()
    for n in g.nodes:
        if n.id in g.loop_body[head] or n.id == head or n.id in tainted:
            continue
        if head in g.reachable(n.id):
            pre.add(n.id)
    # tests on the parameter before the loop
    tests = [n for n in g.nodes if n.kind == 'test' and n.id in pre and
             reads_name(n.ast, pname)]
    cand = {}
    for n in g.nodes:
        if n.id not in pre or n.kind != 'stmt' or \
                not isinstance(n.ast, ast.Assign):
            continue
        names = stores_of(n)
        if len(names) != 1 or names[0] == pname:
            continue
        dep = reads_name(n.ast.value, pname)
        if not dep:
            for t in tests:
                for lab in ('T', 'F'):
                    if n.id not in g.reachable(g.entry.id,
                                               skip_edges=[(t.id, lab)]):
                        dep = True
        if dep:
            cand.setdefault(names[0], []).append(n)
    if len(cand) > 1:
        copied = set()
        for nm, nodes in cand.items():
            for n in nodes:
                if isinstance(n.ast.value, ast.Name) and \
                        n.ast.value.id in cand and n.ast.value.id != nm:
                    copied.add(n.ast.value.id)
        for nm in copied:
            if len(cand) > 1:
                cand.pop(nm, None)
    if len(cand) != 1:
        raise AnalysisError('UNRECOGNISED-IDIOM %s: expected one variable '
                            'holding the normalised requested states, found %s'
                            % (f.where, sorted(cand)))
    var = list(cand)[0]
    return pname, var, tainted


def r15_1(prog, rep, rid='R15.1'):
    rep.rule(rid, 'the requested-state variable that reaches the polling loop '
             'is rps.FINAL when no state is given, [state] for one state, '
             'state for a list; and the loop depends on it', minimum=16)
    final = _final(prog)
    for rel, cname, mname, what in ANCHORS:
        f = prog.method(rel, cname, mname)
        rep.saw(f)
        g = cfg_of(f)
        rep.stat('cfg_nodes', len(g.nodes))
        head = wait_loop(f, g)
        pname, var, tainted = normalisation(prog, f, g, head)
        tracked = set()
        for n in g.nodes:
            if n.kind == 'stmt' and isinstance(n.ast, ast.Assign) and \
                    n.id not in g.loop_body[head] and \
                    len(n.ast.targets) == 1 and \
                    isinstance(n.ast.targets[0], ast.Name):
                tracked.add(n.ast.targets[0].id)
        tracked.discard(pname)

        for row, rowtext in ROWS:
            def transfer(node, edge, st, row=row):
                if edge.label == 'exc':
                    return st
                if node.kind == 'test' and edge.label in 'TF' and \
                        node.id not in tainted:
                    if edge.label not in _row_edge(f, node.ast, pname, row):
                        return None
                names = stores_of(node)
                if names:
                    d = dict(st)
                    a = node.ast
                    src = node.id
                    if node.kind == 'stmt' and isinstance(a, ast.Assign) and \
                            isinstance(a.value, ast.Name) and \
                            a.value.id != pname and a.value.id in d:
                        src = d[a.value.id]       # x = y: x is what y is
                    for nm in names:
                        if nm in tracked:
                            d[nm] = src
                    return tuple(sorted(d.items()))
                return st
            ex = Exploration(g, g.entry.id, (), transfer,
                             stop=lambda nid: nid in (head, g.exit.id,
                                                      g.raise_.id))
            rep.stat('paths', ex.states)
            at_head = [t for t in ex.terminals if t.node == head]
            if not at_head:
                raise AnalysisError('UNRECOGNISED-IDIOM %s: the polling loop '
                                    'is not reachable when %s' % (f.where,
                                                                  rowtext))
            wrong, unknown = [], []
            good = {'falsy': ('final',), 'single': ('single', 'either'),
                    'list': ('list', 'either')}[row]
            for t in at_head:
                did = dict(t.state).get(var, -1)
                t.state = did
                if did < 0:
                    wrong.append((t, '<undefined>', 'undefined'))
                    continue
                dn = g.nodes[did]
                if dn.kind != 'stmt' or not isinstance(dn.ast, ast.Assign):
                    unknown.append(dn)
                    continue
                ks = _def_kinds(prog, f, dn.ast.value, pname, final, row)
                if any(k is None for k, _ in ks):
                    unknown.append(dn)
                    continue
                bad = [(k, txt) for k, txt in ks if k not in good]
                if bad:
                    wrong.append((t, bad[0][1] or short(dn.ast, 60), bad[0][0]))
            if unknown and not wrong:
                raise AnalysisError(
                    'UNRECOGNISED-IDIOM %s: the definition `%s` of %r that '
                    'reaches the polling loop when %s is not a form the '
                    'recogniser knows' % (f.where, short(unknown[0].ast, 60),
                                          var, rowtext))
            hist = {
                'falsy' : '%s.%s() with the default state: the loop waits for '
                          '%s instead of any final state and never returns '
                          '(without a timeout)',
                'single': '%s.%s(rps.DONE): the loop compares the %s state '
                          'with %s',
                'list'  : '%s.%s([rps.DONE, rps.FAILED]): the loop compares '
                          'the %s state with %s',
            }[row]
            if wrong:
                t, dtxt, k = wrong[0]
                lits = ex.literals(t)
                if row == 'falsy':
                    h = hist % (cname, mname, dtxt)
                else:
                    h = hist % (cname, mname, what, dtxt)
                rep.bad(rid, f, 'requested states when %s' % rowtext,
                        '%s: when %s, the definition of %r that reaches the '
                        'polling loop is `%s` (%d path(s)); expected %s.  '
                        'The wait then tests the %s state against the wrong '
                        'set' % (f.qual, rowtext, var, dtxt, len(wrong),
                                 {'falsy': 'rps.FINAL', 'single': '[%s]' % pname,
                                  'list': pname}[row], what),
                        f.loc(g.nodes[t.state].ast) if t.state >= 0
                        else f.loc(), history=h, path=lits)
            else:
                rep.ok(rid, f, '%s: %r at the polling loop is %s when %s'
                       % (f.qual, var, {'falsy': 'rps.FINAL',
                                        'single': '[%s]' % pname,
                                        'list': pname}[row], rowtext), f.loc())

        # the loop depends on the requested states
        d = Deps(f.node, implicit=True)
        loop = g.loop_ast[head]
        dep = set()
        for n in g.nodes:
            if (n.id in g.loop_body[head]) and n.kind == 'test':
                dep |= d.expr_depends(n.ast)
        for n in walk(loop):
            if isinstance(n, ast.comprehension):
                for c in n.ifs:
                    dep |= d.expr_depends(c)
        # predicates extracted into helpers / closures: what they read
        tests = [n.ast for n in g.nodes
                 if n.id in g.loop_body[head] and n.kind == 'test'] + \
                [c for n in walk(loop) if isinstance(n, ast.comprehension)
                 for c in n.ifs]
        depth = 0
        while tests and depth < 3:
            bodies = [inline_pred(prog, f, c) for t in tests
                      for c in calls_in(t)]
            tests = [b for b in bodies if b is not None]
            for b in tests:
                dep |= d.expr_depends(b)
            depth += 1
        rep.check(var in dep, rid, f,
                  '%s: the polling loop depends on %r' % (f.qual, var),
                  construct='loop reads requested states',
                  message='%s: no test of the polling loop depends on the '
                  'normalised requested states %r: the wait ignores what was '
                  'asked for' % (f.qual, var), loc=f.loc(loop),
                  history='%s.%s(rps.%s): returns only once the %s is final, '
                  'although the requested state was reached long before'
                  % (cname, mname, 'AGENT_EXECUTING' if what == 'task'
                     else 'PMGR_ACTIVE', what))


# ------------------------------------------------------------------------------
# predicates extracted into helpers
#
def substitute(expr, mapping):
    import copy

    class T(ast.NodeTransformer):
        def visit_Name(self, n):
            if isinstance(n.ctx, ast.Load) and n.id in mapping:
                return copy.deepcopy(mapping[n.id])
            return n
    return T().visit(copy.deepcopy(expr))


def _bool_const(e):
    return isinstance(e, ast.Constant) and isinstance(e.value, bool)


def _ite(c, a, b):
    """boolean expression with the truth value of `a if c else b`"""
    def neg(x):
        return ast.UnaryOp(op=ast.Not(), operand=x)

    def both(x, y):
        return ast.BoolOp(op=ast.And(), values=[x, y])

    def either(x, y):
        return ast.BoolOp(op=ast.Or(), values=[x, y])
    if _bool_const(a) and _bool_const(b):
        if a.value == b.value:
            return a
        return c if a.value else neg(c)
    if _bool_const(a):
        return either(c, b) if a.value else both(neg(c), b)
    if _bool_const(b):
        return either(neg(c), a) if b.value else both(c, a)
    return either(both(c, a), both(neg(c), b))


def _returned_expr(stmts, mapping=None, boolean=None):
    """the expression a statement list returns: `return <expr>`, possibly
    behind plain single-name assignments (substituted into what follows) and
    `if`s whose arms all return (an if-return chain: read as the boolean
    expression with the same truth value).  `boolean` is a one-element list
    set to True when an `if` was folded (the result then only has the truth
    value of what is returned).  None for any other shape"""
    mapping = dict(mapping or {})
    stmts = [x for x in stmts
             if not (isinstance(x, ast.Expr) and
                     isinstance(x.value, ast.Constant)) and
             not isinstance(x, ast.Pass)]
    if not stmts:
        return None
    s = stmts[0]
    if isinstance(s, ast.Return):
        if s.value is None:
            return None
        return substitute(s.value, mapping) if mapping else s.value
    if isinstance(s, ast.Assign) and len(s.targets) == 1 and \
            isinstance(s.targets[0], ast.Name) and len(stmts) > 1:
        if any(isinstance(n, (ast.Call, ast.Await, ast.Yield, ast.NamedExpr))
               for n in walk(s.value, nested=True)) and \
                sum(1 for x in stmts[1:] for n in walk(x)
                    if isinstance(n, ast.Name) and
                    n.id == s.targets[0].id) > 1:
            return None         # a call result read twice is not two calls
        mapping[s.targets[0].id] = substitute(s.value, mapping) \
            if mapping else s.value
        return _returned_expr(stmts[1:], mapping, boolean)
    if isinstance(s, ast.If):
        a = _returned_expr(s.body, mapping, boolean)
        if a is None:
            return None
        b = _returned_expr(s.orelse if s.orelse else stmts[1:], mapping,
                           boolean)
        if b is None:
            return None
        if boolean is not None:
            boolean[0] = True
        test = substitute(s.test, mapping) if mapping else s.test
        return _ite(test, a, b)
    return None


def _encloses(f, h):
    """h is a closure defined (directly or deeper) inside f"""
    p = h.parent
    while p is not None:
        if p is f:
            return True
        p = p.parent
    return False


def inline_pred(prog, f, call, value=False):
    """the expression a call stands for (with `value`: only where it has the
    same VALUE, not just the same truth value - no folded if-return chain), if the callee is a resolvable
    function whose body returns one expression over its parameters (which are
    replaced by the arguments): a single `return <expr>`, possibly after
    plain assignments of locals, or an if-return chain (read as the boolean
    expression of the same truth value).  A closure nested in `f` (a `def` or
    a `name = lambda ..: <expr>` assigned once) may also read the locals of
    `f` and `self`: at the call site they are what the closure sees.  Else
    None"""
    if not isinstance(call, ast.Call) or call.keywords or \
            any(isinstance(a, ast.Starred) for a in call.args):
        return None
    if isinstance(call.func, ast.Name) and call.func.id not in f.nested:
        lam = single_assign(f, call.func.id)
        if isinstance(lam, ast.Lambda):
            a = lam.args
            if a.vararg or a.kwarg or a.kwonlyargs or a.defaults:
                return None
            params = [x.arg for x in a.posonlyargs + a.args]
            if len(params) != len(call.args):
                return None
            return substitute(lam.body, dict(zip(params, call.args)))
    h = prog.resolve_call(f, call)
    if h is None or h is f:
        return None
    a = h.node.args
    if a.vararg or a.kwarg or a.kwonlyargs:
        return None
    params = [x.arg for x in a.posonlyargs + a.args]
    static = any(unparse(d) == 'staticmethod' for d in h.node.decorator_list)
    closure = _encloses(f, h)
    if h.cls is not None and not static and not closure and params and \
            isinstance(call.func, ast.Attribute):
        params = params[1:]
    if len(params) != len(call.args):
        return None
    folded = [False]
    body = _returned_expr(h.node.body, boolean=folded)
    if body is None or value and folded[0]:
        return None
    free = {n.id for n in walk(body) if isinstance(n, ast.Name)} - set(params)
    if closure:
        # free names are the caller's own locals
        if isinstance(call.func, ast.Attribute) or any(
                isinstance(n, (ast.Global, ast.Nonlocal))
                for n in walk(h.node)):
            return None
    elif 'self' in free or 'cls' in free:
        return None
    return substitute(body, dict(zip(params, call.args)))


def _pred_atoms(prog, f, expr, pol=True, depth=0):
    """[(atom, polarity)]: the conjuncts of a condition, predicates extracted
    into helpers / closures looked into"""
    out = []
    for a, p in _conj_atoms(expr, pol):
        body = inline_pred(prog, f, a) if isinstance(a, ast.Call) and \
            depth < 3 else None
        if body is not None:
            out += _pred_atoms(prog, f, body, p, depth + 1)
        else:
            out.append((a, p))
    return out


def truth3(expr, known):
    """three-valued truth of a boolean expression: known(atom) -> True /
    False / None"""
    if isinstance(expr, ast.UnaryOp) and isinstance(expr.op, ast.Not):
        v = truth3(expr.operand, known)
        return None if v is None else not v
    if isinstance(expr, ast.BoolOp):
        vals = [truth3(v, known) for v in expr.values]
        if isinstance(expr.op, ast.And):
            if any(v is False for v in vals):
                return False
            return True if all(v is True for v in vals) else None
        if any(v is True for v in vals):
            return True
        return False if all(v is False for v in vals) else None
    return known(expr)


# ------------------------------------------------------------------------------
# R15.2  no infinite path through the polling loop
#
def _state_aliases(f, g, head):
    """local names which are (re)assigned inside the loop, only from a state
    read (st = self.state)"""
    body = g.loop_body[head]
    defs = {}
    for n in g.nodes:
        for name in stores_of(n):
            defs.setdefault(name, []).append(n)
    out = set()
    for name, nodes in defs.items():
        if all(n.id in body and n.kind == 'stmt' and
               isinstance(n.ast, ast.Assign) and
               isinstance(n.ast.value, ast.Attribute) and
               n.ast.value.attr in STATE_ATTRS for n in nodes):
            out.add(name)
    return out


def _final_atom(prog, f, atom, final, aliases):
    """+1: atom is `<entity state> in <FINAL..>`, -1: `not in`, 0: neither"""
    if not isinstance(atom, ast.Compare) or len(atom.ops) != 1:
        return 0
    op = atom.ops[0]
    if not isinstance(op, (ast.In, ast.NotIn)):
        return 0
    l = atom.left
    if not (isinstance(l, ast.Attribute) and l.attr in STATE_ATTRS or
            isinstance(l, ast.Name) and l.id in aliases):
        return 0
    if not contains_final(prog, f, atom.comparators[0], final):
        return 0
    return 1 if isinstance(op, ast.In) else -1


def _sign_cmp(sign, op, c):
    """truth of `<number of the given sign> op c` for a numeric constant c:
    True / False, or None when it depends on the number"""
    import operator
    fn = {ast.Lt: operator.lt, ast.LtE: operator.le, ast.Gt: operator.gt,
          ast.GtE: operator.ge, ast.Eq: operator.eq,
          ast.NotEq: operator.ne}.get(type(op))
    if fn is None:
        return None
    if sign == 'zero':
        return bool(fn(0, c))
    big = 1e300 if sign == 'pos' else -1e300
    tiny = 1e-300 if sign == 'pos' else -1e-300
    a, b = bool(fn(big, c)), bool(fn(tiny, c))
    return a if a == b else None


class _NotLinear(Exception):
    pass


def _lin_add(a, b, k=1):
    out = dict(a)
    for x, v in b.items():
        out[x] = out.get(x, 0) + k * v
    return out


def _linear(prog, f, g, at, loops, e, tname, depth=0, lazy=None):
    """coefficients of the expression `e` (evaluated at cfg node `at`) over
    NOW (a clock read that is evaluated afresh in every round of one of the
    `loops`), START (a clock read taken outside of them: the stamp), 'tmo'
    (the timeout) and 'const'; follows locals to the definition(s) that reach
    the use and single-expression helpers.  Raises _NotLinear"""
    from ..flow import reaching_defs
    if depth > 6:
        raise _NotLinear()
    # an expression `_timeout_view` put in the place of a local is evaluated
    # where that local is defined, not where the test stands
    at = getattr(e, '_c15_at', at)
    if isinstance(e, ast.Constant) and isinstance(e.value, (int, float)) and \
            not isinstance(e.value, bool):
        return {'const': e.value}
    if isinstance(e, ast.UnaryOp) and isinstance(e.op, (ast.USub, ast.UAdd)):
        v = _linear(prog, f, g, at, loops, e.operand, tname, depth + 1, lazy)
        return v if isinstance(e.op, ast.UAdd) else _lin_add({}, v, -1)
    if isinstance(e, ast.BinOp) and isinstance(e.op, (ast.Add, ast.Sub)):
        l = _linear(prog, f, g, at, loops, e.left, tname, depth + 1, lazy)
        r = _linear(prog, f, g, at, loops, e.right, tname, depth + 1, lazy)
        return _lin_add(l, r, 1 if isinstance(e.op, ast.Add) else -1)
    if isinstance(e, ast.Name):
        if e.id == tname:
            return {'tmo': 1}
        if e.id in f.params:
            raise _NotLinear()
        defs = reaching_defs(g, e.id, at)
        if not defs or any(v is None for dn, v in defs):
            raise _NotLinear()
        vals = [_linear(prog, f, g, dn.id, loops, v, tname, depth + 1, lazy)
                for dn, v in defs]
        if lazy is not None:
            # a definition inside the loop that a round can go around: the
            # value used may stem from an earlier round (a stamp taken lazily
            # in the first round is not 'fresh in every round')
            for dn, v in defs:
                hs = [h for h in loops if h in g.nodes[dn.id].loops]
                if hs and at != dn.id and at in g.reachable(
                        succ_ids(g, hs[-1]), skip_nodes={dn.id, hs[-1]}):
                    lazy.append(e.id)
        nz = [{k: c for k, c in v.items() if c} for v in vals]
        if any(v != nz[0] for v in nz[1:]):
            raise _NotLinear()
        return vals[0]
    if isinstance(e, ast.Call):
        if clock_of(prog, f, e, f.module.local_imports(f.node)) is not None:
            fresh = any(h in g.nodes[at].loops or h == at for h in loops)
            return {'now' if fresh else 'start': 1}
        if dotted(e.func) == 'float' and len(e.args) == 1 and not e.keywords:
            return _linear(prog, f, g, at, loops, e.args[0], tname, depth + 1, lazy)
        body = inline_pred(prog, f, e, value=True)
        if body is not None:
            return _linear(prog, f, g, at, loops, body, tname, depth + 1, lazy)
    raise _NotLinear()


def _elapsed_test(prog, f, g, node, atom, tname):
    """truth of an order comparison between the timeout and an elapsed time
    once the timeout has expired, decided by the ORIENTATION of the elapsed
    time: `left - right` must be linear in NOW - START (NOW: a clock read that
    is fresh in every round, START: the stamp taken before the loop) and the
    timeout; as time goes on its sign is the sign of the coefficient of NOW.
    None when the comparison is not of that form (the caller falls back to the
    position of the timeout)"""
    op = atom.ops[0]
    loops = g.nodes[node.id].loops
    if not loops:
        return None
    lazy = []
    try:
        l = _linear(prog, f, g, node.id, loops, atom.left, tname, 0, lazy)
        r = _linear(prog, f, g, node.id, loops, atom.comparators[0], tname,
                    0, lazy)
    except _NotLinear:
        return None
    d = _lin_add(l, r, -1)
    a, b, c = d.get('now', 0), d.get('start', 0), d.get('tmo', 0)
    if not a and not b and c and ('now' in d or 'start' in d) and not lazy:
        # the clock reads cancel: both are taken anew in every round (the
        # stamp is re-taken inside the loop: the 'elapsed time' is that of one
        # round) or both before the loop (it is 0 for ever).  The difference
        # does not grow with time: for a timeout longer than one round the
        # truth of the test is that of `c * timeout op 0`
        if isinstance(op, (ast.GtE, ast.Gt)):
            return c > 0
        if isinstance(op, (ast.LtE, ast.Lt)):
            return c < 0
        return None
    if not a or a != -b or not c:
        return None
    if isinstance(op, (ast.GtE, ast.Gt)):
        return a > 0
    if isinstance(op, (ast.LtE, ast.Lt)):
        return a < 0
    return None


def _timeout_atom(f, atom, tname, val='pos', ctx=None):
    """truth value of a test on the timeout once it has expired: True / False /
    None (not about the timeout).  `val` is the sign of the timeout the
    function was given: 'pos' (a timeout as the API means it), 'zero' or
    'neg' (what a caller may compute from its own timeout, R15.8) - an
    elapsed time is >= any of them once the timeout has expired"""
    if isinstance(atom, ast.Name) and atom.id == tname:
        return val != 'zero'
    if not reads_name(atom, tname):
        return None
    if isinstance(atom, ast.Call) and dotted(atom.func) == 'bool' and \
            len(atom.args) == 1 and not atom.keywords:
        return _timeout_atom(f, atom.args[0], tname, val, ctx)
    if isinstance(atom, ast.Compare) and len(atom.ops) == 1:
        op = atom.ops[0]
        l, r = atom.left, atom.comparators[0]
        if isinstance(r, ast.Constant) and r.value is None and (
                isinstance(l, ast.Name) and l.id == tname or
                isinstance(l, ast.BinOp)):
            # the timeout, or a number computed from it (a deadline)
            if isinstance(op, (ast.IsNot, ast.NotEq)):
                return True
            if isinstance(op, (ast.Is, ast.Eq)):
                return False
        if val != 'pos' and isinstance(l, ast.Name) and l.id == tname and \
                isinstance(r, ast.Constant) and \
                isinstance(r.value, (int, float)) and \
                not isinstance(r.value, bool):
            # <timeout> op <number>: decided by the sign of the timeout
            tv = _sign_cmp(val, op, r.value)
            if tv is not None:
                return tv
            raise AnalysisError('UNRECOGNISED-IDIOM %s: test `%s` on a %s '
                                'timeout is not decided by its sign'
                                % (f.where, short(atom, 60), val))
        lt, rt = reads_name(l, tname), reads_name(r, tname)
        if ctx is not None and isinstance(op, (ast.Lt, ast.LtE, ast.Gt,
                                               ast.GtE)):
            tv = _elapsed_test(ctx[0], f, ctx[1], ctx[2], atom, tname)
            if tv is not None:
                return tv
        if lt != rt:
            # <timeout> op <elapsed>   /   <elapsed> op <timeout>
            if isinstance(op, (ast.LtE, ast.Lt)):
                return lt
            if isinstance(op, (ast.GtE, ast.Gt)):
                return rt
    raise AnalysisError('UNRECOGNISED-IDIOM %s: test `%s` on the timeout is '
                        'not a form the recogniser knows' % (f.where,
                                                             short(atom, 60)))


def _timeout_view(f, g, node, tname, val='pos'):
    """the test of a cfg node with every local that is computed from the
    timeout (a deadline: `end = start + timeout`, possibly `None` / 0 when no
    timeout was given) replaced by that computation.  For a timeout of 0
    (val == 'zero', R15.8) a computation that only happens under `if timeout`
    does not happen: the local keeps its `None` / 0"""
    from ..flow import reaching_defs, guards
    atom = node.ast
    mapping = {}
    for x in walk(atom, nested=True):
        if not (isinstance(x, ast.Name) and isinstance(x.ctx, ast.Load)) or \
                x.id == tname or x.id in mapping or x.id in f.params:
            continue
        defs = reaching_defs(g, x.id, node.id)
        vals = [v for dn, v in defs]
        dep = [v for v in vals if v is not None and reads_name(v, tname)]
        if not dep:
            continue
        rest = [v for v in vals if not any(v is d for d in dep)]
        if len(dep) != 1 or any(not (isinstance(v, ast.Constant) and
                                     not v.value) for v in rest):
            raise AnalysisError(
                'UNRECOGNISED-IDIOM %s: `%s` in the test `%s` is computed '
                'from the timeout in a way the recogniser does not follow'
                % (f.where, x.id, short(atom, 60)))
        mapping[x.id] = dep[0]
        for dn, v in defs:
            if v is dep[0]:
                for sub in ast.walk(v):      # (kept by the copy `substitute`
                    sub._c15_at = dn.id      #  makes: see _linear)
        if val == 'zero':
            dn = [d for d, v in defs if v is dep[0]][0]
            if any(lab == 'T' and isinstance(g.nodes[t].ast, ast.Name) and
                   g.nodes[t].ast.id == tname for t, lab in guards(g, dn.id)):
                if not rest:
                    raise AnalysisError(
                        'UNRECOGNISED-IDIOM %s: `%s` in the test `%s` is only '
                        'defined when a timeout is given' % (f.where, x.id,
                                                             short(atom, 60)))
                mapping[x.id] = rest[0]
    return substitute(atom, mapping) if mapping else atom


def _const_atom(atom):
    """truth of a test over constants only (what `_timeout_view` leaves of a
    test on a deadline that was not computed): True / False / None"""
    if isinstance(atom, ast.Constant):
        return bool(atom.value)
    if isinstance(atom, ast.Compare) and len(atom.ops) == 1 and \
            isinstance(atom.left, ast.Constant) and \
            isinstance(atom.comparators[0], ast.Constant):
        a, b = atom.left.value, atom.comparators[0].value
        op = atom.ops[0]
        if isinstance(op, (ast.Is, ast.Eq)) and (a is None or b is None):
            return a is b
        if isinstance(op, (ast.IsNot, ast.NotEq)) and (a is None or b is None):
            return a is not b
    return None


def _timeout_truth(prog, f, g, node, tname, cache, val='pos'):
    """truth of the test of a cfg node once the timeout (of sign `val`) has
    expired (True / False / None: not about the timeout); predicates extracted
    into helpers are looked into"""
    if node.id not in cache:
        atom = _timeout_view(f, g, node, tname, val)
        body = inline_pred(prog, f, atom) if isinstance(atom, ast.Call) \
            else None
        cache[node.id] = atom if body is None else body

    def known(x):
        if val != 'pos':
            tv = _const_atom(x)
            if tv is not None:
                return tv
        return _timeout_atom(f, x, tname, val, (prog, g, node))
    return truth3(cache[node.id], known)


SHRINK_CALLS = ('remove', 'pop', 'popleft', 'discard', 'clear',
                'difference_update', 'intersection_update')


def _shrinks_in_place(g, head):
    """statements of the loop which take members out of a local collection in
    place (the emptiness tracking of the loop interpreter does not model
    them)"""
    out = []
    for n in g.nodes:
        if n.id not in g.loop_body[head] or n.kind != 'stmt' or n.ast is None:
            continue
        for c in calls_in(n.ast):
            if isinstance(c.func, ast.Attribute) and \
                    c.func.attr in SHRINK_CALLS and \
                    isinstance(c.func.value, ast.Name):
                out.append(n)
        if isinstance(n.ast, ast.Delete) and any(
                isinstance(t, ast.Subscript) and isinstance(t.value, ast.Name)
                for t in n.ast.targets):
            out.append(n)
    return out


EMPTY_CALLS = ('list', 'dict', 'set')


def _empty_value(prog, f, value, st, assume, final, aliases):
    """does the assigned value denote an empty collection under the current
    abstract state / assumption"""
    if isinstance(value, (ast.List, ast.Dict, ast.Set)) and not (
            getattr(value, 'elts', None) or getattr(value, 'keys', None)):
        return True
    if isinstance(value, ast.Call) and dotted(value.func) in EMPTY_CALLS:
        if not value.args and not value.keywords:
            return True
        if len(value.args) == 1 and isinstance(value.args[0], ast.Name):
            return value.args[0].id in st
        return False
    if isinstance(value, ast.Name):
        return value.id in st
    if isinstance(value, ast.Call):
        body = inline_pred(prog, f, value, value=True)
        if body is not None:
            return _empty_value(prog, f, body, st, assume, final, aliases)
    if isinstance(value, (ast.ListComp, ast.SetComp, ast.GeneratorExp)) and \
            len(value.generators) == 1:
        gen = value.generators[0]
        if isinstance(gen.iter, ast.Name) and gen.iter.id in st:
            return True
        if assume == 'final':
            for cond in gen.ifs:
                for c, pol in _pred_atoms(prog, f, cond):
                    k = _final_atom(prog, f, c, final, aliases)
                    if (k == -1 and pol) or (k == 1 and not pol):
                        return True        # filter keeps non-final only
    return False


MUT = {'append', 'extend', 'insert', 'add', 'update', 'setdefault',
       'appendleft'}


def loop_has_infinite_path(prog, f, g, head, assume, final, tname,
                           tval='pos'):
    """abstract interpretation of the polling loop under `assume`
    ('final': every awaited entity is in a final state and stays there;
     'timeout': a timeout was given and has expired; `tval` is the sign of
     the value given as timeout - 'pos' for the public API, 'zero' / 'neg'
     for what a delegating caller may hand down, R15.8).
    Returns (witness literals | None, number of product states)"""
    body = g.loop_body[head] | {head}
    aliases = _state_aliases(f, g, head)
    preds = {}
    tviews = {}

    def transfer(node, edge, st):
        if edge.label == 'exc':
            return st
        a = node.ast
        if node.kind == 'test' and edge.label in 'TF':
            want = edge.label == 'T'
            if assume == 'final':
                k = _final_atom(prog, f, a, final, aliases)
                if k and (k == 1) != want:
                    return None
                if not k and isinstance(a, ast.Call):
                    if id(a) not in preds:
                        preds[id(a)] = inline_pred(prog, f, a)
                    body = preds[id(a)]
                    if body is not None:
                        def known(x):
                            kk = _final_atom(prog, f, x, final, aliases)
                            return None if not kk else kk == 1
                        tv = truth3(body, known)
                        if tv is not None and tv != want:
                            return None
            if assume == 'timeout':
                tv = _timeout_truth(prog, f, g, node, tname, tviews, tval)
                if tv is not None and tv != want:
                    return None
            x = None
            if isinstance(a, ast.Name):
                x = a.id
            elif isinstance(a, ast.Call) and dotted(a.func) == 'len' and \
                    len(a.args) == 1 and isinstance(a.args[0], ast.Name):
                x = a.args[0].id
            if x is not None:
                if want and x in st:
                    return None
                if not want and ('true', x) in st:
                    return None
                if not want and x != tname:
                    return st | {x}
            return st
        if node.kind == 'for':
            it = a.iter
            if isinstance(it, ast.Call) and dotted(it.func) in (
                    'list', 'sorted', 'reversed', 'enumerate') and it.args:
                it = it.args[0]
            if edge.label == 'iter' and isinstance(it, ast.Name) and \
                    it.id in st:
                return None
            names = set(stores_in_target(a.target))
            names |= {('true', x) for x in names}
            return st - names if edge.label == 'iter' else st
        if node.kind != 'stmt' or a is None:
            return st
        if isinstance(a, ast.Assign):
            emp = _empty_value(prog, f, a.value, st, assume, final, aliases)
            # a flag: `done = True` / `done = False` steers a later round
            flag = isinstance(a.value, ast.Constant) and (
                isinstance(a.value.value, bool) or a.value.value is None)
            for t in a.targets:
                for name in stores_in_target(t):
                    st = st - {name, ('true', name)}
                    if not isinstance(t, ast.Name):
                        continue
                    if emp or flag and not a.value.value:
                        st = st | {name}
                    elif flag:
                        st = st | {('true', name)}
                if isinstance(t, (ast.Subscript, ast.Attribute)):
                    r = t
                    while isinstance(r, (ast.Subscript, ast.Attribute)):
                        r = r.value
                    if isinstance(r, ast.Name):
                        st = st - {r.id}
            return st
        if isinstance(a, (ast.AugAssign, ast.AnnAssign)):
            r = a.target
            while isinstance(r, (ast.Subscript, ast.Attribute)):
                r = r.value
            if isinstance(r, ast.Name):
                st = st - {r.id, ('true', r.id)}
            return st
        for c in calls_in(a):
            if isinstance(c.func, ast.Attribute) and c.func.attr in MUT and \
                    isinstance(c.func.value, ast.Name):
                st = st - {c.func.value.id}
        return st

    nstates = 0
    s0 = frozenset()
    succ = {}
    wit = {}
    todo = [s0]
    while todo:
        s = todo.pop()
        if s in succ:
            continue
        ex = Exploration(g, head, s, transfer,
                         stop=lambda nid: nid not in body,
                         stop_edge=lambda e: e.back and e.dst == head)
        nstates += ex.states
        succ[s] = set()
        for t in ex.terminals:
            if t.node == head:
                succ[s].add(t.state)
                wit.setdefault((s, t.state), ex.literals(t))
                todo.append(t.state)
    # an infinite path exists iff a cycle is reachable in the head-state graph
    for s in succ:
        seen = set()
        stack = list(succ[s])
        while stack:
            x = stack.pop()
            if x in seen:
                continue
            seen.add(x)
            stack += list(succ.get(x, ()))
        if s in seen:
            # witness: one iteration that stays in the cycle
            for s2 in succ[s]:
                if s2 == s or s in _reach(succ, s2):
                    return wit[(s, s2)], nstates
    return None, nstates


def _reach(succ, s):
    seen = set()
    stack = [s]
    while stack:
        x = stack.pop()
        if x in seen:
            continue
        seen.add(x)
        stack += list(succ.get(x, ()))
    return seen


def _augments_with_final(prog, f, var, final):
    """safety net: the requested-state variable is extended by the final
    states somewhere (a form of the escape the loop recogniser does not
    follow)"""
    for n in walk(f.node):
        if isinstance(n, ast.AugAssign) and isinstance(n.target, ast.Name) \
                and n.target.id == var and \
                contains_final(prog, f, n.value, final):
            return True
        if isinstance(n, ast.Assign) and any(
                isinstance(t, ast.Name) and t.id == var for t in n.targets) \
                and isinstance(n.value, (ast.BinOp, ast.Call)) and \
                contains_final(prog, f, n.value, final) and \
                reads_name(n.value, var):
            return True
        if isinstance(n, ast.Call) and isinstance(n.func, ast.Attribute) and \
                n.func.attr in ('extend', 'update') and \
                isinstance(n.func.value, ast.Name) and \
                n.func.value.id == var and n.args and \
                contains_final(prog, f, n.args[0], final):
            return True
    return False


def _unknown_loop_tests(f, g, head, prog=None):
    """tests inside the loop which call something the recogniser cannot look
    into (a helper deciding about the end of the wait)"""
    out = []
    for n in g.nodes:
        if n.kind != 'test' or n.id not in g.loop_body[head]:
            continue
        for c in calls_in(n.ast):
            d = dotted(c.func)
            last = d.split('.')[-1] if d else ''
            if prog is not None and inline_pred(prog, f, c) is not None:
                continue
            if last in ('is_set', 'isinstance', 'len', 'time', 'get',
                        '_task_state_value', '_pilot_state_value', 'min',
                        'max', 'float', 'int', 'bool'):
                continue
            out.append(n)
    return out


def r15_2(prog, rep, rid='R15.2'):
    rep.rule(rid, 'the polling loop ends once every awaited entity is final '
             '(whatever state was requested) and once the timeout has expired',
             minimum=8)
    final = _final(prog)
    for rel, cname, mname, what in ANCHORS:
        f = prog.method(rel, cname, mname)
        rep.saw(f)
        g = cfg_of(f)
        head = wait_loop(f, g)
        loop = g.loop_ast[head]
        tname = 'timeout'
        if tname not in f.params:
            raise AnalysisError('anchor %s has no parameter `timeout`'
                                % f.where)
        other = 'FAILED' if what == 'task' else 'CANCELED'
        asked = 'DONE' if what == 'task' else 'PMGR_ACTIVE'
        for assume in ('final', 'timeout'):
            wit, n = loop_has_infinite_path(prog, f, g, head, assume, final,
                                            tname)
            rep.stat('paths', n)
            if assume == 'final':
                text = '%s: no infinite path through the polling loop once ' \
                       'the awaited %s(s) are final' % (f.qual, what)
                if wit is not None:
                    pname, var, _ = normalisation(prog, f, g, head)
                    unk = _unknown_loop_tests(f, g, head, prog)
                    shr = _shrinks_in_place(g, head)
                    if shr:
                        raise AnalysisError(
                            'UNRECOGNISED-IDIOM %s: the polling loop has no '
                            'recognisable exit on a final state, but it takes '
                            'entities off a list in place (`%s`), which the '
                            'loop interpreter does not model'
                            % (f.where, short(shr[0].ast, 60)))
                    if _augments_with_final(prog, f, var, final) or unk:
                        raise AnalysisError(
                            'UNRECOGNISED-IDIOM %s: the polling loop has no '
                            'recognisable exit on a final state, but %s'
                            % (f.where, 'the requested states are extended '
                               'by the final states' if not unk else
                               'it tests `%s`' % short(unk[0].ast, 60)))
                    rep.bad(rid, f, 'while %s' % unparse(loop.test),
                            '%s: the polling loop can run forever although '
                            'the awaited %s is in a final state: no exit of '
                            'the loop is taken on `<%s>.state in rps.FINAL`; '
                            'a final state never changes, so a requested '
                            'state that was not reached is never reached'
                            % (f.qual, what, what), f.loc(loop),
                            history='%s.%s(rps.%s) without timeout and the %s '
                            'ends %s: the call never returns'
                            % (cname, mname, asked, what, other), path=wit)
                else:
                    rep.ok(rid, f, text, f.loc(loop))
            else:
                text = '%s: no infinite path through the polling loop once ' \
                       'the timeout has expired' % f.qual
                if wit is not None:
                    rep.bad(rid, f, 'timeout exit of: while %s'
                            % unparse(loop.test),
                            '%s: the polling loop has a path from its head '
                            'back to its head on which an expired timeout is '
                            'not tested, or is tested with the wrong '
                            'orientation (the test must become true as time '
                            'goes on: timeout <= NOW - START, with START the '
                            'stamp taken before the loop - not START - NOW, '
                            'not >=, and not a stamp that is taken anew in '
                            'every round, which measures one round only): the '
                            'wait outlasts its timeout'
                            % f.qual, f.loc(loop),
                            history='%s.%s(rps.%s, timeout=1.0) while the %s '
                            'stays in an earlier state: the call does not '
                            'return after one second' % (cname, mname, asked,
                                                         what), path=wit)
                else:
                    rep.ok(rid, f, text, f.loc(loop))


# ------------------------------------------------------------------------------
# R15.3  returns read the actual state
#
def _defs_reaching(g, name, target):
    """assignment nodes of `name` which reach cfg node `target`"""
    defs = [n for n in g.nodes if name in stores_of(n)]
    out = []
    for d in defs:
        others = {o.id for o in defs if o is not d}
        r = g.reachable(succ_ids(g, d.id), skip_nodes=others - {target})
        if target in r:
            out.append(d)
    # undefined on some path (parameter / never assigned)?
    r = g.reachable(g.entry.id, skip_nodes={d.id for d in defs} - {target})
    return out, target in r


def _is_state_read(value):
    if isinstance(value, ast.Attribute) and value.attr in STATE_ATTRS:
        return True
    if isinstance(value, (ast.ListComp, ast.List, ast.Tuple)):
        elts = [value.elt] if isinstance(value, ast.ListComp) else value.elts
        return bool(elts) and all(isinstance(e, ast.Attribute) and
                                  e.attr in STATE_ATTRS for e in elts)
    return False


def _filled_by_state_reads(g, name, dn, val):
    """`name = list()` / `[]` at cfg node dn, then only `name.append(<state
    read>)` before any other definition (the loop form of a comprehension of
    state reads): [an equivalent list expression, appending node ids...];
    else []"""
    if not (isinstance(val, (ast.List, ast.Call)) and (
            isinstance(val, ast.List) and not val.elts or
            isinstance(val, ast.Call) and dotted(val.func) == 'list' and
            not val.args and not val.keywords)):
        return []
    others = {n.id for n in g.nodes if name in stores_of(n)} - {dn.id}
    live = g.reachable(succ_ids(g, dn.id), skip_nodes=others)
    reads, nodes = [], []
    for n in g.nodes:
        if n.id not in live or n.kind != 'stmt' or n.ast is None:
            continue
        for c in calls_in(n.ast):
            if isinstance(c.func, ast.Attribute) and \
                    isinstance(c.func.value, ast.Name) and \
                    c.func.value.id == name and c.func.attr in MUT:
                if c.func.attr != 'append' or len(c.args) != 1:
                    return []
                reads.append(c.args[0])
                nodes.append(n.id)
    if not reads:
        return []
    return [ast.List(elts=reads, ctx=ast.Load())] + nodes


# --- R15.3: a returned value that is looked up in a local memo of state reads -
#
def _memo_writes(g, name):
    """the values stored into the local container `name` anywhere in the
    function: [(cfg node id, value expr)]; None when `name` is bound or filled
    in a way that is not followed (an alias, a call result, `+=`)"""
    out = []
    for n in g.nodes:
        a = n.ast
        if a is None:
            continue
        if n.kind == 'for' and name in stores_in_target(a.target):
            return None
        if n.kind == 'with' and any(
                i.optional_vars is not None and
                name in stores_in_target(i.optional_vars) for i in a.items):
            return None
        if n.kind != 'stmt':
            continue
        if isinstance(a, (ast.AugAssign, ast.AnnAssign)) and \
                name in stores_in_target(a.target):
            return None
        if isinstance(a, ast.Assign):
            for t in a.targets:
                if isinstance(t, ast.Name) and t.id == name:
                    v = a.value
                    if isinstance(v, ast.Dict):
                        if any(k is None for k in v.keys):
                            return None
                        out += [(n.id, x) for x in v.values]
                    elif isinstance(v, ast.DictComp):
                        out.append((n.id, v.value))
                    elif isinstance(v, (ast.ListComp, ast.SetComp)):
                        out.append((n.id, v.elt))
                    elif isinstance(v, (ast.List, ast.Tuple, ast.Set)):
                        out += [(n.id, x) for x in v.elts]
                    elif isinstance(v, ast.Call) and dotted(v.func) in (
                            'dict', 'list', 'set') and not v.args and \
                            not v.keywords:
                        pass
                    else:
                        return None
                elif isinstance(t, ast.Subscript) and \
                        isinstance(t.value, ast.Name) and t.value.id == name:
                    out.append((n.id, a.value))
                elif name in stores_in_target(t):
                    return None
        for c in calls_in(a):
            fn = c.func
            if not (isinstance(fn, ast.Attribute) and
                    isinstance(fn.value, ast.Name) and fn.value.id == name):
                continue
            if fn.attr in ('append', 'add') and len(c.args) == 1:
                out.append((n.id, c.args[0]))
            elif fn.attr == 'setdefault' and len(c.args) == 2:
                out.append((n.id, c.args[1]))
            elif fn.attr == 'insert' and len(c.args) == 2:
                out.append((n.id, c.args[1]))
            elif fn.attr in ('update', 'extend'):
                if len(c.args) != 1 or c.keywords:
                    return None
                v = c.args[0]
                if isinstance(v, ast.Dict) and \
                        not any(k is None for k in v.keys):
                    out += [(n.id, x) for x in v.values]
                elif isinstance(v, ast.DictComp):
                    out.append((n.id, v.value))
                elif isinstance(v, (ast.ListComp, ast.GeneratorExp)):
                    out.append((n.id, v.elt))
                elif isinstance(v, (ast.List, ast.Tuple)):
                    out += [(n.id, x) for x in v.elts]
                else:
                    return None
    return out


def _value_sources(f, g, e, at, depth=0):
    """the state reads the value of `e` (evaluated at cfg node `at`) can come
    from, through locals, `a if c else b` / `a or b`, and look-ups in a local
    memo (`D[k]`, `D.get(k, default)`: whatever was stored into D, and the
    default): [(cfg node id of the read, read expr)]; None if not followed"""
    from ..flow import reaching_defs
    if depth > 6:
        return None
    if isinstance(e, ast.Attribute) and e.attr in STATE_ATTRS:
        return [(at, e)]
    if isinstance(e, ast.Constant):
        return []
    if isinstance(e, ast.IfExp):
        parts = [e.body, e.orelse]
    elif isinstance(e, ast.BoolOp):
        parts = e.values
    else:
        parts = None
    if parts is not None:
        out = []
        for p in parts:
            s = _value_sources(f, g, p, at, depth + 1)
            if s is None:
                return None
            out += s
        return out
    memo, default = None, None
    if isinstance(e, ast.Call) and isinstance(e.func, ast.Attribute) and \
            e.func.attr == 'get' and isinstance(e.func.value, ast.Name) and \
            1 <= len(e.args) <= 2 and not e.keywords:
        memo = e.func.value.id
        default = e.args[1] if len(e.args) == 2 else None
    elif isinstance(e, ast.Subscript) and isinstance(e.value, ast.Name) and \
            not isinstance(e.slice, ast.Slice):
        memo = e.value.id
    if memo is not None:
        if memo in f.params:
            return None
        writes = _memo_writes(g, memo)
        if not writes:
            return None
        out = []
        for nid, v in writes:
            s = _value_sources(f, g, v, nid, depth + 1)
            if s is None:
                return None
            out += s
        if default is not None:
            s = _value_sources(f, g, default, at, depth + 1)
            if s is None:
                return None
            out += s
        return out
    if isinstance(e, ast.Name) and e.id not in f.params:
        defs = reaching_defs(g, e.id, at)
        if not defs or any(v is None for dn, v in defs):
            return None
        out = []
        for dn, v in defs:
            s = _value_sources(f, g, v, dn.id, depth + 1)
            if s is None:
                return None
            out += s
        return out
    return None


def _derived_reads(f, g, val, at, nodes=()):
    """`val` (the returned expression, or the definition of the returned
    local; for a list filled by an append loop the equivalent list with the
    appending cfg `nodes`) is not a plain state read: the state reads its
    value - or each of its elements - comes from, [(cfg node id, read)], or
    None when it is not built from state reads in a way that is followed"""
    if isinstance(val, ast.ListComp):
        if len(val.generators) != 1:
            return None
        items = [(val.elt, at)]
    elif isinstance(val, (ast.List, ast.Tuple)):
        if not val.elts:
            return None
        at_nodes = list(nodes) if len(nodes) == len(val.elts) \
            else [at] * len(val.elts)
        items = list(zip(val.elts, at_nodes))
    else:
        items = [(val, at)]
    out = []
    for e, nid in items:
        s = _value_sources(f, g, e, nid)
        if not s:
            return None
        out += s
    return out


def _stale_why(what, f, g, head, old):
    """message part for a returned value with out-of-date sources"""
    nid, e = old[0]
    n = g.nodes[nid]
    where = 'inside' if nid in g.loop_body[head] or nid == head else 'before'
    stmt = n.ast if n.kind == 'stmt' else e
    return 'returns %s, which can be the state `%s` that was read %s the ' \
        'polling loop and remembered (`%s`): it is not read again when the ' \
        'wait ends' % (what, short(e, 30), where, short(stmt, 50))


def _stale_reads(g, head, srcs):
    """the state reads among `srcs` that are made before or inside the polling
    loop: what they saw can be out of date when the function returns"""
    return [(nid, e) for nid, e in srcs if head in g.reachable(nid)]


# --- R15.3, second clause: the returned list is index-aligned with the uids ---
#
# methods / functions which change the order or the length of a list in place
REORDER_METHODS = ('sort', 'reverse', 'pop', 'remove', 'insert', 'clear',
                   'append', 'extend')
REORDER_FUNCS   = ('shuffle', 'heapify', 'heappush', 'heappop', 'heapreplace')
ORDER_KEEPING   = ('list', 'tuple')
ORDER_LOSING    = ('sorted', 'reversed', 'set', 'frozenset')

UIDS = 'uids'                       # parameter name (public API)


def _node_exprs(n):
    """the expressions a cfg node evaluates itself (not its nested blocks)"""
    a = n.ast
    if a is None:
        return []
    if n.kind == 'stmt':
        return [a]
    if n.kind == 'for':
        return [a.iter]
    if n.kind == 'with':
        return [i.context_expr for i in a.items]
    if n.kind in ('test', 'while'):
        return [a.test] if isinstance(a, (ast.While, ast.If)) else [a]
    return []


def _changes_in_place(n, names):
    """how cfg node n changes the order / the length / an element of a list
    bound to one of `names`, in place ('' if it does not)"""
    for x in _node_exprs(n):
        for c in calls_in(x):
            fn = c.func
            if isinstance(fn, ast.Attribute) and fn.attr in REORDER_METHODS \
                    and isinstance(fn.value, ast.Name) and fn.value.id in names:
                return '`%s`' % short(c, 40)
            if dotted(fn).split('.')[-1] in REORDER_FUNCS and c.args and \
                    isinstance(c.args[0], ast.Name) and c.args[0].id in names:
                return '`%s`' % short(c, 40)
        if n.kind != 'stmt':
            continue
        tgts = []
        if isinstance(x, ast.Assign):
            tgts = [e for t in x.targets for e in (
                t.elts if isinstance(t, (ast.Tuple, ast.List)) else [t])]
        elif isinstance(x, ast.AugAssign):
            tgts = [x.target]
            if isinstance(x.target, ast.Name) and x.target.id in names:
                return '`%s`' % short(x, 40)       # L += [..] / L *= 2
        elif isinstance(x, ast.Delete):
            tgts = x.targets
        for t in tgts:
            if isinstance(t, ast.Subscript) and \
                    isinstance(t.value, ast.Name) and t.value.id in names:
                return '`%s`' % short(x, 40)
    return ''


def _full_slice(sl):
    """True / False / None (not decidable) - the slice takes everything"""
    def const(e):
        if e is None:
            return None
        if isinstance(e, ast.Constant) and isinstance(e.value, int):
            return e.value
        if isinstance(e, ast.UnaryOp) and isinstance(e.op, ast.USub) and \
                isinstance(e.operand, ast.Constant) and \
                isinstance(e.operand.value, int):
            return -e.operand.value
        return UNKNOWN
    lo, up, st = const(sl.lower), const(sl.upper), const(sl.step)
    if lo in (None, 0) and up is None and st in (None, 1):
        return True
    if lo is UNKNOWN or up is UNKNOWN or st is UNKNOWN:
        return None
    return False


def _uid_domain(f, g, head, it, at, depth=0):
    """is iterating `it` at cfg node `at` a walk over the awaited uids, all of
    them, in the order the caller gave?  ('aligned' | 'broken' | 'unknown',
    why)"""
    if depth > 6:
        return 'unknown', 'definition chain too long'
    if isinstance(it, ast.Call) and not it.keywords and len(it.args) == 1 \
            and isinstance(it.func, ast.Name) and \
            not isinstance(it.args[0], ast.Starred):
        if it.func.id in ORDER_KEEPING:
            return _uid_domain(f, g, head, it.args[0], at, depth + 1)
        if it.func.id in ORDER_LOSING:
            k, why = _uid_domain(f, g, head, it.args[0], at, depth + 1)
            if k == 'aligned':
                return 'broken', 'walks `%s`, which is not in the order of ' \
                    'the uids the caller gave' % short(it, 40)
            return k, why
    if isinstance(it, ast.Call) and isinstance(it.func, ast.Attribute) and \
            it.func.attr == 'copy' and not it.args and not it.keywords:
        return _uid_domain(f, g, head, it.func.value, at, depth + 1)
    if isinstance(it, ast.Subscript) and isinstance(it.slice, ast.Slice):
        k, why = _uid_domain(f, g, head, it.value, at, depth + 1)
        if k != 'aligned':
            return k, why
        full = _full_slice(it.slice)
        if full:
            return k, why
        if full is None:
            return 'unknown', 'extent of the slice `%s`' % short(it, 40)
        return 'broken', 'walks `%s`, which leaves out some of the uids' \
            % short(it, 40)
    if not isinstance(it, ast.Name):
        return 'unknown', '`%s`' % short(it, 40)
    defs, undefined = _defs_reaching(g, it.id, at)
    if it.id == UIDS and UIDS in f.params:
        # the awaited uids; re-binding it to a re-ordered / partial copy of
        # itself loses the caller's order (anything else - `[uids]`, the keys
        # of all entities when none was named - defines the order)
        for dn in defs:
            val = dn.ast.value if dn.kind == 'stmt' and \
                isinstance(dn.ast, ast.Assign) else None
            if val is None or not reads_name(val, UIDS) or \
                    isinstance(val, ast.Name):
                continue
            k, why = _uid_domain(f, g, head, val, dn.id, depth + 1)
            if k == 'broken':
                return k, '`%s` (%s)' % (short(dn.ast, 40), why)
        return 'aligned', ''
    if head is not None and it.id in flows_to(f, g, head,
                                              pending_vars(f, g, head)):
        return 'broken', 'walks the check list `%s`, which only holds the ' \
            'entities that are still waited for' % it.id
    if undefined or len(defs) != 1:
        return 'unknown', '%d definitions of `%s`' % (len(defs), it.id)
    dn = defs[0]
    val = dn.ast.value if dn.kind == 'stmt' and \
        isinstance(dn.ast, ast.Assign) else None
    if isinstance(val, ast.ListComp) and len(val.generators) == 1:
        gen = val.generators[0]
        k, why = _uid_domain(f, g, head, gen.iter, dn.id, depth + 1)
        if k != 'aligned':
            return k, why
        if gen.ifs:
            return 'broken', '`%s` filters the uids' % short(dn.ast, 50)
        if not any(reads_name(val.elt, t)
                   for t in stores_in_target(gen.target)):
            return 'unknown', '`%s`' % short(dn.ast, 50)
        return 'aligned', ''
    if val is not None and (isinstance(val, ast.Name) or
                            _copy_source(val) is not val):
        return _uid_domain(f, g, head, val, dn.id, depth + 1)
    return 'unknown', '`%s`' % short(dn.ast, 50)


def _alignment(f, g, head, name, dn, val, filled, ret):
    """the list `name` defined at cfg node dn by per-uid state reads (`val`: a
    comprehension, or the list equivalent to an append loop, `filled`) and
    returned at cfg node `ret`: [(True | False | None, why)]"""
    out = []
    # (a) the reads walk the awaited uids, all of them, in order, and each
    #     element is the state of the entity of that round
    if isinstance(val, ast.ListComp):
        if len(val.generators) != 1:
            return [(None, 'nested comprehension')]
        gen = val.generators[0]
        k, why = _uid_domain(f, g, head, gen.iter, dn.id)
        if k == 'aligned' and gen.ifs:
            k, why = 'broken', 'the comprehension filters the uids (`if ' \
                '%s`)' % short(gen.ifs[0], 40)
        if k == 'aligned' and not any(reads_name(val.elt, t)
                                      for t in stores_in_target(gen.target)):
            k, why = 'broken', 'the state read `%s` does not depend on the ' \
                'loop variable' % short(val.elt, 40)
    elif filled:
        from ..flow import loop_slice
        apps = filled[1:]
        loops = {g.nodes[a].loops[-1] if g.nodes[a].loops else None
                 for a in apps}
        h = loops.pop() if len(loops) == 1 else None
        if h is None or g.nodes[h].kind != 'for' or \
                dn.id in g.loop_body[h] or dn.id == h:
            return [(None, 'the appends which fill `%s` are not in one '
                     '`for` loop' % name)]
        hn = g.nodes[h]
        k, why = _uid_domain(f, g, head, hn.ast.iter, h)
        if k == 'aligned':
            start, stop, stop_edge = loop_slice(g, h)
            todo, seen, skipped = [start], set(), False
            while todo and not skipped:
                x = todo.pop()
                if x in seen or x in apps:
                    continue
                seen.add(x)
                for e in g.succ[x]:
                    if e.label == 'exc':
                        continue
                    if stop_edge(e) or (stop(e.dst) and
                                        g.nodes[e.dst].kind != 'raise'):
                        skipped = True
                    elif not stop(e.dst):
                        todo.append(e.dst)
            if skipped:
                k, why = 'broken', 'a round of the loop over the uids can ' \
                    'end without appending a state to `%s`' % name
        if k == 'aligned':
            tg = set(stores_in_target(hn.ast.target))
            grew = True              # locals of the round computed from it
            while grew:
                grew = False
                for x in g.loop_body[h]:
                    xn = g.nodes[x]
                    if xn.kind == 'stmt' and isinstance(xn.ast, ast.Assign) \
                            and any(reads_name(xn.ast.value, t) for t in tg) \
                            and not set(stores_of(xn)) <= tg:
                        tg |= set(stores_of(xn))
                        grew = True
            for e in val.elts:
                if not any(reads_name(e, t) for t in tg):
                    k, why = 'broken', 'the state read `%s` does not ' \
                        'depend on the loop variable' % short(e, 40)
    else:
        return [(None, 'a literal list of state reads')]
    out.append(({'aligned': True, 'broken': False}.get(k), why))
    # (b) nothing re-orders / resizes the list in place between the reads and
    #     the return
    others = {n.id for n in g.nodes if name in stores_of(n)} - {dn.id}
    live = g.reachable(succ_ids(g, dn.id), skip_nodes=others)
    names = {name}
    grew = True
    while grew:
        grew = False
        for n in g.nodes:
            if n.id in live and n.kind == 'stmt' and \
                    isinstance(n.ast, ast.Assign) and \
                    isinstance(n.ast.value, ast.Name) and \
                    n.ast.value.id in names:
                for t in n.ast.targets:
                    if isinstance(t, ast.Name) and t.id not in names:
                        names.add(t.id)
                        grew = True
    for n in g.nodes:
        if n.id not in live or n.id in filled[1:] or n.id == ret.id:
            continue
        how = _changes_in_place(n, names)
        if how and ret.id in g.reachable(succ_ids(g, n.id),
                                         skip_nodes=others):
            out.append((False, '%s changes the list in place after the '
                        'per-uid state reads' % how))
    return out


def r15_3(prog, rep, rid='R15.3'):
    rep.rule(rid, 'every return of the wait functions returns the current '
             'state(s) of the awaited entities; the list returned by '
             'wait_tasks / wait_pilots holds one state per awaited uid, in '
             'the order of the uids (nothing re-orders, filters or resizes '
             'it between the per-uid state reads and the return)', minimum=8)
    for rel, cname, mname, what in ANCHORS:
        f = prog.method(rel, cname, mname)
        rep.saw(f)
        g = cfg_of(f)
        head = wait_loop(f, g)
        rets = [n for n in g.nodes if n.kind == 'stmt' and
                isinstance(n.ast, ast.Return)]
        if not rets:
            raise AnalysisError('UNRECOGNISED-IDIOM %s: no return statement'
                                % f.where)
        alts = []
        for n in rets:
            vals = [n.ast.value]
            while any(isinstance(x, ast.IfExp) for x in vals):
                vals = [y for x in vals for y in (
                    [x.body, x.orelse] if isinstance(x, ast.IfExp) else [x])]
            alts += [(n, x) for x in vals]
        for n, v in alts:
            okay, why = None, ''
            aligned = []             # verdicts of the second clause
            whole = f.name in MANAGER_WAITS and (
                isinstance(v, ast.Name) or isinstance(v, ast.Subscript) and
                isinstance(v.slice, ast.Slice) and _full_slice(v.slice))
            if v is None or isinstance(v, ast.Constant):
                okay, why = False, 'returns %s' % (
                    'nothing (None)' if v is None else unparse(v))
            elif _is_state_read(v):
                okay = True
            elif not isinstance(v, (ast.Name, ast.Subscript)) and \
                    _derived_reads(f, g, v, n.id):
                old = _stale_reads(g, head, _derived_reads(f, g, v, n.id))
                okay = not old
                if old:
                    why = _stale_why('`%s`' % short(v, 40), f, g, head, old)
            else:
                base = v
                if isinstance(base, ast.Subscript):
                    base = base.value
                if isinstance(base, ast.Name):
                    defs, undefined = _defs_reaching(g, base.id, n.id)
                    verdicts = []
                    if undefined:
                        verdicts.append((False, 'returns %r, which is not '
                                         'assigned from a state read on some '
                                         'path' % base.id))
                    for dn in defs:
                        val = dn.ast.value if dn.kind == 'stmt' and \
                            isinstance(dn.ast, ast.Assign) else None
                        filled = _filled_by_state_reads(g, base.id, dn, val)
                        if filled:
                            val = filled[0]
                        if val is not None and _is_state_read(val):
                            stale = any(head in g.reachable(x)
                                        for x in [dn.id] + filled[1:])
                            if stale:
                                verdicts.append((False, 'returns %r, read '
                                                 'before the polling loop (a '
                                                 'stale state)' % base.id))
                            else:
                                verdicts.append((True, ''))
                            if whole and not isinstance(val, ast.Attribute):
                                aligned += _alignment(f, g, head, base.id, dn,
                                                      val, filled, n)
                        elif val is not None and _derived_reads(
                                f, g, val, dn.id, filled[1:]):
                            old = _stale_reads(g, head, _derived_reads(
                                f, g, val, dn.id, filled[1:]))
                            if old:
                                verdicts.append((False, _stale_why(
                                    repr(base.id), f, g, head, old)))
                            else:
                                verdicts.append((True, ''))
                            if whole and (filled or
                                          isinstance(val, ast.ListComp)):
                                aligned += _alignment(f, g, head, base.id, dn,
                                                      val, filled, n)
                        elif val is not None and not reads_state_attr(val):
                            verdicts.append((False, 'returns %r = `%s`, which '
                                             'is not a state read'
                                             % (base.id, short(val, 40))))
                        else:
                            verdicts.append((None, short(dn.ast, 60)))
                    if any(x[0] is False for x in verdicts):
                        okay = False
                        why = [x[1] for x in verdicts if x[0] is False][0]
                    elif verdicts and all(x[0] for x in verdicts):
                        okay = True
                    else:
                        okay = None
                        why = verdicts[0][1] if verdicts else unparse(v)
                elif not reads_state_attr(v):
                    okay, why = False, 'returns `%s`, which is not a state ' \
                        'read' % short(v, 40)
            if okay is None:
                raise AnalysisError('UNRECOGNISED-IDIOM %s: cannot relate the '
                                    'returned value `%s` to a state read (%s)'
                                    % (f.where, short(n.ast, 60), why))
            cons = n.ast if v is n.ast.value else 'return %s' % unparse(v)
            rep.check(okay, rid, f,
                      '%s: `%s` returns the current state' % (f.qual,
                                                              short(cons, 50)),
                      construct=cons,
                      message='%s: %s - the caller is told a state that is '
                      'not the actual state of the %s' % (f.qual, why, what),
                      loc=f.loc(n.ast),
                      history='%s.%s(): the caller receives a value that is '
                      'not the %s\'s state at the time of return' % (
                          cname, mname, what) if v is not None else
                      '%s.%s(rps.DONE) on a %s that already is DONE returns '
                      'None instead of \'DONE\'' % (cname, mname, what))
            if not whole or not okay:
                continue
            # second clause: the i-th returned state is that of the i-th uid
            if not aligned or any(x[0] is None for x in aligned):
                raise AnalysisError(
                    'UNRECOGNISED-IDIOM %s: cannot relate the order of the '
                    'returned list `%s` to the awaited uids (%s)' % (
                        f.where, short(n.ast, 60),
                        '; '.join(x[1] for x in aligned if x[0] is None)
                        or 'no per-uid state read'))
            bad = [x[1] for x in aligned if x[0] is False]
            rep.check(not bad, rid, f,
                      '%s: `%s` returns one state per awaited uid, in the '
                      'order of the uids' % (f.qual, short(cons, 50)),
                      construct='index-aligned with the uids: %s' % (
                          cons if isinstance(cons, str) else unparse(cons)),
                      message='%s: the list returned by `%s` is not '
                      'index-aligned with the awaited uids: %s - the i-th '
                      'returned state is not the state of the i-th %s, states '
                      'are attributed to the wrong %ss' % (
                          f.qual, short(cons, 50), '; '.join(bad), what, what),
                      loc=f.loc(n.ast),
                      history='%s.%s([u0, u1]) with u0 FAILED and u1 DONE: '
                      'the caller pairs the uids with the returned list and '
                      'reads a state that belongs to another %s (e.g. '
                      '[\'DONE\', \'FAILED\'])' % (cname, mname, what))


# ------------------------------------------------------------------------------
# finite-domain evaluation of tests on a state (shared with C13)
#
class Uneval(Exception):
    pass


def single_assign(f, name):
    """value expression of a local name that is assigned exactly once in the
    function (and is neither a parameter nor a loop / with / except target)"""
    if name in f.params:
        return None
    cache = f.__dict__.setdefault('_single_assign', {})
    if not cache:
        # name -> [value expressions] | None (bound in another way)
        def bind(t, value):
            for nm in stores_in_target(t):
                if value is None or not isinstance(t, ast.Name) or \
                        cache.get(nm, []) is None:
                    cache[nm] = None
                else:
                    cache.setdefault(nm, []).append(value)
        for n in walk(f.node):
            if isinstance(n, ast.Assign):
                for t in n.targets:
                    bind(t, n.value)
            elif isinstance(n, (ast.AugAssign, ast.AnnAssign, ast.NamedExpr)):
                bind(n.target, None)
            elif isinstance(n, (ast.For, ast.comprehension)):
                bind(n.target, None)
            elif isinstance(n, ast.withitem) and n.optional_vars is not None:
                bind(n.optional_vars, None)
        cache[''] = None
    vals = cache.get(name)
    return vals[0] if vals and len(vals) == 1 else None


class StateEval:
    """evaluates an expression for one concrete entity state; `is_state(e)`
    tells which sub-expressions denote that state, `names` binds local names
    to concrete values; state value tables are folded from states.py"""

    def __init__(self, prog, f, is_state, names=None, resolve=None):
        self.resolve = resolve
        self.prog = prog
        self.f = f
        self.is_state = is_state
        self.names = dict(names or {})
        self.state = None
        self._folded = {}
        self.tables = {
            '_task_state_value' : prog.const('states.py', '_task_state_values'),
            '_pilot_state_value': prog.const('states.py', '_pilot_state_values'),
        }

    def ev(self, e):
        if self.is_state(e):
            return self.state
        if isinstance(e, ast.Name) and e.id in self.names:
            return self.names[e.id]
        if isinstance(e, ast.Constant):
            return e.value
        k = id(e)
        if k not in self._folded:
            self._folded[k] = self.prog.fold(self.f.module, e, self.f.cls)
        v = self._folded[k]
        if v is not UNKNOWN:
            return v
        if isinstance(e, ast.Name) and self.resolve is not None:
            d = self.resolve(e.id)
            if d is not None:
                return self.ev(d)
        try:
            if isinstance(e, ast.Call):
                fn = dotted(e.func).split('.')[-1]
                args = [self.ev(a) for a in e.args]
                if fn in self.tables and len(args) == 1:
                    return self.tables[fn][args[0]]
                if fn in ('min', 'max') and args:
                    return (min if fn == 'min' else max)(
                        args if len(args) > 1 else args[0])
                if fn == 'len' and len(args) == 1:
                    return len(args[0])
                if e.keywords:
                    raise Uneval(unparse(e))
                # plain copies / re-orderings of a concrete collection and
                # the index domains a loop may run over: evaluated, so that
                # the DOMAIN a fold iterates (`states[1:]`, `range(len(s) -
                # 1)`, `sorted(states)`) is decided and not assumed
                if isinstance(e.func, ast.Name) and len(args) == 1 and \
                        isinstance(args[0], (list, tuple, set, frozenset,
                                             range)):
                    if fn in ('list', 'tuple'):
                        return list(args[0])
                    if fn in ('set', 'frozenset'):
                        return list(dict.fromkeys(args[0]))
                    if fn == 'sorted':
                        return sorted(args[0])
                    if fn == 'reversed':
                        return list(reversed(list(args[0])))
                    if fn == 'enumerate':
                        return [[i, x] for i, x in enumerate(args[0])]
                if isinstance(e.func, ast.Name) and fn == 'range' and \
                        1 <= len(args) <= 3 and all(
                            isinstance(a, int) and not isinstance(a, bool)
                            for a in args):
                    return list(range(*args))
                if isinstance(e.func, ast.Attribute) and fn == 'copy' and \
                        not args:
                    v = self.ev(e.func.value)
                    if isinstance(v, (list, tuple)):
                        return list(v)
                raise Uneval(unparse(e))
            if isinstance(e, ast.Slice):
                return slice(*[None if x is None else self.ev(x)
                               for x in (e.lower, e.upper, e.step)])
            if isinstance(e, ast.Subscript):
                return self.ev(e.value)[self.ev(e.slice)]
            if isinstance(e, (ast.List, ast.Tuple, ast.Set)):
                return [self.ev(x) for x in e.elts]
            if isinstance(e, (ast.ListComp, ast.GeneratorExp, ast.SetComp)) \
                    and len(e.generators) == 1 and \
                    isinstance(e.generators[0].target, ast.Name):
                gen = e.generators[0]
                out = []
                tn = gen.target.id
                saved = self.names.get(tn, Uneval)
                try:
                    for item in self.ev(gen.iter):
                        self.names[tn] = item
                        if all(self.ev(c) for c in gen.ifs):
                            out.append(self.ev(e.elt))
                finally:
                    if saved is Uneval:
                        self.names.pop(tn, None)
                    else:
                        self.names[tn] = saved
                return out
            if isinstance(e, ast.UnaryOp) and isinstance(e.op, ast.Not):
                return not self.ev(e.operand)
            if isinstance(e, ast.BinOp) and isinstance(e.op, (ast.Add,
                                                              ast.Sub)):
                l, r = self.ev(e.left), self.ev(e.right)
                return l + r if isinstance(e.op, ast.Add) else l - r
            if isinstance(e, ast.BoolOp):
                vals = [self.ev(x) for x in e.values]
                return all(vals) if isinstance(e.op, ast.And) else any(vals)
            if isinstance(e, ast.Compare):
                left = self.ev(e.left)
                for op, r in zip(e.ops, e.comparators):
                    right = self.ev(r)
                    res = {ast.Lt: lambda a, b: a < b,
                           ast.LtE: lambda a, b: a <= b,
                           ast.Gt: lambda a, b: a > b,
                           ast.GtE: lambda a, b: a >= b,
                           ast.Eq: lambda a, b: a == b,
                           ast.NotEq: lambda a, b: a != b,
                           ast.Is: lambda a, b: a is b or a == b,
                           ast.IsNot: lambda a, b: not (a is b or a == b),
                           ast.In: lambda a, b: a in b,
                           ast.NotIn: lambda a, b: a not in b,
                           }[type(op)](left, right)
                    if not res:
                        return False
                    left = right
                return True
        except (KeyError, IndexError, TypeError) as ex:
            raise Uneval('%s: %s' % (unparse(e), ex))
        raise Uneval(unparse(e))

    def holds(self, atom, state):
        self.state = state
        return bool(self.ev(atom))


# ------------------------------------------------------------------------------
# R15.4  the requested state itself satisfies the wait
#
def _conj_atoms(expr, pol=True):
    if isinstance(expr, ast.UnaryOp) and isinstance(expr.op, ast.Not):
        return _conj_atoms(expr.operand, not pol)
    if isinstance(expr, ast.BoolOp):
        if isinstance(expr.op, ast.And) == pol:
            out = []
            for v in expr.values:
                out += _conj_atoms(v, pol)
            return out
        return [(expr, pol)]
    return [(expr, pol)]


class _LoopJump(Exception):
    pass


def _min_var(f, name, var):
    """`name` is folded over the requested states before the wait starts
    (the earliest requested value): assigned once outside of, and otherwise
    only inside ONE `for` loop whose domain is computed from <var> (`for x in
    <var>`, `for x in sorted(<var>)`, `for i in range(len(<var>))`, `for i, x
    in enumerate(<var>)`; body `name = min(name, <table>[x])`, `if <table>[x]
    < name: name = <table>[x]`, ...).  Returns (init expression, the `for`
    statement) or None.  Neither the fold nor its domain is recognised by its
    text: the loop is run for every concrete request by `_run_fold`, so a
    domain that leaves out a requested state (`<var>[1:]`, `<var>[:-1]`,
    `range(1, len(<var>))`) yields the threshold the program would compute"""
    fors = [n for n in walk(f.node) if isinstance(n, ast.For) and
            (isinstance(n.target, ast.Name) or
             isinstance(n.target, (ast.Tuple, ast.List)) and
             all(isinstance(t, ast.Name) for t in n.target.elts)) and
            reads_name(n.iter, var)]
    inside = {}
    for n in fors:
        for b in n.body:
            for x in walk(b):
                inside[id(x)] = n
    init, loops = [], []
    for n in walk(f.node):
        if isinstance(n, ast.Assign):
            for t in n.targets:
                if name in stores_in_target(t):
                    if not isinstance(t, ast.Name):
                        return None
                    if id(n) in inside:
                        loops.append(inside[id(n)])
                    else:
                        init.append(n.value)
        elif isinstance(n, (ast.AugAssign, ast.AnnAssign, ast.NamedExpr,
                            ast.For, ast.comprehension)):
            if name in stores_in_target(n.target):
                return None
        elif isinstance(n, ast.withitem) and n.optional_vars is not None:
            if name in stores_in_target(n.optional_vars):
                return None
    if len(init) != 1 or not loops or any(l is not loops[0] for l in loops):
        return None
    return (init[0], loops[0])


def _run_block(ev, stmts):
    for st in stmts:
        if isinstance(st, ast.If):
            _run_block(ev, st.body if ev.ev(st.test) else st.orelse)
        elif isinstance(st, ast.Assign) and all(isinstance(t, ast.Name)
                                                for t in st.targets):
            v = ev.ev(st.value)
            for t in st.targets:
                ev.names[t.id] = v
        elif isinstance(st, (ast.Expr, ast.Pass)):
            pass                     # log lines, comments
        elif isinstance(st, (ast.Continue, ast.Break)):
            raise _LoopJump(type(st).__name__)
        else:
            raise Uneval(short(st, 50))


def _run_fold(ev, name, fold):
    """run the fold of `name` over the concrete request bound in ev.names"""
    init, loop = fold
    ev.names[name] = ev.ev(init)
    for r in list(ev.ev(loop.iter)):
        if isinstance(loop.target, ast.Name):
            ev.names[loop.target.id] = r
        else:
            if not isinstance(r, (list, tuple)) or \
                    len(r) != len(loop.target.elts):
                raise Uneval('cannot unpack %r into `%s`'
                             % (r, unparse(loop.target)))
            for t, x in zip(loop.target.elts, r):
                ev.names[t.id] = x
        try:
            _run_block(ev, loop.body)
        except _LoopJump as j:
            if j.args[0] == 'Break':
                break
    _run_block(ev, loop.orelse)


def pending_vars(f, g, head):
    """the check list(s) of a manager wait loop: local names whose emptiness
    is a test of the polling loop (`while <P> and ..`, `if not <P>: break`,
    `len(<P>)`) and which are rebuilt or mutated inside the loop"""
    body = g.loop_body[head]
    changed = set()
    for n in g.nodes:
        if n.id not in body or n.ast is None:
            continue
        changed |= set(stores_of(n))
        if n.kind == 'stmt':
            for c in calls_in(n.ast):
                if isinstance(c.func, ast.Attribute) and \
                        isinstance(c.func.value, ast.Name):
                    changed.add(c.func.value.id)
    out = []
    for n in g.nodes:
        if n.kind != 'test' or n.id not in body:
            continue
        a = n.ast
        if isinstance(a, ast.Call) and dotted(a.func) == 'len' and \
                len(a.args) == 1:
            a = a.args[0]
        if isinstance(a, ast.Compare) and len(a.ops) == 1 and \
                isinstance(a.left, ast.Call) and \
                dotted(a.left.func) == 'len' and len(a.left.args) == 1:
            a = a.left.args[0]
        if isinstance(a, ast.Name) and a.id in changed and \
                a.id not in f.params and a.id not in out:
            out.append(a.id)
    return out


def flows_to(f, g, head, targets):
    """names whose value is handed on (plain copy) to one of `targets` inside
    the loop: `P = X`, `P = list(X)`, `P = X[:]`, `P = sorted(X)`, `P = X.copy()`"""
    body = g.loop_body[head]
    out = set(targets)
    grew = True
    while grew:
        grew = False
        for n in g.nodes:
            if n.id not in body or n.kind != 'stmt' or \
                    not isinstance(n.ast, ast.Assign):
                continue
            if not any(isinstance(t, ast.Name) and t.id in out
                       for t in n.ast.targets):
                continue
            src = _copy_source(n.ast.value)
            if isinstance(src, ast.Name) and src.id not in out:
                out.add(src.id)
                grew = True
    return out


COPY_CALLS = ('list', 'tuple', 'set', 'frozenset', 'sorted', 'reversed')


def _copy_source(value):
    """the expression a plain copy takes its members from (itself if the
    value is not a copy)"""
    while True:
        if isinstance(value, ast.Call) and dotted(value.func) in COPY_CALLS \
                and len(value.args) == 1 and \
                not isinstance(value.args[0], ast.Starred):
            value = value.args[0]
        elif isinstance(value, ast.Call) and \
                isinstance(value.func, ast.Attribute) and \
                value.func.attr == 'copy' and not value.args:
            value = value.func.value
        elif isinstance(value, ast.Subscript) and \
                isinstance(value.slice, ast.Slice):
            value = value.value
        else:
            return value


def keep_conditions(f, g, head, prog=None):
    """[(entity variable, [(atom, polarity)], ast)]: conditions under which
    an awaited entity stays on the check list of the polling loop"""
    from ..flow import guards, loop_slice
    body = g.loop_body[head]
    pend = flows_to(f, g, head, pending_vars(f, g, head))
    out = []
    for n in g.nodes:
        if n.id not in body or n.ast is None:
            continue
        if n.kind == 'stmt' and isinstance(n.ast, ast.Assign) and \
                any(isinstance(t, ast.Name) and t.id in pend
                    for t in n.ast.targets):
            v = _copy_source(n.ast.value)
            if isinstance(v, ast.Call) and prog is not None:
                v = inline_pred(prog, f, v, value=True) or v
            if isinstance(v, (ast.ListComp, ast.SetComp, ast.GeneratorExp)) \
                    and len(v.generators) == 1 and \
                    isinstance(v.generators[0].target, ast.Name):
                atoms = []
                for c in v.generators[0].ifs:
                    atoms += _conj_atoms(c)
                out.append((v.generators[0].target.id, atoms, n.ast))
        if n.kind == 'stmt':
            adds = []               # (entity variable, site)
            for c in calls_in(n.ast):
                if isinstance(c.func, ast.Attribute) and \
                        c.func.attr in ('append', 'add') and \
                        len(c.args) == 1 and \
                        isinstance(c.args[0], ast.Name) and \
                        isinstance(c.func.value, ast.Name) and \
                        c.func.value.id in pend:
                    adds.append((c.args[0].id, c))
            a = n.ast
            if isinstance(a, ast.AugAssign) and isinstance(a.op, ast.Add) and \
                    isinstance(a.target, ast.Name) and a.target.id in pend \
                    and isinstance(a.value, (ast.List, ast.Tuple)) and \
                    len(a.value.elts) == 1 and \
                    isinstance(a.value.elts[0], ast.Name):
                adds.append((a.value.elts[0].id, a))
            for ev, c in adds:
                h = None
                for hh in reversed(n.loops):
                    hn = g.nodes[hh]
                    if hn.kind == 'for' and hh in body and \
                            ev in stores_in_target(hn.ast.target):
                        h = hn
                        break
                if h is None:
                    continue
                start = loop_slice(g, h.id)[0]
                atoms = [(g.nodes[t].ast, lab == 'T')
                         for t, lab in guards(g, n.id, start=start)]
                out.append((ev, atoms, c))
    return out


def keep_tables(prog, f, g, head, var, what):
    """every statement that keeps entities on the check list, with its
    keep-waiting condition evaluated for every request (one state, two states)
    and every entity state: [dict(evar, site, cond, relevant, ignored,
    requests, domain, table, kept={(state, tuple(request)): bool})]"""
    table = prog.const('states.py', '_%s_state_values' % what)
    domain = [s for s in table if s is not None]
    keeps = keep_conditions(f, g, head, prog)
    if not keeps:
        raise AnalysisError('UNRECOGNISED-IDIOM %s: no statement keeps '
                            'entities on the check list of the polling '
                            'loop' % f.where)
    out = []
    for evar, atoms0, site in keeps:
        atoms = []
        for atom, pol in atoms0:
            body = inline_pred(prog, f, atom)
            if body is not None:
                atoms += _conj_atoms(body, pol)
            else:
                atoms.append((atom, pol))

        def is_state(e, evar=evar):
            return isinstance(e, ast.Attribute) and \
                e.attr in STATE_ATTRS and \
                isinstance(e.value, ast.Name) and e.value.id == evar
        ev = StateEval(prog, f, is_state,
                       resolve=lambda n, evar=evar: single_assign(f, n)
                       if n not in (evar, var) else None)
        # names the atoms read
        relevant = []
        ignored = []
        minvars = {}
        for atom, pol in atoms:
            names = {n.id for n in walk(atom) if isinstance(n, ast.Name)
                     and isinstance(n.ctx, ast.Load)}
            if not (reads_state_attr(atom) and evar in names or
                    var in names or names & set(minvars)):
                mv = [x for x in names
                      if x not in (evar, var) and
                      _min_var(f, x, var) is not None]
                if not mv:
                    ignored.append((atom, pol))
                    continue
            for x in names - {evar, var}:
                m = _min_var(f, x, var)
                if m is not None:
                    minvars[x] = m
            relevant.append((atom, pol))
        requests = [[r] for r in domain] + \
                   [[a, b] for a in domain for b in domain if a != b]
        kept = {}
        try:
            for R in requests:
                ev.names = {var: list(R)}
                for x, fold in minvars.items():
                    _run_fold(ev, x, fold)
                for s in domain:
                    kept[(s, tuple(R))] = all(ev.holds(a, s) == pol
                                              for a, pol in relevant)
        except Uneval as e:
            raise AnalysisError('UNRECOGNISED-IDIOM %s: cannot evaluate '
                                'the keep-waiting condition `%s` over the '
                                'state table (%s)' % (
                                    f.where, ' and '.join(
                                        ('%s' if p else 'not (%s)')
                                        % short(a, 50)
                                        for a, p in relevant), e))
        cond = ' and '.join(('%s' if p else 'not (%s)') % unparse(a)
                            for a, p in relevant) or 'True'
        out.append(dict(evar=evar, site=site, cond=cond, relevant=relevant,
                        ignored=ignored, requests=requests, domain=domain,
                        table=table, kept=kept,
                        folds=['`%s`, which the loop `for %s in %s` folds '
                               'over the request'
                               % (x, unparse(fold[1].target),
                                  short(fold[1].iter, 40))
                               for x, fold in sorted(minvars.items())]))
    return out


def wait_tables(prog, f, g, head, var, what):
    """the keep-waiting tables of a wait anchor (computed once per tree):
    `keep_tables` for the check list of a manager wait, `entity_keep_table`
    for the polling loop of Task.wait / Pilot.wait"""
    cache = prog.__dict__.setdefault('_c15_wait_tables', {})
    if f.where not in cache:
        try:
            if f.name in MANAGER_WAITS:
                cache[f.where] = keep_tables(prog, f, g, head, var, what)
            else:
                cache[f.where] = [entity_keep_table(prog, f, g, head, var,
                                                    what)]
        except AnalysisError as e:
            cache[f.where] = e
    if isinstance(cache[f.where], AnalysisError):
        raise cache[f.where]
    return cache[f.where]


def r15_4(prog, rep, rid='R15.4'):
    rep.rule(rid, 'an entity that is in a requested (non-final) state, or is '
             'final, leaves the check list of wait_tasks / wait_pilots and '
             'ends the polling loop of Task.wait / Pilot.wait; one that is '
             'still before every requested state stays / keeps it going '
             '(evaluated over the folded state tables)', minimum=8)
    final = _final(prog)
    for rel, cname, mname, what in ANCHORS:
        f = prog.method(rel, cname, mname)
        rep.saw(f)
        g = cfg_of(f)
        head = wait_loop(f, g)
        pname, var, _ = normalisation(prog, f, g, head)
        for k in wait_tables(prog, f, g, head, var, what):
            table, domain, kept = k['table'], k['domain'], k['kept']
            site, cond = k['site'], k['cond']
            stuck, early = [], []
            for R in k['requests']:
                low = min(table[r] for r in R)
                for s in domain:
                    kp = kept[(s, tuple(R))]
                    if kp and (s in final or any(
                            table[r] == table[s] for r in R)):
                        stuck.append((s, R))
                    if not kp and s not in final and table[s] < low:
                        early.append((s, R))
            rep.stat('state_combinations', len(k['requests']) * len(domain))
            ex = stuck[0] if stuck else None
            single = k['evar'] == 'self'
            stays = 'the polling loop goes on' if single else \
                'a %s stays on the check list' % what
            rep.check(not stuck, rid, f, '%s: a %s that is in a requested '
                      'state (or final) %s' % (
                          f.qual, what, 'ends the polling loop' if single
                          else 'is dropped from the check list'),
                      construct='keeps waiting when: %s' % cond,
                      message='%s: %s while `%s`, '
                      'which still holds when it is in state %s and %s was '
                      'requested (%d such combinations, e.g. %s): the wait '
                      'does not return although the requested state is '
                      'reached%s' % (f.qual, stays, short(cond, 120),
                                     ex[0] if ex else '', ex[1] if ex else '',
                                     len(stuck), sorted({x[0] for x in stuck}),
                                     ''.join('; the condition reads %s' % x
                                             for x in k.get('folds', []))),
                      loc=f.loc(site),
                      history='%s.%s(state=%r) while the %s rests in %r: the '
                      'call returns only when the %s moves on (or at the '
                      'timeout)' % (cname, mname, ex[1][0] if ex else '', what,
                                    ex[0] if ex else '', what))
            ex = early[0] if early else None
            rep.check(not early, rid, f, '%s: a non-final %s that is before '
                      'every requested state %s'
                      % (f.qual, what, 'keeps the polling loop going'
                         if single else 'stays on the check list'),
                      construct='stops waiting although: not (%s)' % cond,
                      message='%s: a %s in state %s %s '
                      'although %s was requested and no requested state '
                      'was reached yet (%d such combinations): the wait '
                      'returns without waiting' % (
                          f.qual, what, ex[0] if ex else '',
                          'ends the polling loop' if single else
                          'is dropped from the check list',
                          ex[1] if ex else '', len(early)),
                      loc=f.loc(site),
                      history='%s.%s(state=%r) while the %s is in %r: returns '
                      'at once' % (cname, mname, ex[1][0] if ex else '', what,
                                   ex[0] if ex else ''))


# ------------------------------------------------------------------------------
# the keep-waiting table of a loop that polls ONE entity (Task.wait, Pilot.wait)
#
class _LoopEval(StateEval):
    """StateEval which also follows plain copies of a collection
    (`set(states)`, `tuple(states)`, `states[:]`, `states.copy()`)"""

    def ev(self, e):
        if isinstance(e, (ast.Call, ast.Subscript)) and not self.is_state(e):
            try:
                return super().ev(e)         # slices, sorted(..): evaluated
            except Uneval:
                if isinstance(e, ast.Subscript) and \
                        isinstance(e.slice, ast.Slice) and not (
                            e.slice.lower is None and e.slice.upper is None
                            and e.slice.step is None):
                    raise                    # a part of it is not a copy
            src = _copy_source(e)
            if src is not e:
                return list(self.ev(src))
        return super().ev(e)


def entity_keep_table(prog, f, g, head, var, what):
    """Task.wait / Pilot.wait (the awaited entity is `self`): for every request
    (one state, two states) and every state the entity may rest in, whether the
    polling loop has a path from its head back to its head - the wait goes on.
    The tests of the loop which read the entity state or the requested states
    are evaluated over the folded state table; every other test (timeout not
    given / not yet expired, manager not terminated) may go either way.
    Returns a dict like the ones of `keep_tables`"""
    table = prog.const('states.py', '_%s_state_values' % what)
    domain = [s for s in table if s is not None]
    body = g.loop_body[head] | {head}
    aliases = _state_aliases(f, g, head)
    loop = g.loop_ast[head]

    def is_state(e):
        return isinstance(e, ast.Attribute) and e.attr in STATE_ATTRS and \
            isinstance(e.value, ast.Name) and e.value.id == 'self' or \
            isinstance(e, ast.Name) and e.id in aliases
    ev = _LoopEval(prog, f, is_state,
                   resolve=lambda n: single_assign(f, n)
                   if n != var and n not in aliases else None)
    d = Deps(f.node, implicit=False)
    tests = []
    for n in g.nodes:
        if n.kind != 'test' or n.id not in body:
            continue
        expr = n.ast
        if isinstance(expr, ast.Call):
            expr = inline_pred(prog, f, expr) or expr
        if any(is_state(x) for x in walk(expr)) or \
                var in d.expr_depends(expr):
            tests.append((n.id, expr))
    if not tests:
        raise AnalysisError('UNRECOGNISED-IDIOM %s: no test of the polling '
                            'loop reads the state of the awaited %s'
                            % (f.where, what))
    requests = [[r] for r in domain] + \
               [[a, b] for a in domain for b in domain if a != b]
    folds = {}
    for _, x in tests:
        for n in walk(x):
            if isinstance(n, ast.Name) and n.id != var and \
                    n.id not in aliases and n.id not in folds:
                m = _min_var(f, n.id, var)
                if m is not None:
                    folds[n.id] = m
    vecs = {}
    try:
        for R in requests:
            ev.names = {var: list(R)}
            for x, fold in folds.items():
                _run_fold(ev, x, fold)
            for st in domain:
                vecs[(st, tuple(R))] = tuple(ev.holds(x, st)
                                             for _, x in tests)
    except Uneval as e:
        raise AnalysisError('UNRECOGNISED-IDIOM %s: cannot evaluate the tests '
                            '`%s` of the polling loop over the state table '
                            '(%s)' % (f.where, '`, `'.join(
                                short(x, 50) for _, x in tests), e))

    def goes_on(vec):
        """a round trip head -> .. -> head can be repeated for ever.  Boolean
        flags (`done = True`) steer later rounds: the abstract state at the
        head is what is known about them, and the wait goes on iff the graph
        of head states has a cycle"""
        truth = {nid: v for (nid, _), v in zip(tests, vec)}

        def transfer(node, edge, st):
            if edge.label == 'exc':
                return st
            a = node.ast
            if node.kind == 'test' and edge.label in 'TF':
                want = edge.label == 'T'
                if node.id in truth:
                    return st if truth[node.id] == want else None
                if isinstance(a, ast.Name):
                    known = dict(st).get(a.id)
                    if known is not None and known != want:
                        return None
                    return frozenset(set(st) | {(a.id, want)})
                return st
            names = stores_of(node)
            if names:
                flags = {k: v for k, v in st if k not in names}
                if node.kind == 'stmt' and isinstance(a, ast.Assign) and \
                        isinstance(a.value, ast.Constant) and \
                        all(isinstance(t, ast.Name) for t in a.targets):
                    for nm in names:
                        flags[nm] = bool(a.value.value)
                return frozenset(flags.items())
            if node.kind == 'stmt' and a is not None and st:
                # a collection that is changed in place is not a flag
                recv = {c.func.value.id for c in calls_in(a)
                        if isinstance(c.func, ast.Attribute) and
                        isinstance(c.func.value, ast.Name)}
                if recv:
                    return frozenset((k, v) for k, v in st if k not in recv)
            return st
        succ, todo = {}, [frozenset()]
        while todo:
            s0 = todo.pop()
            if s0 in succ:
                continue
            ex = Exploration(g, head, s0, transfer,
                             stop=lambda nid: nid not in body,
                             stop_edge=lambda e: e.back and e.dst == head)
            succ[s0] = {t.state for t in ex.terminals if t.node == head}
            todo += list(succ[s0])
        return any(s0 in _reach(succ, s1) for s0 in succ for s1 in succ[s0])
    verdict = {v: goes_on(v) for v in set(vecs.values())}
    kept = {k: verdict[v] for k, v in vecs.items()}
    cond = ' ; '.join(unparse(x) for _, x in tests)
    return dict(evar='self', site=loop, cond='loop tests: ' + cond,
                relevant=[(x, True) for _, x in tests], ignored=[],
                requests=requests, domain=domain, table=table, kept=kept)


# ------------------------------------------------------------------------------
# R15.9  an entity that has PASSED a requested state ends the wait
#
def r15_9(prog, rep, rid='R15.9'):
    rep.rule(rid, 'an entity that has passed a requested state ends the wait: '
             'the keep-waiting condition is false in every state whose value '
             'lies above that of a requested state (a 0.1 s poll does not see '
             'a state the entity only passes through)', minimum=4)
    final = _final(prog)
    for rel, cname, mname, what in ANCHORS:
        f = prog.method(rel, cname, mname)
        rep.saw(f)
        g = cfg_of(f)
        head = wait_loop(f, g)
        pname, var, _ = normalisation(prog, f, g, head)
        for k in wait_tables(prog, f, g, head, var, what):
            table, domain, kept = k['table'], k['domain'], k['kept']
            missed = []
            for R in k['requests']:
                low = min(table[r] for r in R)
                for st in domain:
                    if kept[(st, tuple(R))] and st not in final and \
                            table[st] > low and \
                            not any(table[r] == table[st] for r in R):
                        missed.append((st, R))
            rep.stat('state_combinations', len(k['requests']) * len(domain))
            # the plainest witness: one requested state, the state next to it
            inv = {}
            for st in domain:
                inv.setdefault(table[st], st)
            missed.sort(key=lambda x: (
                len(x[1]), table[x[0]] - min(table[r] for r in x[1]),
                min(table[r] for r in x[1]) - 1 not in inv))
            ex = missed[0] if missed else None
            before = inv.get(min(table[r] for r in ex[1]) - 1) if ex else None
            rep.check(not missed, rid, f, '%s: a %s that is past a requested '
                      'state does not keep the wait going' % (f.qual, what),
                      construct='keeps waiting past a requested state',
                      message='%s: the wait goes on while `%s`, which still '
                      'holds when the %s is in state %s and %s was requested '
                      '(%d such combinations): the condition tests whether '
                      'the %s IS in a requested state at the moment of the '
                      'poll, not whether it HAS REACHED one.  The states are '
                      'polled every 0.1 s; a %s that enters and leaves the '
                      'requested state between two polls is never seen in '
                      'it, and the call returns only when the %s is final '
                      '(or at the timeout).  Compare the state values as '
                      'TaskManager.wait_tasks does: keep waiting only while '
                      'value(state) < min(value(s) for s in requested)'
                      % (f.qual, short(k['cond'], 120), what,
                         ex[0] if ex else '', ex[1] if ex else '',
                         len(missed), what, what, what),
                      loc=f.loc(k['site']),
                      history='%s.%s(state=%r): the %s goes %s -> %s -> %s '
                      'within one poll period of 0.1 s (a state that lasts '
                      'only milliseconds); the polls see %s and then %s, '
                      'never %s: the call returns only at the final state of '
                      'the %s, or at the timeout'
                      % (cname, mname, ex[1][0] if ex else '', what,
                         before, ex[1][0] if ex else '', ex[0] if ex else '',
                         before, ex[0] if ex else '',
                         ex[1][0] if ex else '', what))


# ------------------------------------------------------------------------------
# R15.5  the check list only shrinks
#
# Abstract values of a local name inside one round of the polling loop:
#   ('sub',)          a collection whose members all were on the check list
#                     when the round started
#   ('elem',)         one member of such a collection
#   ('from', leaves)  a collection that may hold members taken from `leaves`
#   ('efrom', leaves) one member of such a collection
# a leaf is (text, 'inv') for a local collection the loop never rebinds nor
# mutates, (text, 'indep') for an expression that does not depend on the check
# list at all (it reads no name that holds, or may hold, members of it), or
# (text, 'opaque') for anything the analysis cannot follow.
#
SUBV  = ('sub',)
ELEMV = ('elem',)
GROW   = {'append': 0, 'add': 0, 'appendleft': 0, 'insert': 1}
GROW_N = ('extend', 'update', 'extendleft')


def _opaque(node):
    return ('from', frozenset([(short(node, 50) if not isinstance(node, str)
                                else node, 'opaque')]))


def _join(a, b):
    vals = [x for x in (a, b) if x != SUBV]
    if not vals:
        return SUBV
    leaves = set()
    for v in vals:
        if v[0] != 'from':
            return _opaque('<element used as a collection>')
        leaves |= v[1]
    return ('from', frozenset(leaves))


class Shrink:
    """does the check list at the end of a round only hold entities it held
    at the start of the round, on every path through the loop body"""

    def __init__(self, f, g, head, pvar, prog=None):
        self.f, self.g, self.head, self.pvar = f, g, head, pvar
        self.prog = prog
        self.body = g.loop_body[head]
        self.unstable = set()           # rebound or mutated inside the loop
        for n in g.nodes:
            if n.id not in self.body or n.ast is None:
                continue
            self.unstable |= set(stores_of(n))
            if n.kind not in ('stmt', 'for', 'test'):
                continue
            for x in walk(n.ast if n.kind != 'for' else n.ast.iter):
                if isinstance(x, ast.Call) and \
                        isinstance(x.func, ast.Attribute) and \
                        isinstance(x.func.value, ast.Name):
                    self.unstable.add(x.func.value.id)
                if isinstance(x, (ast.Subscript, ast.Attribute)) and \
                        isinstance(x.ctx, (ast.Store, ast.Del)) and \
                        isinstance(x.value, ast.Name):
                    self.unstable.add(x.value.id)
                if isinstance(x, ast.NamedExpr):
                    self.unstable |= set(stores_in_target(x.target))

    # -- values
    def name_value(self, name, d):
        if name in d:
            v = d[name]
            return v if v[0] in ('sub', 'from') else \
                _opaque('<element %s used as a collection>' % name)
        if name in self.unstable or name in ('self', 'cls'):
            return _opaque(name)
        return ('from', frozenset([(name, 'inv')]))

    def other(self, e, d):
        """value of an expression the analysis does not look into"""
        bound = set()
        for x in walk(e, nested=True):
            if isinstance(x, ast.comprehension):
                bound |= set(stores_in_target(x.target))
            elif isinstance(x, ast.Lambda):
                bound |= {a.arg for a in x.args.args}
        for x in walk(e, nested=True):
            if not (isinstance(x, ast.Name) and isinstance(x.ctx, ast.Load)) \
                    or x.id in bound:
                continue
            if x.id in d:
                v = d[x.id]
                if v[0] not in ('from', 'efrom') or \
                        any(k == 'opaque' for _, k in v[1]):
                    return _opaque(e)
            elif x.id in self.unstable:
                return _opaque(e)
        return ('from', frozenset([(short(e, 50), 'indep')]))

    def coll(self, e, d):
        e = _copy_source(e)
        if isinstance(e, ast.Name):
            return self.name_value(e.id, d)
        if isinstance(e, (ast.List, ast.Tuple, ast.Set)):
            v = SUBV
            for x in e.elts:
                v = _join(v, self.elem(x, d))
            return v
        if isinstance(e, ast.Call) and dotted(e.func) in COPY_CALLS + (
                'dict', 'deque', 'collections.deque') and \
                not e.args and not e.keywords:
            return SUBV
        if isinstance(e, ast.Call) and dotted(e.func) == 'filter' and \
                len(e.args) == 2:
            return self.coll(e.args[1], d)
        if isinstance(e, (ast.ListComp, ast.SetComp, ast.GeneratorExp)) and \
                len(e.generators) == 1 and \
                isinstance(e.generators[0].target, ast.Name) and \
                isinstance(e.elt, ast.Name) and \
                e.elt.id == e.generators[0].target.id:
            return self.coll(e.generators[0].iter, d)
        if isinstance(e, ast.BinOp) and isinstance(e.op, ast.Add):
            return _join(self.coll(e.left, d), self.coll(e.right, d))
        if isinstance(e, ast.BinOp) and isinstance(e.op, (ast.Sub,
                                                          ast.BitAnd)):
            return self.coll(e.left, d)
        if isinstance(e, ast.IfExp):
            return _join(self.coll(e.body, d), self.coll(e.orelse, d))
        if isinstance(e, ast.Call) and self.prog is not None:
            body = inline_pred(self.prog, self.f, e, value=True)
            if body is not None:
                return self.coll(body, d)
        return self.other(e, d)

    def elem(self, e, d):
        """the collection value a single added member contributes"""
        if isinstance(e, ast.Name) and e.id in d:
            v = d[e.id]
            if v == ELEMV:
                return SUBV
            if v[0] == 'efrom':
                return ('from', v[1])
            return _opaque(e)
        return self.other(e, d)

    # -- transfer
    @staticmethod
    def freeze(d):
        return tuple(sorted(d.items(), key=lambda kv: kv[0]))

    def transfer(self, node, edge, st):
        if edge.label == 'exc':
            return st
        a = node.ast
        if node.kind == 'for':
            if edge.label != 'iter':
                return st
            d = dict(st)
            it, tgt = a.iter, a.target
            if isinstance(it, ast.Call) and dotted(it.func) == 'enumerate' \
                    and it.args and isinstance(tgt, ast.Tuple) and \
                    len(tgt.elts) == 2:
                for nm in stores_in_target(tgt.elts[0]):
                    d.pop(nm, None)
                it, tgt = it.args[0], tgt.elts[1]
            v = self.coll(it, d)
            if isinstance(tgt, ast.Name):
                d[tgt.id] = ELEMV if v == SUBV else ('efrom', v[1])
            else:
                for nm in stores_in_target(tgt):
                    d[nm] = ('efrom', _opaque(tgt)[1])
            return self.freeze(d)
        if node.kind != 'stmt' or a is None:
            return st
        d = dict(st)
        if isinstance(a, (ast.Assign, ast.AnnAssign)):
            if a.value is None:
                return st
            v = self.coll(a.value, d)
            targets = a.targets if isinstance(a, ast.Assign) else [a.target]
            for t in targets:
                if isinstance(t, ast.Name):
                    d[t.id] = v
                elif isinstance(t, (ast.Tuple, ast.List, ast.Starred)):
                    for nm in stores_in_target(t):
                        d[nm] = _opaque(t)
                elif isinstance(t, ast.Subscript) and \
                        isinstance(t.value, ast.Name):
                    x = t.value.id
                    add = self.coll(a.value, d) \
                        if isinstance(t.slice, ast.Slice) \
                        else self.elem(a.value, d)
                    d[x] = _join(self.name_value(x, d), add)
        elif isinstance(a, ast.AugAssign):
            if isinstance(a.target, ast.Name):
                x = a.target.id
                if isinstance(a.op, (ast.Add, ast.BitOr)):
                    d[x] = _join(self.name_value(x, d), self.coll(a.value, d))
                elif not isinstance(a.op, (ast.Sub, ast.BitAnd)):
                    d[x] = _opaque(a)
        else:
            for c in calls_in(a):
                if not (isinstance(c.func, ast.Attribute) and
                        isinstance(c.func.value, ast.Name)):
                    continue
                x, m = c.func.value.id, c.func.attr
                if m in GROW and len(c.args) > GROW[m]:
                    d[x] = _join(self.name_value(x, d),
                                 self.elem(c.args[GROW[m]], d))
                elif m in GROW_N and c.args:
                    d[x] = _join(self.name_value(x, d),
                                 self.coll(c.args[0], d))
        return self.freeze(d)

    def run(self):
        """(value of the check list at a back edge that is not 'sub' | None,
        witness literals, product states)"""
        g, head = self.g, self.head
        nodes = self.body | {head}
        ex = Exploration(g, head, self.freeze({self.pvar: SUBV}),
                         self.transfer, stop=lambda nid: nid not in nodes,
                         stop_edge=lambda e: e.back and e.dst == head)
        ends = [t for t in ex.terminals if t.node == head]
        if not ends:
            raise AnalysisError('UNRECOGNISED-IDIOM %s: no path through the '
                                'polling loop returns to its head'
                                % self.f.where)
        for t in ends:
            v = dict(t.state).get(self.pvar, SUBV)
            if v != SUBV:
                if v[0] != 'from':
                    v = _opaque(self.pvar)
                return v, ex.literals(t), ex.states
        return None, None, ex.states


def _canon(g, head, name, depth=0):
    """what a local collection is when the loop is entered: its own name, the
    names it is a plain copy of, and the text of its defining expression"""
    from ..flow import reaching_defs
    out = {name}
    if depth > 4:
        return out
    body = g.loop_body[head]
    for dn, v in reaching_defs(g, name, head):
        if dn.id in body or dn.id == head or v is None:
            continue
        src = _copy_source(v)
        if isinstance(src, ast.Name):
            out |= _canon(g, head, src.id, depth + 1)
        else:
            out.add('=' + unparse(src))
    return out


def r15_5(prog, rep, rid='R15.5'):
    rep.rule(rid, 'wait_tasks / wait_pilots: the check list of a round is '
             'built from the check list of the previous round, so an entity '
             'that was seen in a requested state is never waited for again '
             '(unless leaving the list is permanent anyway)', minimum=2)
    final = _final(prog)
    for rel, cname, mname, what in ANCHORS[2:]:
        f = prog.method(rel, cname, mname)
        rep.saw(f)
        g = cfg_of(f)
        head = wait_loop(f, g)
        loop = g.loop_ast[head]
        pend = pending_vars(f, g, head)
        if len(pend) != 1:
            raise AnalysisError('UNRECOGNISED-IDIOM %s: expected one check '
                                'list whose emptiness ends the polling loop, '
                                'found %s' % (f.where, pend))
        pvar = pend[0]
        bad, wit, n = Shrink(f, g, head, pvar, prog).run()
        rep.stat('paths', n)
        what_ok = '%s: the check list %r only shrinks from round to round' \
            % (f.qual, pvar)
        if bad is None:
            rep.ok(rid, f, what_ok, f.loc(loop))
            continue
        shr = _shrinks_in_place(g, head)
        if shr:
            raise AnalysisError(
                'UNRECOGNISED-IDIOM %s: the check list %r is not rebuilt from '
                'itself, and the loop also takes members off a list in place '
                '(`%s`): aliases of that list are not followed'
                % (f.where, pvar, short(shr[0].ast, 50)))
        leaves = sorted(bad[1])
        opaque = [t for t, k in leaves if k == 'opaque']
        if opaque:
            raise AnalysisError(
                'UNRECOGNISED-IDIOM %s: cannot relate the check list %r at '
                'the end of a round to its value at the start of the round '
                '(it takes members from `%s`)' % (f.where, pvar, opaque[0]))
        srcs = [t for t, k in leaves]
        indep = [t for t, k in leaves if k == 'indep']
        # is leaving the list permanent?  states only move up the value table
        pname, var, _ = normalisation(prog, f, g, head)
        again = []
        ignored = []
        for k in wait_tables(prog, f, g, head, var, what):
            table, kept = k['table'], k['kept']
            ignored += k['ignored']
            for R in k['requests']:
                for s1 in k['domain']:
                    if s1 in final or kept[(s1, tuple(R))]:
                        continue
                    for s2 in k['domain']:
                        if table[s2] > table[s1] and kept[(s2, tuple(R))]:
                            again.append((R, s1, s2, k['cond']))
        if again and ignored:
            raise AnalysisError(
                'UNRECOGNISED-IDIOM %s: the check list %r is rebuilt from %s '
                'under a condition `%s` the state table does not decide'
                % (f.where, pvar, srcs, short(ignored[0][0], 50)))
        if again:
            # example: one requested state which the entity rests in, not
            # the very first state, and the state right after it
            again.sort(key=lambda x: (len(x[0]), x[1] not in x[0],
                                      table[x[1]] < 2, table[x[1]],
                                      table[x[2]]))
            R, s1, s2, cond = again[0]
            rep.bad(rid, f, 'check list %s rebuilt from %s'
                    % (pvar, ', '.join(srcs)),
                    '%s: in every round the check list %r is rebuilt from %s '
                    'and not from its own previous value, so a %s that left '
                    'the list is examined again.  Leaving is not permanent: '
                    'with %s requested a %s in state %s is dropped, but once '
                    'it moved on to %s the keep-waiting condition `%s` holds '
                    'again (%d such request/state combinations).  The wait '
                    'then returns only when all %ss are in a requested state '
                    'at the same moment, not when each of them has reached it'
                    % (f.qual, pvar, ' / '.join('`%s`' % x for x in srcs),
                       what, R, what, s1, s2, short(cond, 100), len(again),
                       what), f.loc(loop),
                    history='%s.%s([a, b], state=%r), no timeout: %s a '
                    'reaches %s and moves on to %s before %s b reaches %s; '
                    'a is back on the check list, the call does not return '
                    'although both had reached the requested state'
                    % (cname, mname, R[0] if len(R) == 1 else R, what, s1, s2,
                       what, s1), path=wit)
            continue
        # permanent: re-examination is harmless if the source is the list of
        # awaited entities itself
        mine = _canon(g, head, pvar)
        alien = indep + [x for x in srcs if x not in indep and
                         not (_canon(g, head, x) & mine)]
        if alien:
            raise AnalysisError(
                'UNRECOGNISED-IDIOM %s: the check list %r is rebuilt in every '
                'round from `%s`, which is not recognisably the list of '
                'awaited entities the loop starts with'
                % (f.where, pvar, alien[0]))
        rep.ok(rid, f, '%s: the check list %r is re-filtered from the awaited '
               'entities %s in every round; an entity that left the list never '
               'qualifies again (condition monotone over the state table)'
               % (f.qual, pvar, srcs), f.loc(loop))


# ------------------------------------------------------------------------------
# R15.6  one clock for the timeout
#
CLOCKS = ('time', 'monotonic', 'perf_counter', 'process_time', 'thread_time',
          'clock_gettime')
CLOCK_NAMES = {'time.%s%s' % (c, sfx) for c in CLOCKS for sfx in ('', '_ns')} \
    | {'timeit.default_timer'}
PURE_CALLS = ('float', 'int', 'abs', 'min', 'max', 'round', 'bool', 'len',
              'is_set', 'isinstance')


def clock_of(prog, f, call, limports):
    r = prog.resolve(f.module, call.func, limports)
    if r and r[0] == 'ext' and r[1] in CLOCK_NAMES:
        return r[1]
    return None


class ClockReads:
    """clock reads and parameters an expression is computed from, following
    local names to the definitions that reach the use and single-`return`
    helpers into their body"""

    def __init__(self, prog, f, g):
        self.prog, self.f, self.g = prog, f, g
        self.limports = f.module.local_imports(f.node)
        self.clocks = {}        # clock -> [text of the read]
        self.params = set()
        self.unknown = []       # calls the analysis cannot look into
        self.seen = set()

    def expr(self, e, at, f=None, g=None, depth=0):
        from ..flow import reaching_defs
        f = f or self.f
        g = g if g is not None else self.g
        skip = set()
        for x in walk(e, nested=True):
            if isinstance(x, ast.Call):
                limp = self.limports if f is self.f else \
                    f.module.local_imports(f.node)
                c = clock_of(self.prog, f, x, limp)
                if c is not None:
                    self.clocks.setdefault(c, []).append(
                        '%s (%s)' % (unparse(x), f.loc(x)))
                    continue
                last = call_name(x).split('.')[-1]
                h = self.prog.resolve_call(f, x) if depth < 3 else None
                rets = [] if h is None else [
                    r for r in walk(h.node) if isinstance(r, ast.Return)]
                if h is not None and h is not f and len(rets) == 1 and \
                        rets[0].value is not None:
                    hg = cfg_of(h)
                    rn = [n for n in hg.nodes if n.ast is rets[0]]
                    if rn:
                        self.expr(rets[0].value, rn[0].id, h, hg, depth + 1)
                        continue
                if last not in PURE_CALLS:
                    self.unknown.append(x)
        for x in walk(e, nested=True):
            if not (isinstance(x, ast.Name) and isinstance(x.ctx, ast.Load)):
                continue
            if f is self.f and x.id in f.params:
                self.params.add(x.id)
            key = (f.where, x.id, at)
            if key in self.seen:
                continue
            self.seen.add(key)
            for dn, v in reaching_defs(g, x.id, at):
                if v is not None:
                    self.expr(v, dn.id, f, g, depth)
                elif dn.kind == 'stmt' and isinstance(dn.ast, ast.AugAssign):
                    self.expr(dn.ast.value, dn.id, f, g, depth)
        return self


def r15_6(prog, rep, rid='R15.6'):
    rep.rule(rid, 'the elapsed time a wait compares with its timeout is the '
             'difference of two reads of the same clock', minimum=4)
    ORD = (ast.Lt, ast.LtE, ast.Gt, ast.GtE)
    for rel, cname, mname, what in ANCHORS:
        f = prog.method(rel, cname, mname)
        rep.saw(f)
        g = cfg_of(f)
        head = wait_loop(f, g)
        tname = 'timeout'
        if tname not in f.params:
            raise AnalysisError('anchor %s has no parameter `timeout`'
                                % f.where)
        found = 0
        for n in g.nodes:
            if not (n.id in g.loop_body[head] or n.id == head) or \
                    n.kind not in ('stmt', 'test') or n.ast is None:
                continue
            exprs = [n.ast]
            for c in calls_in(n.ast):
                body = inline_pred(prog, f, c)
                if body is not None:
                    exprs.append(body)
            for cmp_ in [x for e in exprs for x in walk(e)]:
                if not (isinstance(cmp_, ast.Compare) and
                        any(isinstance(o, ORD) for o in cmp_.ops)):
                    continue
                cr = ClockReads(prog, f, g).expr(cmp_, n.id)
                if tname not in cr.params:
                    continue
                if not cr.clocks:
                    if cr.unknown:
                        raise AnalysisError(
                            'UNRECOGNISED-IDIOM %s: the timeout test `%s` '
                            'reads no known clock but calls `%s`'
                            % (f.where, short(cmp_, 60),
                               short(cr.unknown[0], 40)))
                    continue
                found += 1
                kinds = sorted(cr.clocks)
                base = {k[:-3] if k.endswith('_ns') else k for k in kinds}
                if len(kinds) > 1 and len(base) == 1:
                    raise AnalysisError(
                        'UNRECOGNISED-IDIOM %s: the timeout test `%s` mixes '
                        '%s (same clock, different units)'
                        % (f.where, short(cmp_, 60), kinds))
                detail = '; '.join('%s: %s' % (k, ', '.join(cr.clocks[k][:2]))
                                   for k in kinds)
                rep.check(len(kinds) == 1, rid, f,
                          '%s: `%s` measures the elapsed time with %s only'
                          % (f.qual, short(cmp_, 60), kinds[0]),
                          construct='timeout test on clocks %s'
                          % ' and '.join(kinds),
                          message='%s: the timeout test `%s` is computed from '
                          'reads of different clocks (%s).  %s do not share '
                          'an origin (epoch vs. an arbitrary point such as '
                          'boot), so their difference is not an elapsed time: '
                          'it is off by a huge constant and the test is '
                          'either never or always true'
                          % (f.qual, short(cmp_, 80), detail,
                             ' and '.join(kinds)),
                          loc=f.loc(cmp_),
                          history='%s.%s(timeout=5.0) while the %s does not '
                          'reach the awaited state: the "elapsed time" '
                          'mixes %s and is off by about 1.7e9 seconds (epoch '
                          'vs. uptime); the call does not return after 5 '
                          'seconds (or returns at once)'
                          % (cname, mname, what, ' and '.join(kinds)))
        if not found:
            raise AnalysisError('UNRECOGNISED-IDIOM %s: no test of the polling '
                                'loop compares the timeout with a time read '
                                'from a clock' % f.where)


# ------------------------------------------------------------------------------
# R15.7  who wakes a wait that does not poll
#
class _Unk(Exception):
    """an expression the evaluators of R15.7 / R15.8 do not follow"""


ENTITY = {'task':  ('task.py',  'Task'),
          'pilot': ('pilot.py', 'Pilot')}
EVENT_CTORS = ('Event', 'Condition', 'Semaphore', 'BoundedSemaphore')
SETTERS = ('set', 'notify', 'notify_all', 'notifyAll', 'release')


def _anchor_classes(prog):
    out = []
    for rel, cname, mname, what in ANCHORS:
        c = prog.cls(rel, cname)
        if c not in out:
            out.append(c)
    return out


def _methods_of(c):
    """all functions of a class, nested ones included"""
    out = []

    def rec(fn):
        out.append(fn)
        for x in fn.nested.values():
            rec(x)
    for m in c.methods.values():
        rec(m)
    return out


def _node_root(n):
    """the expression / simple statement a cfg node evaluates (None for
    structural nodes: their parts are nodes of their own)"""
    if n.ast is None:
        return None
    if n.kind == 'stmt':
        if isinstance(n.ast, (ast.FunctionDef, ast.AsyncFunctionDef,
                              ast.ClassDef)):
            return None
        return n.ast
    if n.kind == 'test':
        return n.ast
    if n.kind == 'for':
        return n.ast.iter
    return None


def _node_of(g, sub):
    """the cfg node that evaluates the ast node `sub`"""
    for n in g.nodes:
        root = _node_root(n)
        if root is not None and (root is sub or
                                 any(x is sub for x in walk(root))):
            return n
    return None


def _is_event_ctor(value):
    return isinstance(value, ast.Call) and \
        (dotted(value.func) or '').split('.')[-1] in EVENT_CTORS


def _event_attrs(prog):
    """attributes of the four anchor classes that hold a threading event /
    condition (`self.<attr> = mt.Event()` in one of their methods)"""
    out = set()
    for c in _anchor_classes(prog):
        for fn in _methods_of(c):
            for n in walk(fn.node, nested=True):
                if isinstance(n, ast.Assign) and _is_event_ctor(n.value):
                    for t in n.targets:
                        if isinstance(t, ast.Attribute):
                            out.add(t.attr)
    return out


def _event_of(prog, f, g, recv, at, events, depth=0):
    """the event a receiver expression denotes: its attribute name for
    `<path>.<attr>` holding an event, '' for a local event, None: no event"""
    from ..flow import reaching_defs
    if isinstance(recv, ast.Attribute):
        return recv.attr if recv.attr in events else None
    if isinstance(recv, ast.Name) and depth < 3:
        out = set()
        for dn, v in reaching_defs(g, recv.id, at):
            if v is None:
                return None
            out.add('' if _is_event_ctor(v) else
                    _event_of(prog, f, g, v, dn.id, events, depth + 1))
        if len(out) == 1:
            return out.pop()
    return None


def _anchor_by_name(prog):
    d = {}
    for rel, cname, mname, what in ANCHORS:
        d.setdefault(mname, []).append((prog.method(rel, cname, mname), what))
    return d


def _manager_kind(f):
    for rel, cname, mname, what in ANCHORS:
        if f.cls is not None and f.cls.name == cname and \
                f.module.rel == rel and mname != 'wait':
            return what
    return None


def _delegate_target(prog, f, g, call, at, events):
    """the wait anchor a call hands the wait over to, or None.  `self.m(..)`
    is resolved; `<x>.wait_tasks / wait_pilots(..)` is the anchor of that
    name; `<x>.wait(..)` inside a manager, on something that is not an event,
    is the wait of the entity this manager manages"""
    if not isinstance(call.func, ast.Attribute):
        return None
    name = call.func.attr
    byname = _anchor_by_name(prog)
    if name not in byname:
        return None
    anchors = [a for a, w in byname[name]]
    h = prog.resolve_call(f, call)
    if h is not None:
        return h if h in anchors else None
    if _event_of(prog, f, g, call.func.value, at, events) is not None:
        return None
    if any(isinstance(a, ast.Starred) for a in call.args) or \
            any(k.arg is None for k in call.keywords):
        return None
    if len(anchors) == 1:
        cand = anchors[0]
    else:
        kind = _manager_kind(f)
        if kind is None:
            return None
        cand = [a for a, w in byname[name] if w == kind][0]
    params = cand.params[1:]
    if len(call.args) > len(params) or \
            any(k.arg not in params for k in call.keywords):
        return None
    return cand


def blocking_calls(prog, f, g, events):
    """[(cfg node, call, kind, event attr, period expr | None)] for every call
    of the function that blocks the caller: kind 'sleep' (nobody can end it),
    'event' (ended by `set()` / `notify()`), 'delegate' (another wait anchor)"""
    out = []
    for n in g.nodes:
        root = _node_root(n)
        if root is None:
            continue
        for c in calls_in(root):
            last = _callee_name(c)
            if last == 'sleep':
                per = c.args[0] if c.args else None
                for k in c.keywords:
                    if k.arg in ('secs', 'seconds'):
                        per = k.value
                out.append((n, c, 'sleep', None, per))
            elif last == 'wait' and isinstance(c.func, ast.Attribute):
                ev = _event_of(prog, f, g, c.func.value, n.id, events)
                if ev is not None:
                    per = c.args[0] if c.args else None
                    for k in c.keywords:
                        if k.arg == 'timeout':
                            per = k.value
                    out.append((n, c, 'event', ev, per))
                elif _delegate_target(prog, f, g, c, n.id, events):
                    out.append((n, c, 'delegate', None, None))
                else:
                    raise AnalysisError(
                        'UNRECOGNISED-IDIOM %s: `%s` blocks on something that '
                        'is neither a known event nor a wait anchor'
                        % (f.where, short(c, 60)))
            elif last in ('wait_tasks', 'wait_pilots') and \
                    _delegate_target(prog, f, g, c, n.id, events):
                out.append((n, c, 'delegate', None, None))
    return out


def _number(v):
    return isinstance(v, (int, float)) and not isinstance(v, bool)


def _bounded(prog, f, g, e, at, seen=()):
    """is the blocking period `e` bounded by a constant (True) or can it be
    as long as the caller's timeout / unlimited (False)?  _Unk if unknown"""
    from ..flow import reaching_defs
    if e is None:
        return False
    if isinstance(e, ast.Constant):
        if e.value is None:
            return False
        if _number(e.value):
            return True
        raise _Unk(short(e, 40))
    if isinstance(e, ast.Name) and (e.id in f.params or
                                    reaching_defs(g, e.id, at)):
        key = (e.id, at)
        if key in seen:
            return True                      # a cycle adds no new source
        defs = reaching_defs(g, e.id, at)
        res = []
        if e.id in f.params:
            dn = [d.id for d, v in defs]
            if not dn or at in g.reachable(g.entry.id, skip_nodes=set(dn)):
                if e.id != 'timeout':
                    raise _Unk('parameter `%s`' % e.id)
                res.append(False)            # as long as the caller likes
        for dn, val in defs:
            if val is None:
                if dn.kind == 'stmt' and isinstance(dn.ast, ast.AugAssign):
                    res.append(_bounded(prog, f, g, dn.ast.value, dn.id,
                                        seen + (key,)) and
                               _bounded(prog, f, g, e, dn.id, seen + (key,)))
                    continue
                raise _Unk(e.id)
            res.append(_bounded(prog, f, g, val, dn.id, seen + (key,)))
        return all(res)
    if not isinstance(e, ast.Call):
        v = prog.fold(f.module, e, f.cls)
        if v is not UNKNOWN and _number(v):
            return True
        if isinstance(e, (ast.Name, ast.Attribute)):
            raise _Unk(short(e, 40))
    if isinstance(e, ast.Call) and isinstance(e.func, ast.Name) and \
            not e.keywords:
        if e.func.id == 'min' and len(e.args) >= 2:
            res = []
            for a in e.args:
                try:
                    res.append(_bounded(prog, f, g, a, at, seen))
                except _Unk:
                    res.append(False)
            return any(res)
        if e.func.id == 'max' and len(e.args) >= 2:
            return all(_bounded(prog, f, g, a, at, seen) for a in e.args)
        if e.func.id in ('float', 'int', 'abs', 'round') and e.args:
            return _bounded(prog, f, g, e.args[0], at, seen)
    if isinstance(e, ast.Call):
        body = inline_pred(prog, f, e, value=True)
        if body is not None:
            return _bounded(prog, f, g, body, at, seen)
        if clock_of(prog, f, e, f.module.local_imports(f.node)):
            return False
        raise _Unk(short(e, 40))
    if isinstance(e, ast.BinOp):
        return _bounded(prog, f, g, e.left, at, seen) and \
            _bounded(prog, f, g, e.right, at, seen)
    if isinstance(e, ast.UnaryOp):
        return _bounded(prog, f, g, e.operand, at, seen)
    if isinstance(e, ast.IfExp):
        return _bounded(prog, f, g, e.body, at, seen) and \
            _bounded(prog, f, g, e.orelse, at, seen)
    if isinstance(e, ast.BoolOp):
        return all(_bounded(prog, f, g, x, at, seen) for x in e.values)
    raise _Unk(short(e, 40))


def _is_set_call(c, ev, h=None, g=None, at=None):
    """`<path>.<ev>.set()` / notify..(); a local alias of the event counts"""
    from ..flow import reaching_defs
    if not (isinstance(c.func, ast.Attribute) and c.func.attr in SETTERS):
        return False
    r = c.func.value
    if isinstance(r, ast.Attribute):
        return r.attr == ev
    if isinstance(r, ast.Name) and g is not None:
        defs = reaching_defs(g, r.id, at)
        return bool(defs) and all(
            isinstance(v, ast.Attribute) and v.attr == ev for d, v in defs)
    return False


def _setters(prog, cls, ev):
    """names of the methods of the class which themselves call
    `<path>.<ev>.set()`"""
    cache = prog.__dict__.setdefault('_c15_setters', {})
    key = (cls.where, ev)
    if key not in cache:
        cache[key] = {
            m.name for c in prog.mro(cls) for m in c.methods.values()
            if any(_is_set_call(x, ev) for x in calls_in(m.node))}
    return cache[key]


def _node_sets(prog, h, g, n, ev, depth=0):
    """the statement of cfg node n sets the event (itself, or by calling a
    method of the class that does so on each of its normal paths)"""
    root = _node_root(n)
    if root is None:
        return False
    for c in calls_in(root):
        if _is_set_call(c, ev, h, g, n.id):
            return True
        if depth < 1 and h.cls is not None and \
                isinstance(c.func, ast.Attribute) and \
                c.func.attr in _setters(prog, h.cls, ev):
            m = prog.resolve_call(h, c)
            if m is not None and m is not h and _must_set(prog, m, ev):
                return True
    return False


def _must_set(prog, m, ev):
    """every path through method m that returns normally sets the event"""
    g = cfg_of(m)
    via = {n.id for n in g.nodes if _node_sets(prog, m, g, n, ev, 1)}
    if not via:
        return False
    labels = {'next', 'T', 'F', 'iter', 'done'}
    return g.exit.id not in g.reachable(g.entry.id, skip_nodes=via,
                                        labels=labels)


NONEMPTY_CALLS = ('append', 'add', 'insert', 'appendleft', 'put')
EMPTYING_CALLS = ('clear', 'pop', 'popleft', 'remove', 'discard')


def _unwoken_path(prog, h, g, start, ev):
    """a path from cfg node `start` (a write of the awaited state) to the
    normal exit of the function on which the event is not set: witness
    literals, or None.  Exceptions after the write are not followed.  A local
    that was appended to / set to a true constant after the write is known to
    be true when tested (`if to_notify: evt.set()`)."""
    sets = {n.id for n in g.nodes if _node_sets(prog, h, g, n, ev)}

    def truthy_const(v):
        if isinstance(v, ast.Constant):
            return bool(v.value)
        if isinstance(v, (ast.List, ast.Tuple, ast.Set)):
            return bool(v.elts)
        return False

    def transfer(node, edge, st):
        if edge.label == 'exc':
            return None
        if node.id in sets and node.id != start:
            return None                      # woken: this path is fine
        a = node.ast
        if node.kind == 'test' and edge.label in 'TF':
            x = None
            if isinstance(a, ast.Name):
                x = a.id
            elif isinstance(a, ast.Call) and dotted(a.func) in ('len', 'bool') \
                    and len(a.args) == 1 and isinstance(a.args[0], ast.Name):
                x = a.args[0].id
            if x is not None and x in st and edge.label == 'F':
                return None
            return st
        if node.kind == 'for':
            return st - set(stores_in_target(a.target))
        if node.kind != 'stmt' or a is None:
            return st
        if isinstance(a, ast.Assign):
            for t in a.targets:
                for name in stores_in_target(t):
                    st = (st | {name}) if isinstance(t, ast.Name) and \
                        truthy_const(a.value) else (st - {name})
            return st
        if isinstance(a, ast.AugAssign) and isinstance(a.target, ast.Name):
            if isinstance(a.op, ast.Add) and truthy_const(a.value):
                return st | {a.target.id}
            return st - {a.target.id} if not isinstance(a.op, ast.Add) else st
        for c in calls_in(a):
            if isinstance(c.func, ast.Attribute) and \
                    isinstance(c.func.value, ast.Name):
                if c.func.attr in NONEMPTY_CALLS:
                    st = st | {c.func.value.id}
                elif c.func.attr in EMPTYING_CALLS:
                    st = st - {c.func.value.id}
        return st

    ex = Exploration(g, start, frozenset(), transfer)
    for t in ex.terminals:
        if t.node == g.exit.id:
            return ex.literals(t)
    return None


def _callers_wake(prog, h, ev, depth=0):
    """the event is set after every call of method h by its callers (and h
    is not handed out as a callback)"""
    if h.cls is None or depth > 1:
        return False
    sites = []
    for fn in _methods_of(h.cls):
        for n in walk(fn.node, nested=False):
            if isinstance(n, ast.Attribute) and n.attr == h.name and \
                    isinstance(n.value, ast.Name) and n.value.id == 'self':
                sites.append((fn, n))
    if not sites:
        return False
    for fn, ref in sites:
        g = cfg_of(fn)
        node = None
        for n in g.nodes:
            root = _node_root(n)
            if root is not None and any(c.func is ref
                                        for c in calls_in(root)):
                node = n
        if node is None:
            return False                      # handed out, not called
        if _unwoken_path(prog, fn, g, node.id, ev) is not None and \
                not _callers_wake(prog, fn, ev, depth + 1):
            return False
    return True


def _state_unchanged(h, g, node, call):
    """the call `<x>._update(d)` is control dependent on `<x>.state == d['state']`
    (both read into locals that are not re-bound): it does not change the
    state"""
    from ..flow import reaching_defs, guards
    if not call.args or not isinstance(call.args[0], ast.Name):
        return False
    recv = unparse(call.func.value)
    arg = call.args[0].id
    for t, lab in guards(g, node.id):
        a = g.nodes[t].ast
        if lab != 'T' or not (isinstance(a, ast.Compare) and len(a.ops) == 1
                              and isinstance(a.ops[0], ast.Eq)):
            continue
        sides = []
        for x in (a.left, a.comparators[0]):
            if isinstance(x, ast.Name):
                defs = reaching_defs(g, x.id, t)
                if len(defs) != 1 or defs[0][1] is None or \
                        [d.id for d, v in reaching_defs(g, x.id, node.id)] != \
                        [defs[0][0].id]:
                    sides.append(None)
                    continue
                x = defs[0][1]
            sides.append(x)
        kinds = set()
        for x in sides:
            if isinstance(x, ast.Attribute) and x.attr in STATE_ATTRS and \
                    unparse(x.value) == recv:
                kinds.add('cur')
            elif isinstance(x, ast.Subscript) and \
                    isinstance(x.value, ast.Name) and x.value.id == arg and \
                    isinstance(x.slice, ast.Constant) and \
                    x.slice.value == 'state':
                kinds.add('new')
        if kinds == {'cur', 'new'}:
            return True
    return False


def state_writers(prog, f, what):
    """[(function, cfg, cfg node, ast, text)]: the places which change the
    state the wait anchor f looks at.  For a manager: every `<x>._update(..)`
    on something else than `self` in the manager class (the set R06.2 / R14.2
    enumerate); for Task.wait / Pilot.wait: every write of `self._state` in
    the entity class outside __init__."""
    out = []
    manager = _manager_kind(f) is not None
    for h in _methods_of(f.cls):
        sites = []
        for n in walk(h.node, nested=False):
            if manager:
                if isinstance(n, ast.Call) and \
                        isinstance(n.func, ast.Attribute) and \
                        n.func.attr == '_update' and \
                        unparse(n.func.value) != 'self' and \
                        not unparse(n.func.value).startswith('super'):
                    sites.append(n)
            elif h.name != '__init__':
                if isinstance(n, ast.Call) and dotted(n.func) == 'setattr' \
                        and len(n.args) == 3 and unparse(n.args[0]) == 'self' \
                        and not (isinstance(n.args[1], ast.Constant) and
                                 n.args[1].value not in ('_state', 'state')):
                    sites.append(n)
                if isinstance(n, (ast.Assign, ast.AugAssign, ast.AnnAssign)):
                    tg = n.targets if isinstance(n, ast.Assign) else [n.target]
                    if any(isinstance(x, ast.Attribute) and x.attr == '_state'
                           and unparse(x.value) == 'self'
                           for t in tg for x in walk(t)):
                        sites.append(n)
        if not sites:
            continue
        g = cfg_of(h)
        for s in sites:
            node = _node_of(g, s)
            if node is None:
                raise AnalysisError('UNRECOGNISED-IDIOM %s: no cfg node for '
                                    'the state write `%s`' % (h.where,
                                                              short(s, 50)))
            if manager and _state_unchanged(h, g, node, s):
                continue
            out.append((h, g, node, s))
    return out


def _reads_state(prog, f, n):
    root = _node_root(n)
    if root is None:
        return False
    if reads_state_attr(root):
        return True
    for c in calls_in(root):
        m = prog.resolve_call(f, c)
        if m is not None and reads_state_attr(m.node):
            return True
    return False


def _clear_reaches_wait(prog, f, g, clear_id, wait_id, body):
    """a path inside the loop from the clear() of the event to the blocking
    wait on which the entity states are not read (a `for` loop is taken to
    run at least once: the awaited entities are not an empty list)"""
    rd = {x.id for x in g.nodes if x.id in body and _reads_state(prog, f, x)}

    def transfer(node, edge, st):
        if edge.label == 'exc':
            return None
        if node.id in rd and node.id != clear_id:
            return None
        if node.kind == 'for':
            if edge.label == 'iter':
                return st | {node.id}
            if edge.label == 'done' and node.id not in st:
                return None
        return st
    ex = Exploration(g, clear_id, frozenset(), transfer,
                     stop=lambda nid: nid == wait_id or nid not in body)
    for t in ex.terminals:
        if t.node == wait_id:
            return ex.literals(t)
    return None


def r15_7(prog, rep, rid='R15.7'):
    rep.rule(rid, 'a wait either polls (blocks for a period bounded by a '
             'constant) or blocks on an event that every writer of the '
             'awaited state sets afterwards', minimum=4)
    events = _event_attrs(prog)
    for rel, cname, mname, what in ANCHORS:
        f = prog.method(rel, cname, mname)
        rep.saw(f)
        g = cfg_of(f)
        blocks = blocking_calls(prog, f, g, events)
        if not blocks:
            raise AnalysisError('UNRECOGNISED-IDIOM %s: the wait neither '
                                'sleeps, nor waits on an event, nor hands over '
                                'to another wait' % f.where)
        asked = 'DONE' if what == 'task' else 'PMGR_ACTIVE'
        for n, c, kind, ev, per in blocks:
            if kind == 'delegate':
                rep.ok(rid, f, '%s: `%s` hands the wait over to another wait '
                       'anchor (R15.8)' % (f.qual, short(c, 50)), f.loc(c))
                continue
            try:
                bounded = _bounded(prog, f, g, per, n.id)
            except _Unk as e:
                raise AnalysisError(
                    'UNRECOGNISED-IDIOM %s: cannot tell whether the period of '
                    '`%s` is bounded by a constant (%s)' % (f.where,
                                                            short(c, 60), e))
            if bounded:
                rep.ok(rid, f, '%s: `%s` blocks for a period bounded by a '
                       'constant: the states are polled' % (f.qual,
                                                            short(c, 50)),
                       f.loc(c))
                continue
            if kind == 'sleep' or ev == '':
                rep.bad(rid, f, 'unbounded %s' % ('sleep' if kind == 'sleep'
                                                  else 'wait on a local event'),
                        '%s: `%s` blocks for a period that is not bounded by '
                        'a constant (it is derived from the timeout) and '
                        'nothing can end it early: the %s states are not '
                        'looked at again before the period is over'
                        % (f.qual, short(c, 60), what), f.loc(c),
                        history='%s.%s(rps.%s, timeout=600) and the %s reaches '
                        'the state after one second: the call returns after '
                        'ten minutes' % (cname, mname, asked, what))
                continue
            # event driven: every writer of the awaited state must set `ev`
            writers = state_writers(prog, f, what)
            if not writers:
                raise AnalysisError('UNRECOGNISED-IDIOM %s: no writer of the '
                                    '%s state found for the event driven wait'
                                    % (f.where, what))
            # a writer of the entity class may wake for all callers
            ent = prog.cls(*ENTITY[what])
            upd = ent.methods.get('_update')
            in_update = False
            if _manager_kind(f) and upd is not None:
                ug = cfg_of(upd)
                uw = state_writers(prog, upd, what)
                in_update = bool(uw) and all(
                    _unwoken_path(prog, h2, g2, n2.id, ev) is None
                    for h2, g2, n2, s2 in uw if h2 is upd)
            for h, hg, wn, s in writers:
                rep.saw(h)
                wit = None
                if not in_update:
                    wit = _unwoken_path(prog, h, hg, wn.id, ev)
                    if wit is not None and _callers_wake(prog, h, ev):
                        wit = None
                text = '%s: the write of the %s state `%s` is followed by ' \
                       '`%s.set()` on every path (wakes %s)' \
                       % (h.qual, what, short(s, 40), ev, f.qual)
                if wit is None:
                    rep.ok(rid, h, text, h.loc(s))
                    continue
                rep.bad(rid, h, s,
                        '%s blocks in `%s` until the event `%s` is set (the '
                        'period is the remaining timeout, or unlimited '
                        'without one), but %s changes %s states through `%s` '
                        'and returns without setting `%s`: a waiter is not '
                        'woken although the %s(s) it waits for reached the '
                        'awaited (or a final) state by this write'
                        % (f.qual, short(c, 60), ev, h.qual, what,
                           short(s, 50), ev, what), h.loc(s),
                        history='%s.%s() without timeout is pending; the '
                        'state of the last awaited %s is then written by '
                        '%s: the states are what was awaited, nobody sets '
                        '`%s`, the call never returns'
                        % (cname, mname, what, h.qual, ev), path=wit)
            # lost wake-up: clear() must come before the states are looked at
            loops = [hd for hd in n.loops if hd in g.loop_body]
            body = set()
            for hd in loops:
                body |= g.loop_body[hd] | {hd}
            for cn in g.nodes:
                root = _node_root(cn)
                if cn.id not in body or root is None:
                    continue
                clr = [x for x in calls_in(root)
                       if isinstance(x.func, ast.Attribute) and
                       x.func.attr == 'clear' and
                       _event_of(prog, f, g, x.func.value, cn.id,
                                 events) == ev]
                if not clr:
                    continue
                wit = _clear_reaches_wait(prog, f, g, cn.id, n.id, body)
                rep.check(wit is None, rid, f,
                          '%s: after `%s` the states are read again before '
                          'the wait blocks' % (f.qual, short(clr[0], 40)),
                          construct='clear before wait: %s' % short(clr[0], 40),
                          message='%s: `%s` can be followed by `%s` without '
                          'the %s states being read in between: a state '
                          'change (and its `set()`) that arrives after the '
                          'states were checked and before the clear is wiped '
                          'out, and the wait then blocks although all awaited '
                          '%ss are in the awaited state'
                          % (f.qual, short(clr[0], 40), short(c, 50), what,
                             what), loc=f.loc(clr[0]),
                          history='%s.%s() without timeout: the last awaited '
                          '%s becomes final between the check of the states '
                          'and the clear(); the call never returns'
                          % (cname, mname, what), path=wit)


# ------------------------------------------------------------------------------
# R15.10  the poll period stays short in every round
#
INF = float('inf')

# "shortly after": what the wait may add to the moment the awaited state was
# reached / the timeout expired is one poll period.  The unchanged code polls
# every 0.1 s; ten times that is the most this check takes for "shortly"
POLL_LIMIT = 1.0


def _period_sup(prog, f, g, e, at, env=None, depth=0):
    """least upper bound, over all rounds of the loops, of the non-negative
    number `e` (a blocking period, evaluated at cfg node `at`): constants are
    folded, locals followed to the definitions that reach the use; a local
    that is computed from its own previous value (`d = min(d * 2, cap)`,
    `d += step`) is iterated from its initial value to its fixpoint - INF if
    it keeps growing.  Values derived from the timeout are INF.  _Unk if an
    operand is not followed"""
    from ..flow import reaching_defs
    env = env or {}
    if depth > 12:
        raise _Unk(short(e, 40))
    if isinstance(e, ast.Constant):
        if _number(e.value):
            return float(e.value)
        if e.value is None:
            return INF
        raise _Unk(short(e, 40))
    if isinstance(e, ast.Name) and (e.id in f.params or
                                    reaching_defs(g, e.id, at)):
        if e.id in env:
            return env[e.id]
        defs = reaching_defs(g, e.id, at)
        if e.id in f.params:
            dn = [d.id for d, v in defs]
            if not dn or at in g.reachable(g.entry.id, skip_nodes=set(dn)):
                if e.id != 'timeout':
                    raise _Unk('parameter `%s`' % e.id)
                return INF
        cur = 0.0
        for _ in range(64):
            env2 = dict(env)
            env2[e.id] = cur
            new = cur
            for dn, val in defs:
                if val is None:
                    a = dn.ast
                    if not (dn.kind == 'stmt' and
                            isinstance(a, ast.AugAssign)):
                        raise _Unk(e.id)
                    v = _period_sup(prog, f, g, a.value, dn.id, env2,
                                    depth + 1)
                    if isinstance(a.op, ast.Add):
                        x = cur + v
                    elif isinstance(a.op, ast.Mult):
                        x = cur * v
                    elif isinstance(a.op, (ast.Sub, ast.Div)):
                        x = cur                  # shrinks (operands >= 0 ..)
                        if isinstance(a.op, ast.Div) and v < 1:
                            raise _Unk(short(a, 40))
                    else:
                        raise _Unk(short(a, 40))
                else:
                    x = _period_sup(prog, f, g, val, dn.id, env2, depth + 1)
                new = max(new, x)
            if new <= cur:
                return cur
            cur = new
            if cur == INF:
                return INF
        return INF
    if not isinstance(e, ast.Call):
        v = prog.fold(f.module, e, f.cls)
        if v is not UNKNOWN and _number(v):
            return float(v)
        if isinstance(e, (ast.Name, ast.Attribute)):
            raise _Unk(short(e, 40))
    if isinstance(e, ast.Call) and isinstance(e.func, ast.Name) and \
            not e.keywords:
        if e.func.id in ('min', 'max') and len(e.args) >= 2:
            vals = []
            for a in e.args:
                try:
                    vals.append(_period_sup(prog, f, g, a, at, env,
                                            depth + 1))
                except _Unk:
                    if e.func.id == 'max':
                        raise
                    vals.append(INF)
            return min(vals) if e.func.id == 'min' else max(vals)
        if e.func.id in ('float', 'int', 'abs', 'round') and e.args:
            return _period_sup(prog, f, g, e.args[0], at, env, depth + 1)
    if isinstance(e, ast.Call):
        body = inline_pred(prog, f, e, value=True)
        if body is not None:
            return _period_sup(prog, f, g, body, at, env, depth + 1)
        if clock_of(prog, f, e, f.module.local_imports(f.node)):
            return INF
        raise _Unk(short(e, 40))
    if isinstance(e, ast.BinOp):
        l = _period_sup(prog, f, g, e.left, at, env, depth + 1)
        if isinstance(e.op, ast.Sub):
            return l                             # minus something >= 0
        r = _period_sup(prog, f, g, e.right, at, env, depth + 1)
        if isinstance(e.op, ast.Add):
            return l + r
        if isinstance(e.op, ast.Mult):
            return 0.0 if 0.0 in (l, r) else l * r
        if isinstance(e.op, ast.Div):
            d = prog.fold(f.module, e.right, f.cls)
            if d is not UNKNOWN and _number(d) and d > 0:
                return l / d
        raise _Unk(short(e, 40))
    if isinstance(e, ast.UnaryOp) and isinstance(e.op, ast.UAdd):
        return _period_sup(prog, f, g, e.operand, at, env, depth + 1)
    if isinstance(e, ast.IfExp):
        return max(_period_sup(prog, f, g, e.body, at, env, depth + 1),
                   _period_sup(prog, f, g, e.orelse, at, env, depth + 1))
    if isinstance(e, ast.BoolOp):
        return max(_period_sup(prog, f, g, x, at, env, depth + 1)
                   for x in e.values)
    raise _Unk(short(e, 40))


def r15_10(prog, rep, rid='R15.10'):
    rep.rule(rid, 'a wait that polls looks at the states again after a short '
             'period in EVERY round: the least upper bound of the period of '
             'each bounded blocking call of the polling loop, over all rounds '
             '(a period computed from its own previous value is iterated to '
             'its fixpoint), is at most %.1f s' % POLL_LIMIT, minimum=4)
    events = _event_attrs(prog)
    for rel, cname, mname, what in ANCHORS:
        f = prog.method(rel, cname, mname)
        rep.saw(f)
        g = cfg_of(f)
        head = wait_loop(f, g)
        asked = 'DONE' if what == 'task' else 'PMGR_ACTIVE'
        for n, c, kind, ev, per in blocking_calls(prog, f, g, events):
            if n.id not in g.loop_body[head]:
                continue
            if kind == 'delegate':
                rep.ok(rid, f, '%s: `%s` hands the wait over to another wait '
                       'anchor, whose own period is checked' % (
                           f.qual, short(c, 50)), f.loc(c))
                continue
            try:
                if not _bounded(prog, f, g, per, n.id):
                    # not a poll: R15.7 decides who ends the blocking call
                    rep.ok(rid, f, '%s: `%s` does not poll (its period is '
                           'not bounded by a constant: R15.7 decides who '
                           'wakes it)' % (f.qual, short(c, 50)), f.loc(c))
                    continue
                sup = _period_sup(prog, f, g, per, n.id)
            except _Unk as e:
                raise AnalysisError(
                    'UNRECOGNISED-IDIOM %s: cannot evaluate the period of `%s` '
                    '(%s)' % (f.where, short(c, 60), e))
            grows = 'grows from round to round without bound' \
                if sup == INF else \
                'can be as long as %g s' % sup
            rep.check(sup <= POLL_LIMIT, rid, f,
                      '%s: `%s` blocks for at most %g s in every round'
                      % (f.qual, short(c, 50), sup),
                      construct='poll period of %s' % _callee_name(c),
                      message='%s: the period of `%s` %s (evaluated over all '
                      'rounds of the polling loop): the %s states and the '
                      'timeout are not looked at again before it is over, so '
                      'the call returns that much later than the awaited '
                      'state was reached / than its timeout - not "shortly '
                      'after" (the unchanged code polls every 0.1 s; this '
                      'check accepts up to %.1f s)'
                      % (f.qual, short(c, 50), grows, what, POLL_LIMIT),
                      loc=f.loc(c),
                      history='%s.%s(rps.%s) called long before the %s gets '
                      'there (or with a timeout of a minute on a %s that '
                      'never does): the call returns up to %s after the state '
                      'was reached / the timeout expired'
                      % (cname, mname, asked, what, what,
                         'an unbounded time' if sup == INF else
                         '%g s' % sup))


# ------------------------------------------------------------------------------
# R15.8  a wait that hands over to another wait hands over its timeout
#
SIGNS = ('neg', 'zero', 'pos')
ALLNUM = frozenset(SIGNS)


def _sign(v):
    return 'zero' if v == 0 else ('pos' if v > 0 else 'neg')


def _neg(s):
    return frozenset({'neg': 'pos', 'pos': 'neg'}.get(x, x) for x in s)


def _add(a, b):
    out = set()
    for x in a:
        for y in b:
            if x == 'zero':
                out.add(y)
            elif y == 'zero' or x == y:
                out.add(x)
            else:
                out |= ALLNUM
    return frozenset(out)


def _mul(a, b):
    out = set()
    for x in a:
        for y in b:
            out.add('zero' if 'zero' in (x, y) else
                    ('pos' if x == y else 'neg'))
    return frozenset(out)


def _minmax(sets, lo):
    """sign of min (lo) / max of numbers with the given sign sets"""
    order = SIGNS if lo else SIGNS[::-1]
    out = set()

    def rec(i, cur):
        if i == len(sets):
            out.add(cur)
            return
        for x in sets[i]:
            rec(i + 1, x if cur is None or order.index(x) < order.index(cur)
                else cur)
    rec(0, None)
    return frozenset(out)


def _restrict(vals, op, c, want):
    """the values of `vals` for which `<value> op c` is `want` for some number
    of that sign (None never survives an ordering test)"""
    out = set()
    for v in vals:
        if v == 'none':
            if isinstance(op, (ast.Eq, ast.NotEq)):
                if isinstance(op, ast.NotEq) == want:
                    out.add(v)
            continue
        tv = _sign_cmp(v, op, c)
        if tv is None or tv == want:
            out.add(v)
    return frozenset(out)


class TimeoutVals:
    """what a function hands down as timeout, as a set of {'none', 'neg',
    'zero', 'pos'}, under the assumption that its own timeout parameters were
    given (are positive numbers).  Names are followed to the definitions that
    reach the use on paths that are feasible under that assumption, and the
    result is narrowed by the tests on that name which dominate the use."""

    def __init__(self, prog, f, g, tparams):
        from ..flow import guards
        self.prog, self.f, self.g = prog, f, g
        self.tparams = set(tparams)
        self.limports = f.module.local_imports(f.node)
        self.clock = False
        # edges that are not taken when the timeout parameters are given
        self.dead = []
        for n in g.nodes:
            if n.kind != 'test':
                continue
            tv = self._given(n.ast)
            if tv is not None:
                self.dead.append((n.id, 'F' if tv else 'T'))
        self.live = g.reachable(g.entry.id, skip_edges=self.dead)
        self._guards = {}
        self.memo = {}
        self.active = set()
        self.changed = False

    def _given(self, atom):
        """truth of a test on a timeout parameter that was given"""
        if isinstance(atom, ast.Name) and atom.id in self.tparams and \
                not self._rebound(atom.id):
            return True
        if isinstance(atom, ast.Compare) and len(atom.ops) == 1 and \
                isinstance(atom.left, ast.Name) and \
                atom.left.id in self.tparams and \
                not self._rebound(atom.left.id) and \
                isinstance(atom.comparators[0], ast.Constant):
            c, op = atom.comparators[0].value, atom.ops[0]
            if c is None:
                if isinstance(op, (ast.Is, ast.Eq)):
                    return False
                if isinstance(op, (ast.IsNot, ast.NotEq)):
                    return True
            elif _number(c):
                return _sign_cmp('pos', op, c)
        return None

    def _rebound(self, name):
        return any(name in stores_of(n) for n in self.g.nodes)

    def guards_of(self, at):
        """branch edges every feasible path from the entry to `at` takes
        (control dependence with polarity, over the paths that exist when a
        timeout is given)"""
        if at not in self._guards:
            g = self.g
            out = []
            for n in g.nodes:
                if n.kind != 'test' or n.id not in self.live:
                    continue
                for lab in ('T', 'F'):
                    if (n.id, lab) in self.dead:
                        continue
                    r = g.reachable(g.entry.id,
                                    skip_edges=self.dead + [(n.id, lab)])
                    if at not in r:
                        out.append((n.id, lab))
            self._guards[at] = out
        return self._guards[at]

    def _defs(self, name, at):
        """(definitions of `name` that reach `at`, does the value the name has
        on entry reach `at`) - on paths feasible when a timeout is given"""
        g = self.g
        ids = {n.id for n in g.nodes if name in stores_of(n)}
        skip = ids - {at}
        out = []
        for d in sorted(ids):
            if d not in self.live:
                continue
            r = set()
            for e in g.succ[d]:
                if e.label == 'exc':
                    continue
                if e.dst == at:
                    r.add(at)
                elif e.dst not in skip:
                    r |= g.reachable(e.dst, skip_nodes=skip,
                                     skip_edges=self.dead)
            if at in r:
                out.append(g.nodes[d])
        entry = at in g.reachable(g.entry.id, skip_nodes=skip,
                                  skip_edges=self.dead)
        return out, entry

    def _narrow(self, name, vals, src, at):
        """the values that survive the tests on `name` which every feasible
        path from its definition `src` (a cfg node id; None: the value on
        entry) to the use `at` takes, no other definition in between"""
        g = self.g
        ids = {n.id for n in g.nodes if name in stores_of(n)}
        skip = ids - {at}
        if src is None:
            starts = [g.entry.id]
        else:
            starts = [e.dst for e in g.succ[src] if e.label != 'exc']
            if at in starts:
                return vals
            starts = [x for x in starts if x not in skip]
        for tn in g.nodes:
            if tn.kind != 'test':
                continue
            a = tn.ast
            if isinstance(a, ast.Name) and a.id == name:
                kind = ('truth', None, None)
            elif isinstance(a, ast.Compare) and len(a.ops) == 1 and \
                    isinstance(a.left, ast.Name) and a.left.id == name and \
                    isinstance(a.comparators[0], ast.Constant):
                kind = ('cmp', a.ops[0], a.comparators[0].value)
            else:
                continue
            lab = None
            for x in ('T', 'F'):
                if (tn.id, x) in self.dead:
                    continue
                r = g.reachable(starts, skip_nodes=skip,
                                skip_edges=self.dead + [(tn.id, x)])
                if at not in r:
                    lab = x
            if lab is None:
                continue
            want = lab == 'T'
            if kind[0] == 'truth':
                keep = {'pos', 'neg'} if want else {'none', 'zero'}
                vals = frozenset(v for v in vals if v in keep)
            else:
                op, c = kind[1], kind[2]
                if c is None:
                    if isinstance(op, (ast.Is, ast.Eq)):
                        isn = want
                    elif isinstance(op, (ast.IsNot, ast.NotEq)):
                        isn = not want
                    else:
                        continue
                    vals = frozenset(v for v in vals if (v == 'none') == isn)
                elif _number(c):
                    vals = _restrict(vals, op, c, want)
        return vals

    def _related(self, l, r, at):
        """sign of l - r known from a dominating comparison of the same two
        (call free, not re-bound) operands: set of signs or None"""
        if calls_in(l) or calls_in(r):
            return None
        g = self.g
        names = {x.id for e in (l, r) for x in walk(e)
                 if isinstance(x, ast.Name)}
        ids = {n.id for n in g.nodes if set(stores_of(n)) & names}
        tl, tr = unparse(l), unparse(r)
        res = None
        for t, lab in self.guards_of(at):
            a = g.nodes[t].ast
            if not (isinstance(a, ast.Compare) and len(a.ops) == 1):
                continue
            al, ar = unparse(a.left), unparse(a.comparators[0])
            if (al, ar) == (tl, tr):
                flip = False
            elif (al, ar) == (tr, tl):
                flip = True
            else:
                continue
            starts = [e.dst for e in g.succ[t] if e.label == lab]
            between = g.reachable(starts, skip_nodes={t},
                                  skip_edges=self.dead) if starts else set()
            if any(d in between and at in g.reachable(
                    [e.dst for e in g.succ[d] if e.label != 'exc'],
                    skip_nodes={t}, skip_edges=self.dead)
                    for d in ids if d != at):
                continue
            # l - r  <op> 0
            s = _restrict(ALLNUM, a.ops[0], 0, lab == 'T')
            if flip:
                s = _neg(s)
            res = s if res is None else (res & s)
        return res

    def name(self, x, at):
        key = (x, at)
        if key in self.active:
            return self.memo.get(key, frozenset())
        self.active.add(key)
        defs, entry = self._defs(x, at)
        vals = frozenset()
        if entry:
            if x in self.tparams:
                vals |= self._narrow(x, frozenset({'pos'}), None, at)
            else:
                raise _Unk('`%s` is not defined by the function' % x)
        for dn in defs:
            a = dn.ast
            if dn.kind == 'stmt' and isinstance(a, (ast.Assign, ast.AnnAssign)) \
                    and a.value is not None:
                tg = a.targets if isinstance(a, ast.Assign) else [a.target]
                if not all(isinstance(t, ast.Name) for t in tg):
                    raise _Unk('`%s` is bound by `%s`' % (x, short(a, 40)))
                v = self.expr(a.value, dn.id)
            elif dn.kind == 'stmt' and isinstance(a, ast.AugAssign) and \
                    isinstance(a.target, ast.Name):
                v = self.binop(a.op, self.name(x, dn.id),
                               self.expr(a.value, dn.id), None, None, dn.id)
            else:
                raise _Unk('`%s` is bound by `%s`' % (x, short(a, 40)))
            vals |= self._narrow(x, frozenset(v), dn.id, at)
        self.active.discard(key)
        if self.memo.get(key) != vals:
            self.changed = True
        self.memo[key] = vals
        return vals

    def binop(self, op, a, b, l, r, at):
        a = frozenset(a) - {'none'}
        b = frozenset(b) - {'none'}
        if isinstance(op, ast.Add):
            return _add(a, b)
        if isinstance(op, ast.Sub):
            out = _add(a, _neg(b))
            if l is not None:
                rel = self._related(l, r, at)
                if rel is not None:
                    out = out & rel
            return out
        if isinstance(op, ast.Mult):
            return _mul(a, b)
        if isinstance(op, (ast.Div, ast.FloorDiv)):
            out = _mul(a, b - {'zero'})
            if isinstance(op, ast.FloorDiv) and 'pos' in out:
                out = out | {'zero'}
            return out
        raise _Unk('operator of `%s`' % type(op).__name__)

    def expr(self, e, at):
        if isinstance(e, ast.Constant):
            if e.value is None:
                return frozenset({'none'})
            if isinstance(e.value, (int, float)):
                return frozenset({_sign(e.value)})
            raise _Unk(short(e, 40))
        if isinstance(e, ast.Name):
            return self.name(e.id, at)
        if isinstance(e, ast.BinOp):
            return self.binop(e.op, self.expr(e.left, at),
                              self.expr(e.right, at), e.left, e.right, at)
        if isinstance(e, ast.UnaryOp) and isinstance(e.op, ast.USub):
            return _neg(self.expr(e.operand, at))
        if isinstance(e, ast.IfExp):
            tv = self._given(e.test)
            out = frozenset()
            if tv is not False:
                out |= self.expr(e.body, at)
            if tv is not True:
                out |= self.expr(e.orelse, at)
            return out
        if isinstance(e, ast.BoolOp) and isinstance(e.op, ast.Or):
            out = frozenset()
            for i, v in enumerate(e.values):
                s = self.expr(v, at)
                if i < len(e.values) - 1:
                    out |= s - {'none', 'zero'}
                    if not (s & {'none', 'zero'}):
                        return out
                else:
                    out |= s
            return out
        if isinstance(e, ast.Call):
            if clock_of(self.prog, self.f, e, self.limports):
                self.clock = True
                return frozenset({'pos'})
            fn = e.func.id if isinstance(e.func, ast.Name) else None
            if fn in ('min', 'max') and len(e.args) >= 2 and not e.keywords:
                sets = [self.expr(a, at) - {'none'} for a in e.args]
                if all(sets):
                    return _minmax(sets, fn == 'min')
            if fn in ('float', 'abs', 'int', 'round') and len(e.args) >= 1 \
                    and not e.keywords:
                s = self.expr(e.args[0], at) - {'none'}
                if fn == 'abs':
                    s = frozenset('pos' if x == 'neg' else x for x in s)
                if fn in ('int', 'round') and s & {'pos', 'neg'}:
                    s = s | {'zero'}
                return s
            body = inline_pred(self.prog, self.f, e, value=True)
            if body is not None:
                return self.expr(body, at)
            val = self.prog.fold(self.f.module, e, self.f.cls)
            if val is not UNKNOWN and _number(val):
                return frozenset({_sign(val)})
            raise _Unk('call `%s`' % short(e, 40))
        val = self.prog.fold(self.f.module, e, self.f.cls)
        if val is None:
            return frozenset({'none'})
        if val is not UNKNOWN and _number(val):
            return frozenset({_sign(val)})
        raise _Unk('`%s`' % short(e, 40))

    def values(self, e, at):
        """fixpoint (definitions inside loops refer to each other)"""
        for i in range(12):
            self.changed = False
            self.active = set()
            out = self.expr(e, at)
            if not self.changed:
                return out
        raise _Unk('no fixpoint for `%s`' % short(e, 40))


def _closure_names(f, g, e, at):
    """parameters of f and clock reads the expression is computed from
    (syntactic closure over the definitions that reach the use)"""
    from ..flow import reaching_defs
    params, seen = set(), set()
    todo = [(e, at)]
    while todo:
        x, n = todo.pop()
        for nm in walk(x, nested=True):
            if not (isinstance(nm, ast.Name) and isinstance(nm.ctx, ast.Load)):
                continue
            if (nm.id, n) in seen:
                continue
            seen.add((nm.id, n))
            defs = reaching_defs(g, nm.id, n)
            if nm.id in f.params:
                params.add(nm.id)
            for dn, v in defs:
                if v is not None:
                    todo.append((v, dn.id))
                elif dn.kind == 'stmt' and isinstance(dn.ast, ast.AugAssign):
                    todo.append((dn.ast.value, dn.id))
                    todo.append((dn.ast.target, dn.id))
    return params


def _timeout_of_call(anchor, call, tname='timeout'):
    """the expression a call passes as `timeout` of the anchor (None: not
    passed)"""
    for k in call.keywords:
        if k.arg == tname:
            return k.value
    params = anchor.params[1:]
    if tname in params and params.index(tname) < len(call.args):
        return call.args[params.index(tname)]
    return None


def _ignores_timeout(prog, anchor, sign, cache):
    """does the wait anchor run on after a timeout of the given sign has
    expired?  (witness | None)"""
    key = (anchor.where, sign)
    if key not in cache:
        g = cfg_of(anchor)
        head = wait_loop(anchor, g)
        wit, n = loop_has_infinite_path(prog, anchor, g, head, 'timeout',
                                        _final(prog), 'timeout', tval=sign)
        cache[key] = wit
    return cache[key]


def r15_8(prog, rep, rid='R15.8'):
    rep.rule(rid, 'a wait that hands over to another wait anchor passes a '
             'timeout which that anchor understands as a timeout whenever '
             'the caller was given one (no None, no 0 where 0 means "no '
             'timeout"), and inside a loop one that shrinks with the time '
             'used up', minimum=2)
    events = _event_attrs(prog)
    names = set(_anchor_by_name(prog))
    own = {prog.method(rel, c, m).where: (c, m, what)
           for rel, c, m, what in ANCHORS}
    cache = {}
    for cls in _anchor_classes(prog):
        for f in _methods_of(cls):
            cands = [c for c in calls_in(f.node)
                     if isinstance(c.func, ast.Attribute) and
                     c.func.attr in names]
            if not cands:
                continue
            g = cfg_of(f)
            for c in cands:
                node = _node_of(g, c)
                if node is None:
                    continue
                tgt = _delegate_target(prog, f, g, c, node.id, events)
                if tgt is None:
                    continue
                rep.saw(f)
                texpr = _timeout_of_call(tgt, c)
                is_anchor = f.where in own and 'timeout' in f.params
                if texpr is None:
                    tparams = {'timeout'} if is_anchor else set()
                else:
                    tparams = _closure_names(f, g, texpr, node.id)
                    if is_anchor:
                        tparams &= {'timeout'}
                        tparams.add('timeout')
                if not tparams:
                    if texpr is not None:
                        rep.ok(rid, f, '%s: `%s` passes a timeout of its own'
                               % (f.qual, short(c, 50)), f.loc(c))
                    continue                 # the caller has no timeout
                tv = TimeoutVals(prog, f, g, tparams)
                if node.id not in tv.live:
                    rep.ok(rid, f, '%s: `%s` is not reached when a timeout is '
                           'given' % (f.qual, short(c, 50)), f.loc(c))
                    continue
                try:
                    vals = tv.values(texpr, node.id) if texpr is not None \
                        else frozenset({'none'})
                except _Unk as e:
                    raise AnalysisError(
                        'UNRECOGNISED-IDIOM %s: the timeout `%s` handed to '
                        '%s is computed in a way the evaluator does not '
                        'follow (%s)' % (f.where, short(texpr, 40), tgt.qual,
                                         e))
                if not vals:
                    raise AnalysisError(
                        'UNRECOGNISED-IDIOM %s: no value of the timeout `%s` '
                        'handed to %s survives the tests in front of the call'
                        % (f.where, short(texpr, 40), tgt.qual))
                tn = sorted(tparams)[0]
                what = own.get(tgt.where, ('', '', 'entity'))[2]
                shown = short(texpr, 50) if texpr is not None else 'nothing'
                bad = None
                if 'none' in vals:
                    bad = ('none', '%s passes %s as timeout of `%s` on a path '
                           'on which its own `%s` is given: %s then waits '
                           'without any timeout' % (f.qual, shown,
                                                    short(c, 60), tn,
                                                    tgt.qual))
                else:
                    for sign in ('zero', 'neg'):
                        if sign in vals and _ignores_timeout(prog, tgt, sign,
                                                             cache):
                            bad = (sign, '%s can pass %s as timeout of `%s` '
                                   '(`%s` evaluates to %s when `%s` is given '
                                   'and used up), but %s treats that value as '
                                   '"no timeout" (its timeout exit is not '
                                   'taken for it): the hand-over drops the '
                                   'timeout' % (
                                       f.qual, {'zero': '0', 'neg': 'a '
                                                'negative number'}[sign],
                                       short(c, 60), shown,
                                       '/'.join(sorted(vals)), tn, tgt.qual))
                            break
                hist = '%s(%s=1.0): the time is used up when `%s` is ' \
                       'reached (a %s awaited before took it); the %s awaited ' \
                       'there is not in a requested or final state and stays ' \
                       'so: the call does not return' \
                       % (f.qual, tn, short(c, 50), what, what)
                if bad:
                    rep.bad(rid, f, 'timeout handed to %s: %s' % (tgt.qual,
                                                                  bad[0]),
                            bad[1], f.loc(c), history=hist)
                    continue
                # inside a loop the budget must shrink
                if node.loops and is_anchor:
                    shrinks = tv.clock
                    try:
                        const = _bounded(prog, f, g, texpr, node.id)
                    except _Unk:
                        const = False
                    if not shrinks and not const:
                        rep.bad(rid, f, 'timeout handed to %s: not shared'
                                % tgt.qual,
                                '%s calls `%s` once per round of a loop and '
                                'hands `%s` down each time without taking off '
                                'the time already used: the rounds add up to '
                                'a multiple of the timeout'
                                % (f.qual, short(c, 60), shown), f.loc(c),
                                history='%s(%s=10) for three %ss that never '
                                'reach the state: returns after 30 seconds'
                                % (f.qual, tn, what))
                        continue
                rep.ok(rid, f, '%s: `%s` hands down %s (%s) - %s takes each '
                       'of them as a timeout' % (f.qual, short(c, 50), shown,
                                                 '/'.join(sorted(vals)),
                                                 tgt.qual), f.loc(c))


# ------------------------------------------------------------------------------
# R15.11  the state the pilot wait loops poll becomes final.  Pilot.wait and
# wait_pilots poll Pilot._state; its only writer is Pilot._update, driven by
# PilotManager._update_pilot (C14).  "Returns once the awaited entity is
# final" needs: for a pilot facade in ANY non-final state (notifications may
# be lost or late) that is notified a final state T, the states _update_pilot
# hands Pilot._update - applied one by one by Pilot._update as it is - leave
# the facade in T.  That is decidable only by value over the pilot state table
# (what is replayed x what Pilot._update accepts), which is what C14's R14.7
# does: the rule is C14's, evaluated here, and of its findings only those are
# taken over for which the facade really does not end in T (a replay that is
# wrong for the callbacks but still ends in T is C14's matter alone).
#
_RE_REPLAY = (r'for a pilot in state (\S+) that is notified (\S+), '
              r'Pilot\._update receives the states (\[[^\]]*\]); it must')
_RE_ACCEPT = r'hands Pilot\._update the step (\S+) -> (\S+),'


def _plain_state_writes(prog, upd):
    """the `state` the wait loops read is `self._state`, and Pilot._update
    (with the methods of the class) writes it by plain assignments only: what
    R14.7's evaluation of Pilot._update follows"""
    prop = prog.find_method(upd.cls, 'state')
    if prop is not None:
        rets = [n.value for n in walk(prop.node) if isinstance(n, ast.Return)]
        if len(rets) != 1 or rets[0] is None or \
                unparse(rets[0]) != 'self._state':
            return False
    for h in _methods_of(upd.cls):
        if h.name == '__init__':
            continue
        for n in walk(h.node):
            if isinstance(n, ast.Call) and dotted(n.func) == 'setattr' and \
                    n.args and unparse(n.args[0]) == 'self' and not (
                        len(n.args) == 3 and
                        isinstance(n.args[1], ast.Constant) and
                        n.args[1].value not in STATE_ATTRS):
                return False
            if isinstance(n, (ast.AugAssign, ast.AnnAssign)) and \
                    unparse(n.target) == 'self._state':
                return False
            if isinstance(n, ast.Assign) and any(
                    unparse(x) == 'self._state'
                    for t in n.targets for x in walk(t)) and not (
                        len(n.targets) == 1 and
                        unparse(n.targets[0]) == 'self._state'):
                return False
    return True


def r15_11(prog, rep, rid='R15.11'):
    import re
    from . import c14
    from ..report import Report
    fn  = getattr(c14, 'r14_7', None)
    acc = getattr(c14, '_step_accepted', None)
    if fn is None or acc is None:
        raise AnalysisError('%s: c14.r14_7 / c14._step_accepted not found'
                            % rid)
    rep.rule(rid, '[C14 R14.7, the part this property needs] the state the '
             'pilot wait loops poll becomes final: for a pilot facade in any '
             'non-final state that is notified DONE / FAILED / CANCELED, the '
             'states PilotManager._update_pilot hands Pilot._update, applied '
             'one by one by Pilot._update, leave Pilot._state in that final '
             'state', minimum=3)
    final = _final(prog)
    up  = prog.method('pilot_manager.py', 'PilotManager', '_update_pilot')
    upd = prog.method('pilot.py', 'Pilot', '_update')
    rep.saw(up)
    rep.saw(upd)
    tmp = Report(rep.prop, rep.tier, rep.root, quiet=True)
    fn(prog, tmp, rid=rid)
    for k, v in tmp.stats.items():
        rep.stat(k, v)
    plain = _plain_state_writes(prog, upd)
    bad, masked = {}, set()

    def mask(kind, tgt, why, loc):
        rep.info(rid, up, 'final target %s (%s): %s - not decided here, '
                 'C14 R14.7 reports it' % (tgt, kind, why), loc)
        masked.add((kind, tgt))

    for fd in tmp.findings:
        kind, _, tgt = str(fd.construct).partition(':')
        if kind not in ('replay', 'accept') or tgt not in final:
            continue
        if not plain:
            mask(kind, tgt, 'Pilot._state is not written by plain '
                 'assignments to self._state only, the evaluation of '
                 'Pilot._update is not relied on', fd.loc)
            continue
        if kind == 'accept':
            m = re.search(_RE_ACCEPT, fd.message)
            if not m or m.group(2) != tgt:
                raise AnalysisError('%s: finding of R14.7 not understood: %s'
                                    % (rid, fd.message[:120]))
            prev = m.group(1)
            if prev in final:
                mask(kind, tgt, 'R14.7 names a step from the pilot already '
                     'being %s (a wait has returned for it)' % prev, fd.loc)
                continue
            bad[(kind, tgt)] = (fd, prev, [tgt], prev)
            continue
        m = re.search(_RE_REPLAY, fd.message)
        try:
            seq = ast.literal_eval(m.group(3)) if m else None
        except (ValueError, SyntaxError):
            seq = None
        if not m or m.group(2) != tgt or not isinstance(seq, list) or \
                not all(isinstance(s, str) for s in seq):
            raise AnalysisError('%s: finding of R14.7 not understood: %s'
                                % (rid, fd.message[:120]))
        cur = m.group(1)
        if cur in final:
            mask(kind, tgt, 'R14.7 names the nearest pair only, a pilot '
                 'that already is %s (a wait has returned for it)' % cur,
                 fd.loc)
            continue
        # apply the states as Pilot._update does.  A step it does not take
        # either raises (the rest of the replay is not run) or returns (the
        # replay goes on from the old state): the facade must miss the final
        # state either way
        ends, unknown = set(), False
        for stop in (True, False):
            st = cur
            for s in seq:
                a = True if s == st else acc(prog, upd, st, s)
                if a is None:
                    unknown = True
                    break
                if a:
                    st = s
                elif stop:
                    break
            ends.add(st)
        if unknown:
            mask(kind, tgt, 'a step of %s from %s cannot be evaluated in '
                 'Pilot._update' % (seq, cur), fd.loc)
        elif tgt in ends:
            rep.info(rid, up, 'C14 R14.7 reports the replay %s for a pilot '
                     'in %s notified %s; Pilot._update takes it and ends in '
                     '%s: the waits are not affected' % (seq, cur, tgt, tgt),
                     fd.loc)
        else:
            bad[(kind, tgt)] = (fd, cur, seq, sorted(ends)[0])

    for tgt in sorted(final):
        for kind in ('replay', 'accept'):
            if (kind, tgt) in masked:
                continue
            hit = bad.get((kind, tgt))
            if hit is None:
                rep.ok(rid, up, '%s: %s' % (up.qual, (
                    'a pilot in a non-final state that is notified %s is '
                    'handed to Pilot._update so that it ends in %s'
                    % (tgt, tgt)) if kind == 'replay' else
                    'Pilot._update takes every step into %s it is handed'
                    % tgt), up.loc())
                continue
            fd, cur, seq, end = hit
            rep.bad(rid, fd.where, 'polled pilot state never becomes %s (%s)'
                    % (tgt, kind),
                    '%s: a pilot facade in state %s that is notified %s is '
                    'handed the state(s) %s; %s does not take %s (it '
                    'raises / returns before `self._state = ...`), so '
                    'Pilot._state - the state Pilot.wait and PilotManager.'
                    'wait_pilots poll - stays %s and never becomes %s, also '
                    'when the notification is repeated [%s]'
                    % (up.qual, cur, tgt, seq, upd.qual,
                       'the step' if kind == 'accept' else 'them one by one',
                       end, tgt, fd.message[:160]),
                    fd.loc,
                    history='pilot facade is %s, the notification(s) of the '
                    'states between are lost or late, the %s notification '
                    'arrives: Pilot._update rejects it in the state '
                    'subscriber, pilot.state stays %s; pmgr.wait_pilots() / '
                    'pilot.wait() (default: any final state) never return '
                    'although the pilot is %s - with a timeout they return '
                    'only at the timeout' % (cur, tgt, end, tgt))


# ------------------------------------------------------------------------------
#
def run(prog, rep, tier):
    rep.decided = ('for Task.wait, Pilot.wait, TaskManager.wait_tasks and '
        'PilotManager.wait_pilots: the requested-state variable reaching the '
        'polling loop is rps.FINAL / [state] / state for the three kinds of '
        'argument, and the loop depends on it; the polling loop has no '
        'infinite path once all awaited entities are final (whatever was '
        'requested) nor once a given timeout has expired (abstract '
        'interpretation with list emptiness, k=1 inner loops); every return '
        'returns a state read that is not older than the loop.  For '
        'wait_tasks / wait_pilots: the returned list holds one state per '
        'awaited uid in the order of the uids (walk over all uids, nothing '
        're-orders or resizes the list in place before the return); '
        'the keep-waiting condition is right for '
        'every request and state (state tables), and the check list only '
        'shrinks from round to round unless leaving it is permanent; the same '
        'table for the loop tests of Task.wait / Pilot.wait; for all four the '
        'wait also ends for an entity that is PAST a requested state (R15.9: '
        'known findings, only wait_tasks compares values).  For all '
        'four: the timeout is compared with a difference of two reads of the '
        'same clock; every blocking call either has a period bounded by a '
        'constant or waits on an event that every writer of the awaited state '
        'sets afterwards on every path (and a clear() of that event is '
        'followed by a re-read of the states before blocking).  For every '
        'call of a wait anchor from the four classes: the timeout handed down '
        'is, whenever the caller was given one, a value the callee treats as '
        'a timeout (not None; 0 / negative only if the callee ends for it), '
        'and shrinks with the clock when handed down in a loop.  The poll '
        'period of every bounded blocking call of the polling loops stays '
        'at most one second in every round (R15.10).  The state the pilot '
        'waits poll becomes final for every non-final facade state and '
        'every final notification (R15.11: C14 R14.7 evaluated for final '
        'targets, replay x what Pilot._update accepts).')
    rep.undecided = ('"shortly after" below one second (the scheduling of the '
        'waiting thread; R15.10 bounds the poll period by one second only); '
        'that the state attribute is eventually updated '
        '(C05/C06/C14) - except the pilot facade for final notifications '
        '(R15.11); the task side (TaskManager._update_tasks -> Task._update) '
        'is C06\'s.')
    rep.assumptions = [
        'a final state never changes (C06 / C14), so a test `x.state in '
        'rps.FINAL` stays true for the rest of the wait',
        'the awaited entity is whatever `<expr>.state` the loop tests; a '
        'comparison with a collection that folds to a superset of rps.FINAL '
        'is a final-state test',
        'the parameters are named `state`, `timeout` and `uids` (public API)',
        'the returned list is changed in place only by its own list methods, '
        'element stores / del, `+=`, or shuffle / heap functions, on its name '
        'or a plain alias; a callee that is handed the list (a reporter, a '
        'logger) does not change it',
        'a local list is empty after `= list()`/`[]`, after a comprehension '
        'whose filter requires a non-final state (under the all-final '
        'assumption) and on the false edge of a truth test; append/extend/+= '
        'make it unknown',
        'the state of an entity only moves up the value table of states.py '
        '(C05 / C06): a keep-waiting condition that is false in s1 and true '
        'in a state of higher value makes re-examination observable',
        'an entity whose state value lies above that of a requested state '
        'has been in that state (linear state model, C06 / C14: the state '
        'progress functions emit every intermediate state)',
        'clock functions are the time.* family and timeit.default_timer, '
        'resolved through the imports of the module; a clock hidden behind an '
        'attribute or an unresolvable call is not seen',
        'the writers of a task / pilot state are the `<x>._update(..)` calls '
        'on something else than self in the manager class (R06.2 / R14.2 '
        'show there are no others) - a call guarded by `<x>.state == '
        'd["state"]` does not change the state; statements after a write do '
        'not raise; an event is an attribute of the four classes assigned '
        'from Event() / Condition() and is identified by its attribute name',
        '"shortly after" tolerates a poll period of up to one second (ten '
        'times the 0.1 s of the code); blocking periods are non-negative',
        'a local memo of states (dict / list) is filled only by the stores '
        'and dict / list methods on its own name inside the function',
        'inside a manager, `<x>.wait(..)` on something that is not such an '
        'event is the wait of the entity the manager manages; a timeout '
        'parameter that is given is a positive number; an exact 0 from a '
        'subtraction of clock reads is possible (coarse or virtual clocks)',
    ]
    rep.attempt(r15_1, prog, rep)
    rep.attempt(r15_2, prog, rep)
    rep.attempt(r15_3, prog, rep)
    rep.attempt(r15_4, prog, rep)
    rep.attempt(r15_5, prog, rep)
    rep.attempt(r15_6, prog, rep)
    rep.attempt(r15_7, prog, rep)
    rep.attempt(r15_8, prog, rep)
    rep.attempt(r15_9, prog, rep)
    rep.attempt(r15_10, prog, rep)
    rep.attempt(r15_11, prog, rep)


# ------------------------------------------------------------------------------
# self-test variants
#
_T  = 'task.py'
_P  = 'pilot.py'
_TM = 'task_manager.py'
_PM = 'pilot_manager.py'

# proposed fixes (see /verif/proposed_fixes/F01.diff, F02.diff)
FIX_F01 = (_T, "        if not isinstance(state, list):\n            states = [state]\n",
               "        elif not isinstance(state, list):\n            states = [state]\n")
FIX_F02_T = (_T, "        while self.state not in states:\n\n            time.sleep(0.1)\n",
                 "        while self.state not in states and \\\n              self.state not in rps.FINAL:\n\n            time.sleep(0.1)\n")
FIX_F02_P = (_P, "        while self.state not in states:\n\n            time.sleep(0.1)\n",
                 "        while self.state not in states and \\\n              self.state not in rps.FINAL:\n\n            time.sleep(0.1)\n")
FIX_F02_R = (_P, "            if self.state in states:\n                return\n",
                 "            if self.state in states:\n                return self.state\n")

_LOOP_OLD   = "        while self.state not in states:\n\n            time.sleep(0.1)\n"
_LOOP_FIXED = ("        while self.state not in states and \\\n"
               "              self.state not in rps.FINAL:\n\n            time.sleep(0.1)\n")

_CMP = "                    rps._task_state_values[task.state] < check_state_val:"

_P_NORM = ("        if   not state                  : states = rps.FINAL\n"
           "        elif not isinstance(state, list): states = [state]\n"
           "        else                            : states = state\n")

# --- R15.5 / R15.6 sites
_PM_INIT  = "            to_check = [self._pilots[uid] for uid in uids]\n"
_PM_WHILE = "        self._rep.idle(mode='start')\n        while to_check and not self._terminate.is_set():\n"
_PM_FILT  = ("            to_check = [pilot for pilot in to_check\n"
             "                               if pilot.state not in states and\n"
             "                                  pilot.state not in rps.FINAL]\n")
_PM_TMO   = "                if timeout and (timeout <= (time.time() - start)):"
_TM_INIT  = "            to_check = [self._tasks[uid] for uid in uids]\n"
_TM_FOR   = "            check_again = list()\n            for task in to_check:\n"
_TM_COND  = "                if task.state not in rps.FINAL and \\\n" + _CMP
_TM_TMO   = "            if timeout and (timeout <= (time.time() - start)):"
_TM_START = "        start    = time.time()\n        to_check = None\n\n        with self._tasks_lock:"
_PM_START = "        start    = time.time()\n        to_check = None\n\n        with self._pilots_lock:"
_T_TMO    = "            if timeout and (timeout <= (time.time() - start_wait)):\n                break\n\n            if self._tmgr._terminate.is_set():"
_P_TMO    = "            if timeout and (timeout <= (time.time() - start_wait)):\n                break\n\n            if self._pmgr._terminate.is_set():"
_T_START  = "        start_wait = time.time()\n        while self.state not in states and \\\n              self.state not in rps.FINAL:\n\n            time.sleep(0.1)\n\n"
_TM_LOOP  = ("            check_again = list()\n            for task in to_check:\n\n"
             "                # we actually don't check if a task is in a specific (set of)\n"
             "                # state(s), but rather check if it ever *has been* in any of\n"
             "                # those states\n")


MUTATIONS = [
    dict(name='R15.1 Pilot.wait: elif becomes if (F01 in the pilot)',
         rules=('R15.1',), edits=[
        (_P, _P_NORM,
             "        if   not state                  : states = rps.FINAL\n"
             "        if   not isinstance(state, list): states = [state]\n"
             "        else                            : states = state\n")]),
    dict(name='R15.1 wait_tasks: default waits for DONE only',
         rules=('R15.1',), edits=[
        (_TM, "        if   not state                  : states = rps.FINAL\n",
              "        if   not state                  : states = [rps.DONE]\n")]),
    dict(name='R15.1 wait_pilots: list test inverted', rules=('R15.1',), edits=[
        (_PM, "        elif isinstance(state, list):\n            states = state\n",
              "        elif not isinstance(state, list):\n            states = state\n")]),
    dict(name='R15.1 wait_pilots: single state not wrapped in a list',
         rules=('R15.1',), edits=[
        (_PM, "        else:\n            states = [state]\n",
              "        else:\n            states = state\n")]),
    dict(name='R15.1 wait_pilots: loop ignores the requested states',
         rules=('R15.1',), edits=[
        (_PM, "                               if pilot.state not in states and\n                                  pilot.state not in rps.FINAL]",
              "                               if pilot.state not in rps.FINAL]")]),
    dict(name='R15.1 wait_tasks: default considered after the list test',
         rules=('R15.1',), edits=[
        (_TM, "        if   not state                  : states = rps.FINAL\n        elif not isinstance(state, list): states = [state]\n",
              "        if   not isinstance(state, list): states = [state]\n        elif not state                  : states = rps.FINAL\n")],
         note='None is not a list: [None] is chosen before the default is considered'),
    dict(name='R15.2 wait_tasks: final tasks are waited for like any other',
         rules=('R15.2',), edits=[
        (_TM, "                if task.state not in rps.FINAL and \\\n                    rps._task_state_values[task.state] < check_state_val:",
              "                if rps._task_state_values[task.state] < check_state_val:")]),
    dict(name='R15.2 wait_pilots: final pilots stay in the check list',
         rules=('R15.2',), edits=[
        (_PM, "                               if pilot.state not in states and\n                                  pilot.state not in rps.FINAL]",
              "                               if pilot.state not in states]")]),
    dict(name='R15.2 wait_pilots: final test inverted', rules=('R15.2',), edits=[
        (_PM, "                                  pilot.state not in rps.FINAL]",
              "                                  pilot.state in rps.FINAL]")]),
    dict(name='R15.1 F01 reverted: elif becomes if in Task.wait',
         rules=('R15.1',), edits=[
        (_T, "        elif not isinstance(state, list):\n            states = [state]\n",
             "        if not isinstance(state, list):\n            states = [state]\n")]),
    dict(name='R15.2 F02 reverted: Task.wait loop without the final-state escape',
         rules=('R15.2',), edits=[
        (_T, _LOOP_FIXED, _LOOP_OLD)]),
    dict(name='R15.2 F02 reverted: Pilot.wait loop without the final-state escape',
         rules=('R15.2',), edits=[
        (_P, _LOOP_FIXED, _LOOP_OLD)]),
    dict(name='R15.3 F02 reverted: Pilot.wait bare return',
         rules=('R15.3',), edits=[
        (_P, "            if self.state in states:\n                return self.state\n",
             "            if self.state in states:\n                return\n")]),
    dict(name='R15.2 Task.wait: escape with inverted polarity',
         rules=('R15.2',), edits=[
        (_T, _LOOP_FIXED, _LOOP_FIXED.replace("self.state not in rps.FINAL",
                                              "self.state in rps.FINAL"))]),
    dict(name='R15.2 Pilot.wait: escape only for FAILED pilots',
         rules=('R15.2',), edits=[
        (_P, _LOOP_FIXED, _LOOP_FIXED.replace("self.state not in rps.FINAL",
                                              "self.state not in [rps.FAILED]"))],
         note='a CANCELED pilot is still waited for'),
    dict(name='R15.2 Task.wait: escape joined with `or`',
         rules=('R15.2',), edits=[
        (_T, _LOOP_FIXED, _LOOP_FIXED.replace("states and", "states or "))],
         note='the loop continues while either test holds'),
    dict(name='R15.2 Task.wait: timeout test dropped', rules=('R15.2',), edits=[
        (_T, "            if timeout and (timeout <= (time.time() - start_wait)):\n                break\n\n            if self._tmgr._terminate.is_set():",
             "            if self._tmgr._terminate.is_set():")]),
    dict(name='R15.2 Pilot.wait: timeout comparison reversed',
         rules=('R15.2',), edits=[
        (_P, "            if timeout and (timeout <= (time.time() - start_wait)):",
             "            if timeout and (timeout >= (time.time() - start_wait)):")]),
    dict(name='R15.2 wait_pilots: timeout tested only when nothing is left',
         rules=('R15.2',), edits=[
        (_PM, "            if to_check:\n\n                if timeout and (timeout <= (time.time() - start)):",
              "            if not to_check:\n\n                if timeout and (timeout <= (time.time() - start)):")]),
    dict(name='R15.2 wait_tasks: timeout `break` became `continue`',
         rules=('R15.2',), edits=[
        (_TM, "                self._log.debug (\"wait timed out\")\n                break\n\n            time.sleep (0.1)\n\n            # FIXME: print percentage...",
              "                self._log.debug (\"wait timed out\")\n                continue\n\n            time.sleep (0.1)\n\n            # FIXME: print percentage...")]),
    dict(name='R15.3 Task.wait: early return without a value',
         rules=('R15.3',), edits=[
        (_T, "            if self.state in states:\n                return self.state\n",
             "            if self.state in states:\n                return\n")]),
    dict(name='R15.3 Task.wait: returns the requested state',
         rules=('R15.3',), edits=[
        (_T, "            if self._tmgr._terminate.is_set():\n                break\n\n        return self.state\n",
             "            if self._tmgr._terminate.is_set():\n                break\n\n        return state\n")]),
    dict(name='R15.3 wait_pilots: returns the stale `state` local',
         rules=('R15.3',), edits=[
        (_PM, "        if ret_list: return states\n        else       : return states[0]\n\n\n    # --------------------------------------------------------------------------\n    #\n    def _fail_missing_pilots(self):",
              "        if ret_list: return states\n        else       : return state\n\n\n    # --------------------------------------------------------------------------\n    #\n    def _fail_missing_pilots(self):")]),
    dict(name='R15.3 Pilot.wait: state sampled before the loop is returned',
         rules=('R15.3',), edits=[
        (_P, "        start_wait = time.time()\n        while self.state not in states and \\\n",
             "        current    = None\n        start_wait = time.time()\n        if timeout is None or timeout > 0:\n            current = self.state\n        while self.state not in states and \\\n"),
        (_P, "            if self._pmgr._terminate.is_set():\n                break\n\n        return self.state\n",
             "            if self._pmgr._terminate.is_set():\n                break\n\n        return current\n")]),
    dict(name='R15.4 wait_tasks: requested state itself keeps waiting (<=)',
         rules=('R15.4',), edits=[
        (_TM, _CMP, _CMP.replace("< check_state_val", "<= check_state_val"))]),
    dict(name='R15.4 wait_tasks: comparison reversed', rules=('R15.4',), edits=[
        (_TM, _CMP, _CMP.replace("< check_state_val", "> check_state_val"))]),
    dict(name='R15.4 wait_tasks: earliest requested value starts at 0',
         rules=('R15.4',), edits=[
        (_TM, "        check_state_val = rps._task_state_values[rps.FINAL[-1]]\n",
              "        check_state_val = 0\n")],
         note='min() never rises above 0: nothing is waited for'),
    dict(name='R15.4 wait_tasks: compares with the value after the requested one',
         rules=('R15.4',), edits=[
        (_TM, _CMP, _CMP.replace("< check_state_val", "< check_state_val + 1"))]),
    dict(name='R15.4 wait_pilots: pilots in a requested state stay on the list',
         rules=('R15.4',), edits=[
        (_PM, "                               if pilot.state not in states and\n",
              "                               if pilot.state in states and\n")]),
    dict(name='R15.1 normalisation helper returns [None] for the default',
         rules=('R15.1',), edits=[
        (_P, _P_NORM, "        states = self._wait_states(state)\n"),
        (_P, "    def wait(self, state=None, timeout=None):\n",
             "    @staticmethod\n    def _wait_states(state):\n\n"
             "        if not isinstance(state, list): return [state]\n"
             "        if not state                  : return rps.FINAL\n"
             "        return state\n\n\n"
             "    def wait(self, state=None, timeout=None):\n")]),
    dict(name='R15.4 pending predicate in a static helper uses <=',
         rules=('R15.4',), edits=[
        (_TM, "                if task.state not in rps.FINAL and \\\n" + _CMP,
              "                if self._wait_pending(task, check_state_val):"),
        (_TM, "    def wait_tasks(self, uids=None, state=None, timeout=None):\n",
              "    @staticmethod\n    def _wait_pending(task, check_state_val):\n\n"
              "        return task.state not in rps.FINAL and \\\n"
              "               rps._task_state_values[task.state] <= check_state_val\n\n\n"
              "    def wait_tasks(self, uids=None, state=None, timeout=None):\n")]),
    dict(name='R15.2 pending predicate in a static helper forgets the final test',
         rules=('R15.2',), edits=[
        (_TM, "                if task.state not in rps.FINAL and \\\n" + _CMP,
              "                if self._wait_pending(task, check_state_val):"),
        (_TM, "    def wait_tasks(self, uids=None, state=None, timeout=None):\n",
              "    @staticmethod\n    def _wait_pending(task, check_state_val):\n\n"
              "        return rps._task_state_values[task.state] < check_state_val\n\n\n"
              "    def wait_tasks(self, uids=None, state=None, timeout=None):\n")]),
    dict(name='R15.3 wait_pilots conditional return yields the stale local',
         rules=('R15.3',), edits=[
        (_PM, "        if ret_list: return states\n        else       : return states[0]\n\n\n    # --------------------------------------------------------------------------\n    #\n    def _fail_missing_pilots(self):",
              "        return states if ret_list else state\n\n\n    # --------------------------------------------------------------------------\n    #\n    def _fail_missing_pilots(self):")]),
    # --- R15.5
    dict(name='R15.5 seed C15-c: wait_pilots filters the full pilot list every round',
         rules=('R15.5',), edits=[
        (_PM, _PM_INIT, "            pilots = [self._pilots[uid] for uid in uids]\n"),
        (_PM, _PM_WHILE, "        self._rep.idle(mode='start')\n        to_check = pilots\n        while to_check and not self._terminate.is_set():\n"),
        (_PM, _PM_FILT, _PM_FILT.replace("for pilot in to_check", "for pilot in pilots"))],
         note='a pilot that matched PMGR_LAUNCHING and moved on is waited for again'),
    dict(name='R15.5 wait_pilots: loop form appends from a copy of the full list',
         rules=('R15.5',), edits=[
        (_PM, _PM_INIT, "            everything = [self._pilots[uid] for uid in uids]\n            to_check = list(everything)\n"),
        (_PM, _PM_FILT,
              "            pending = list()\n            for p in sorted(everything, key=lambda x: x.uid):\n"
              "                if p.state in rps.FINAL or p.state in states:\n                    continue\n"
              "                pending.append(p)\n            to_check = pending\n")]),
    dict(name='R15.5 wait_pilots: only the not-yet-active branch re-reads the full list',
         rules=('R15.5',), edits=[
        (_PM, _PM_INIT, "            pilots = [self._pilots[uid] for uid in uids]\n            to_check = pilots\n"),
        (_PM, _PM_FILT,
              "            source = to_check\n            if len(to_check) < len(pilots):\n                source = pilots\n"
              + _PM_FILT.replace("for pilot in to_check", "for pilot in source"))],
         note='one path through the round rebuilds the list from all pilots'),
    dict(name='R15.5 wait_tasks: membership test and the full task list every round',
         rules=('R15.5',), edits=[
        (_TM, _TM_INIT, "            tasks    = [self._tasks[uid] for uid in uids]\n            to_check = tasks\n"),
        (_TM, _TM_FOR, "            check_again = list()\n            for task in tasks:\n"),
        (_TM, _TM_COND, "                if task.state not in rps.FINAL and \\\n                    task.state not in states:")],
         note='the sibling site with the same mistake'),
    dict(name='R15.5 wait_pilots: handles looked up afresh in every round, then filtered',
         rules=('R15.5',), edits=[
        (_PM, _PM_FILT,
              "            with self._pilots_lock:\n                current = [self._pilots[uid] for uid in uids]\n"
              + _PM_FILT.replace("for pilot in to_check", "for pilot in current"))],
         note='the same mistake, the full list re-read from the manager table'),
    # --- R15.6
    dict(name='R15.6 seed C15-d: wait_tasks timeout on time.monotonic, start on time.time',
         rules=('R15.6',), edits=[
        (_TM, _TM_TMO, _TM_TMO.replace("time.time()", "time.monotonic()"))]),
    dict(name='R15.6 wait_pilots: start stamp from the monotonic clock only',
         rules=('R15.6',), edits=[
        (_PM, _PM_START, _PM_START.replace("time.time()", "time.monotonic()"))]),
    dict(name='R15.6 Task.wait: elapsed in a local, perf_counter against time.time',
         rules=('R15.6',), edits=[
        (_T, _T_TMO, "            waited = time.perf_counter() - start_wait\n            if timeout and waited >= timeout:\n                break\n\n            if self._tmgr._terminate.is_set():")]),
    dict(name='R15.6 Pilot.wait: deadline from time.time, compared with time.monotonic',
         rules=('R15.6',), edits=[
        (_P, _P_TMO, "            if timeout and time.monotonic() >= start_wait + timeout:\n                break\n\n            if self._pmgr._terminate.is_set():")]),
    dict(name='R15.6 wait_tasks: now() helper reads another clock than the start stamp',
         rules=('R15.6',), edits=[
        (_TM, _TM_TMO, "            if timeout and (timeout <= (self._now() - start)):"),
        (_TM, "    def wait_tasks(self, uids=None, state=None, timeout=None):\n",
              "    @staticmethod\n    def _now():\n\n        return time.monotonic()\n\n\n"
              "    def wait_tasks(self, uids=None, state=None, timeout=None):\n")]),
    dict(name='R15.6 wait_tasks: extracted timeout predicate reads the monotonic clock',
         rules=('R15.6',), edits=[
        (_TM, _TM_TMO, "            if self._timed_out(start, timeout):"),
        (_TM, "    def wait_tasks(self, uids=None, state=None, timeout=None):\n",
              "    @staticmethod\n    def _timed_out(start, timeout):\n\n"
              "        return bool(timeout) and timeout <= (time.monotonic() - start)\n\n\n"
              "    def wait_tasks(self, uids=None, state=None, timeout=None):\n")]),
    dict(name='R15.6 wait_pilots: deadline from the monotonic clock, compared with time.time',
         rules=('R15.6',), edits=[
        (_PM, _PM_START, "        start    = time.time()\n        deadline = time.monotonic() + timeout if timeout else None\n        to_check = None\n\n        with self._pilots_lock:"),
        (_PM, _PM_TMO, "                if deadline is not None and time.time() >= deadline:")]),
]

SILENT = [
    dict(name='wait_tasks: value comparison mirrored', edits=[
        (_TM, _CMP, "                    check_state_val > rps._task_state_values[task.state]:")]),
    dict(name='wait_tasks: value comparison as negated >=', edits=[
        (_TM, _CMP, "                    not rps._task_state_values[task.state] >= check_state_val:")]),
    dict(name='wait_tasks: value through the accessor function', edits=[
        (_TM, _CMP, "                    rps._task_state_value(task.state) < check_state_val:")]),
    dict(name='wait_pilots: filter conditions swapped', edits=[
        (_PM, "                               if pilot.state not in states and\n                                  pilot.state not in rps.FINAL]",
              "                               if pilot.state not in rps.FINAL and\n                                  pilot.state not in states]")]),

    dict(name='final-state escape as an explicit break in the body', edits=[
        (_T, _LOOP_FIXED,
             "        while self.state not in states:\n\n            if self.state in rps.FINAL:\n                break\n\n            time.sleep(0.1)\n")]),
    dict(name='final-state escape tested first', edits=[
        (_P, _LOOP_FIXED,
             "        while self.state not in rps.FINAL and \\\n              self.state not in states:\n\n            time.sleep(0.1)\n")]),
    dict(name='Pilot.wait normalisation as nested if / else', edits=[
        (_P, _P_NORM,
             "        if not state:\n            states = rps.FINAL\n        else:\n"
             "            if isinstance(state, list):\n                states = state\n"
             "            else:\n                states = [state]\n")]),
    dict(name='Pilot.wait as `while True` with breaks', edits=[
        (_P, _LOOP_FIXED + "            if timeout and (timeout <= (time.time() - start_wait)):\n                break\n",
             "        while True:\n\n            current = self.state\n            if current in states:\n                break\n            if current in rps.FINAL:\n                break\n\n            time.sleep(0.1)\n            if timeout and (time.time() - start_wait >= timeout):\n                break\n")]),
    dict(name='wait_tasks: final test in early-continue form', edits=[
        (_TM, "                if task.state not in rps.FINAL and \\\n                    rps._task_state_values[task.state] < check_state_val:",
              "                if task.state in rps.FINAL:\n                    self._rep.progress()\n                    continue\n\n                if rps._task_state_values[task.state] < check_state_val:")]),
    dict(name='wait_tasks: normalisation via ru.as_list', edits=[
        (_TM, "        elif not isinstance(state, list): states = [state]\n        else                            : states =  state\n",
              "        else                            : states = ru.as_list(state)\n")]),
    dict(name='wait_pilots: elapsed time in a local, timeout on the right',
         edits=[
        (_PM, "                if timeout and (timeout <= (time.time() - start)):",
              "                elapsed = time.time() - start\n                if timeout and elapsed >= timeout:")]),
    dict(name='wait_pilots: filter as a loop with append', edits=[
        (_PM, "            to_check = [pilot for pilot in to_check\n                               if pilot.state not in states and\n                                  pilot.state not in rps.FINAL]\n",
              "            remaining = list()\n            for pilot in to_check:\n                if pilot.state in rps.FINAL:\n                    continue\n                if pilot.state not in states:\n                    remaining.append(pilot)\n            to_check = remaining\n")]),
    dict(name='Task.wait: result through a local after the loop', edits=[
        (_T, "            if self._tmgr._terminate.is_set():\n                break\n\n        return self.state\n",
             "            if self._tmgr._terminate.is_set():\n                break\n\n        ret = self.state\n        return ret\n")]),
    dict(name='corpus r1: normalisation in a static helper with early returns', edits=[
        (_P, _P_NORM, "        states = self._wait_states(state)\n"),
        (_P, "    def wait(self, state=None, timeout=None):\n",
             "    @staticmethod\n    def _wait_states(state):\n\n"
             "        if not state                  : return rps.FINAL\n"
             "        if not isinstance(state, list): return [state]\n"
             "        return state\n\n\n"
             "    def wait(self, state=None, timeout=None):\n"),
        (_P, "            if self.state in states:\n                return self.state\n\n", "")]),
    dict(name='corpus r2: pending test in a static predicate, minimum by min([..] + [..])', edits=[
        (_TM, "        check_state_val = rps._task_state_values[rps.FINAL[-1]]\n        for state in states:\n            check_state_val = min(check_state_val,\n                                  rps._task_state_values[state])\n",
              "        check_state_val = min([rps._task_state_values[rps.FINAL[-1]]] +\n                              [rps._task_state_values[s] for s in states])\n"),
        (_TM, "                if task.state not in rps.FINAL and \\\n" + _CMP,
              "                if self._wait_pending(task, check_state_val):"),
        (_TM, "    def wait_tasks(self, uids=None, state=None, timeout=None):\n",
              "    @staticmethod\n    def _wait_pending(task, check_state_val):\n\n"
              "        return task.state not in rps.FINAL and \\\n"
              "               rps._task_state_values[task.state] < check_state_val\n\n\n"
              "    def wait_tasks(self, uids=None, state=None, timeout=None):\n")]),
    dict(name='corpus r3: wait_pilots returns through a conditional expression', edits=[
        (_PM, "        if ret_list: return states\n        else       : return states[0]\n\n\n    # --------------------------------------------------------------------------\n    #\n    def _fail_missing_pilots(self):",
              "        return states if ret_list else states[0]\n\n\n    # --------------------------------------------------------------------------\n    #\n    def _fail_missing_pilots(self):")]),
    # --- R15.5 site
    dict(name='wait_pilots: handles kept for the result, check list is a copy that shrinks', edits=[
        (_PM, _PM_INIT, "            pilots = [self._pilots[uid] for uid in uids]\n"),
        (_PM, _PM_WHILE, "        self._rep.idle(mode='start')\n        to_check = list(pilots)\n        while to_check and not self._terminate.is_set():\n"),
        (_PM, "        state = None\n        with self._pilots_lock:\n            states = [self._pilots[uid].state for uid in uids]\n",
              "        states = [pilot.state for pilot in pilots]\n")],
         note='C15-c without the mistake'),
    dict(name='wait_pilots: previous check list through a renamed local', edits=[
        (_PM, _PM_FILT,
              "            before   = to_check\n"
              "            to_check = [p for p in before\n"
              "                               if p.state not in states and\n"
              "                                  p.state not in rps.FINAL]\n")]),
    dict(name='wait_pilots: survivors collected in a loop over a sorted copy, early continue', edits=[
        (_PM, _PM_FILT,
              "            survivors = []\n"
              "            for p in sorted(to_check, key=lambda x: x.uid):\n"
              "                if p.state in states:\n                    continue\n"
              "                if p.state in rps.FINAL:\n                    continue\n"
              "                survivors += [p]\n"
              "            to_check = survivors\n")]),
    dict(name='wait_tasks: every round re-filters all awaited tasks (leaving is permanent)', edits=[
        (_TM, _TM_INIT, "            tasks    = [self._tasks[uid] for uid in uids]\n            to_check = tasks\n"),
        (_TM, _TM_FOR, "            check_again = list()\n            for task in tasks:\n")],
         note='value(state) < earliest requested value never becomes true again; '
              'only the progress marks repeat'),
    dict(name='wait_tasks: check list rebuilt by a comprehension, progress marks counted', edits=[
        (_TM, _TM_LOOP[:_TM_LOOP.index("\n                # we")] ,
              "            check_again = [t for t in to_check\n"
              "                             if t.state not in rps.FINAL and\n"
              "                                rps._task_state_values[t.state] < check_state_val]\n"
              "            for _ in range(len(to_check) - len(check_again)):\n"
              "                self._rep.progress()\n"
              "            to_check = check_again\n"
              "            continue\n\n"
              "            check_again = list()\n            for task in to_check:\n")]),
    # --- R15.6 site
    dict(name='wait_tasks: start stamp and timeout test both on the monotonic clock', edits=[
        (_TM, _TM_START, _TM_START.replace("time.time()", "time.monotonic()")),
        (_TM, _TM_TMO, _TM_TMO.replace("time.time()", "time.monotonic()"))]),
    dict(name='Task.wait: now hoisted into a local, elapsed on the left', edits=[
        (_T, _T_TMO, "            now = time.time()\n            if timeout and (now - start_wait) >= timeout:\n                break\n\n            if self._tmgr._terminate.is_set():")]),
    dict(name='Pilot.wait: deadline form on one clock', edits=[
        (_P, _P_TMO, "            if timeout and time.time() >= start_wait + timeout:\n                break\n\n            if self._pmgr._terminate.is_set():")]),
    dict(name='wait_tasks: now() helper on the clock of the start stamp', edits=[
        (_TM, _TM_TMO, "            if timeout and (timeout <= (self._now() - start)):"),
        (_TM, _TM_START, _TM_START.replace("time.time()", "self._now()")),
        (_TM, "    def wait_tasks(self, uids=None, state=None, timeout=None):\n",
              "    @staticmethod\n    def _now():\n\n        return time.time()\n\n\n"
              "    def wait_tasks(self, uids=None, state=None, timeout=None):\n")]),
    dict(name='wait_pilots: the log line reads another clock, the timeout test does not', edits=[
        (_PM, "                    self._log.debug (\"wait timed out\")\n                    break\n\n            time.sleep (0.1)\n\n        self._rep.idle(mode='stop')",
              "                    self._log.debug (\"wait timed out at %.1f\", time.monotonic())\n                    break\n\n            time.sleep (0.1)\n\n        self._rep.idle(mode='stop')")]),
    dict(name='wait_pilots: filter extracted into a static helper', edits=[
        (_PM, _PM_FILT, "            to_check = self._still_waiting(to_check, states)\n"),
        (_PM, "    def wait_pilots(self, uids=None, state=None, timeout=None):\n",
              "    @staticmethod\n    def _still_waiting(pilots, states):\n\n"
              "        return [pilot for pilot in pilots\n                      if pilot.state not in states and\n                         pilot.state not in rps.FINAL]\n\n\n"
              "    def wait_pilots(self, uids=None, state=None, timeout=None):\n")]),
    dict(name='wait_pilots: `while True` with the emptiness test as a break', edits=[
        (_PM, "        while to_check and not self._terminate.is_set():\n\n            self._rep.idle()\n",
              "        while True:\n\n            if not to_check:\n                break\n            if self._terminate.is_set():\n                break\n\n            self._rep.idle()\n")]),
    dict(name='wait_tasks: timeout test extracted into a static predicate', edits=[
        (_TM, _TM_TMO, "            if self._timed_out(start, timeout):"),
        (_TM, "    def wait_tasks(self, uids=None, state=None, timeout=None):\n",
              "    @staticmethod\n    def _timed_out(start, timeout):\n\n"
              "        return bool(timeout) and timeout <= (time.time() - start)\n\n\n"
              "    def wait_tasks(self, uids=None, state=None, timeout=None):\n")]),
    dict(name='wait_pilots: deadline computed once before the loop', edits=[
        (_PM, _PM_START, "        start    = time.time()\n        deadline = start + timeout if timeout else None\n        to_check = None\n\n        with self._pilots_lock:"),
        (_PM, _PM_TMO, "                if deadline is not None and time.time() >= deadline:")]),
]


# ------------------------------------------------------------------------------
# R15.7 / R15.8 sites
#
# seed C15-e: wait_tasks sleeps on an event instead of polling
_E_INIT  = (_TM, "        self._terminate   = mt.Event()\n        self._closed      = False\n",
                 "        self._terminate   = mt.Event()\n        self._tasks_evt   = mt.Event()\n        self._closed      = False\n")
_E_CLOSE = (_TM, "        self._terminate.set()\n        self._rep.info('<<close task manager')",
                 "        self._terminate.set()\n        self._tasks_evt.set()\n        self._rep.info('<<close task manager')")
_E_UPD   = (_TM, "        if to_notify:\n            if _USE_BULK_CB:",
                 "        if to_notify:\n\n            self._tasks_evt.set()\n\n            if _USE_BULK_CB:")
_E_TMO_OLD = ("            if timeout and (timeout <= (time.time() - start)):\n"
              "                self._log.debug (\"wait timed out\")\n                break\n\n"
              "            time.sleep (0.1)\n")
_E_TMO_NEW = ("            remaining = None\n            if timeout:\n"
              "                remaining = timeout - (time.time() - start)\n"
              "                if remaining <= 0:\n"
              "                    self._log.debug (\"wait timed out\")\n                    break\n\n")
_E_LOOP  = (_TM, _E_TMO_OLD, _E_TMO_NEW + "            self._tasks_evt.clear()\n")
_E_END_OLD = "            to_check = check_again\n\n        self._log.debug('wait completed')"
_E_WAIT  = (_TM, _E_END_OLD,
                 "            to_check = check_again\n\n            if to_check:\n"
                 "                self._tasks_evt.wait(timeout=remaining)\n\n"
                 "        self._log.debug('wait completed')")
_E_CB_OLD = "                    task._update(update)\n                    tasks.append(task.as_dict())\n"
_E_FIX   = (_TM, _E_CB_OLD, _E_CB_OLD + "                    self._tasks_evt.set()\n")
_E_BASE  = [_E_INIT, _E_CLOSE, _E_LOOP, _E_WAIT]

# seed C15-f: wait_pilots hands over to Pilot.wait
_F_OLD = ("        self._rep.idle(mode='start')\n"
          "        while to_check and not self._terminate.is_set():\n\n"
          "            self._rep.idle()\n\n" + _PM_FILT +
          "\n            if to_check:\n\n" + _PM_TMO + "\n"
          "                    self._log.debug (\"wait timed out\")\n"
          "                    break\n\n            time.sleep (0.1)\n")
_F_HEAD = ("        self._rep.idle(mode='start')\n"
           "        for pilot in to_check:\n\n"
           "            if self._terminate.is_set():\n                break\n\n"
           "            self._rep.idle()\n\n")
_F_TAIL = ("\n" + _PM_FILT.replace("            to_check", "        to_check")
                          .replace("                               if", "                           if")
                          .replace("                                  pilot", "                              pilot"))


def _seed_f(budget):
    return [(_PM, _F_OLD, _F_HEAD + budget + _F_TAIL)]


_F_SEED = ("            left = None\n            if timeout:\n"
           "                left = max(0.0, timeout - (time.time() - start))\n\n"
           "            pilot.wait(state=states, timeout=left)\n")

MUTATIONS += [
    # --- R15.7
    dict(name='R15.7 seed C15-e: wait_tasks sleeps on an event the pilot-death callback never sets',
         rules=('R15.7',), edits=_E_BASE + [_E_UPD],
         note='_pilot_state_cb fails the tasks through task._update; the echo '
              'of the publication is FAILED == FAILED and is skipped'),
    dict(name='R15.7 event driven wait_tasks: the sibling writer (_update_tasks) does not wake',
         rules=('R15.7',), edits=_E_BASE + [_E_FIX]),
    dict(name='R15.7 event driven wait_tasks: event set before the state is written',
         rules=('R15.7',), edits=_E_BASE + [_E_UPD,
        (_TM, _E_CB_OLD, "                    self._tasks_evt.set()\n" + _E_CB_OLD)],
         note='the waiter can wake, read the old state, clear and block again'),
    dict(name='R15.7 event driven wait_tasks: woken only for restartable tasks',
         rules=('R15.7',), edits=_E_BASE + [_E_UPD,
        (_TM, _E_CB_OLD, _E_CB_OLD + "                    if task.description.get('restartable'):\n"
                                     "                        self._tasks_evt.set()\n")]),
    dict(name='R15.7 event driven wait_tasks: states checked, then cleared, then waited',
         rules=('R15.7',), edits=[_E_INIT, _E_CLOSE, _E_UPD, _E_FIX,
        (_TM, _E_TMO_OLD, _E_TMO_NEW),
        (_TM, _E_END_OLD,
              "            to_check = check_again\n\n            if to_check:\n"
              "                self._tasks_evt.clear()\n"
              "                self._tasks_evt.wait(timeout=remaining)\n\n"
              "        self._log.debug('wait completed')")],
         note='lost wake-up: an update between check and clear is wiped out'),
    dict(name='R15.7 wait_pilots sleeps what is left of the timeout',
         rules=('R15.7',), edits=[
        (_PM, "                    break\n\n            time.sleep (0.1)\n\n        self._rep.idle(mode='stop')",
              "                    break\n\n            time.sleep (timeout - (time.time() - start) if timeout else 0.1)\n\n        self._rep.idle(mode='stop')")]),
    dict(name='R15.7 Task.wait blocks on the termination event for the whole timeout',
         rules=('R15.7',), edits=[
        (_T, _T_START, _T_START.replace("time.sleep(0.1)", "self._tmgr._terminate.wait(timeout)"))],
         note='Task._update writes the state and sets nothing'),
    dict(name='R15.7 Pilot.wait: poll period grows to the remaining timeout',
         rules=('R15.7',), edits=[
        (_P, "            time.sleep(0.1)\n            if timeout and (timeout <= (time.time() - start_wait)):",
             "            nap = 0.1\n            if timeout:\n                nap = max(nap, timeout - (time.time() - start_wait))\n            time.sleep(nap)\n            if timeout and (timeout <= (time.time() - start_wait)):")]),
    # --- R15.8
    dict(name='R15.8 seed C15-f: wait_pilots hands max(0.0, left) to Pilot.wait, where 0 means no timeout',
         rules=('R15.8',), edits=_seed_f(_F_SEED)),
    dict(name='R15.8 wait_pilots hands the bare difference to Pilot.wait',
         rules=('R15.8',), edits=_seed_f(
        "            left = timeout - (time.time() - start) if timeout else None\n"
        "            pilot.wait(states, left)\n")),
    dict(name='R15.8 wait_pilots hands over without any timeout',
         rules=('R15.8',), edits=_seed_f(
        "            if timeout and (timeout <= (time.time() - start)):\n                break\n\n"
        "            pilot.wait(state=states)\n")),
    dict(name='R15.8 wait_pilots hands the full timeout to every pilot',
         rules=('R15.8',), edits=_seed_f(
        "            pilot.wait(state=states, timeout=timeout)\n"),
         note='n pilots: n times the timeout'),
    dict(name='R15.8 wait_pilots: budget rounded down to whole seconds',
         rules=('R15.8',), edits=_seed_f(
        "            left = None\n            if timeout:\n"
        "                left = timeout - (time.time() - start)\n"
        "                if left <= 0:\n                    break\n"
        "                left = int(left)\n\n"
        "            pilot.wait(state=states, timeout=left)\n"),
         note='0.4 s left become 0: no timeout'),
    dict(name='R15.8 cancel_pilots keeps a second of its timeout for itself, clamped at 0',
         rules=('R15.8',), edits=[
        (_PM, "        # wait for the cancel to be enacted\n        self.wait_pilots(uids=uids, timeout=_timeout)",
              "        # wait for the cancel to be enacted\n        self.wait_pilots(uids=uids, timeout=max(0, _timeout - 1) if _timeout else None)")],
         note='close(): cancel_pilots(_timeout=1) waits for ever'),
]

SILENT += [
    # --- R15.7 sites (the first ones change the timing of the wake-up, not
    #     what the property says: every writer wakes the waiter)
    dict(name='event driven wait_tasks, both writers set the event', edits=_E_BASE + [_E_UPD, _E_FIX]),
    dict(name='event driven wait_tasks, woken through a helper method', edits=_E_BASE + [
        (_TM, "        if to_notify:\n            if _USE_BULK_CB:",
              "        if to_notify:\n            self._wake()\n            if _USE_BULK_CB:"),
        (_TM, _E_CB_OLD, _E_CB_OLD + "                    self._wake()\n"),
        (_TM, "    def wait_tasks(self, uids=None, state=None, timeout=None):\n",
              "    def _wake(self):\n\n        self._tasks_evt.set()\n\n\n"
              "    def wait_tasks(self, uids=None, state=None, timeout=None):\n")]),
    dict(name='event driven wait_tasks, event cached in a local, flag instead of list test', edits=_E_BASE + [_E_FIX,
        (_TM, "        to_notify = list()\n\n        with self._tasks_lock:\n\n            for task_dict in task_dicts:",
              "        to_notify = list()\n        changed   = False\n        evt       = self._tasks_evt\n\n        with self._tasks_lock:\n\n            for task_dict in task_dicts:"),
        (_TM, "                        to_notify.append([task, s])\n",
              "                        to_notify.append([task, s])\n                        changed = True\n"),
        (_TM, "        if to_notify:\n            if _USE_BULK_CB:",
              "        if changed:\n            evt.set()\n\n        if to_notify:\n            if _USE_BULK_CB:")]),
    dict(name='event driven wait_tasks, Task._update wakes the manager for every caller', edits=_E_BASE + [
        (_T, "            val = task_dict.get(key, None)\n            if val is not None:\n                setattr(self, \"_%s\" % key, val)\n",
             "            val = task_dict.get(key, None)\n            if val is not None:\n                setattr(self, \"_%s\" % key, val)\n\n        self._tmgr._tasks_evt.set()\n")]),
    dict(name='wait_tasks polls on the termination event', edits=[
        (_TM, "            time.sleep (0.1)\n\n            # FIXME: print percentage...",
              "            self._terminate.wait(0.1)\n\n            # FIXME: print percentage...")]),
    dict(name='wait_pilots: poll period in a local', edits=[
        (_PM, _PM_WHILE, "        period = 0.1\n" + _PM_WHILE),
        (_PM, "                    break\n\n            time.sleep (0.1)\n\n        self._rep.idle(mode='stop')",
              "                    break\n\n            time.sleep (period)\n\n        self._rep.idle(mode='stop')")]),
    dict(name='Pilot.wait: poll period never longer than the timeout', edits=[
        (_P, "            time.sleep(0.1)\n            if timeout and (timeout <= (time.time() - start_wait)):",
             "            time.sleep(min(0.1, timeout) if timeout else 0.1)\n            if timeout and (timeout <= (time.time() - start_wait)):")]),
    dict(name='Task.wait: poll period never longer than what is left', edits=[
        (_T, _T_START, _T_START.replace("            time.sleep(0.1)\n",
             "            nap = 0.1\n            if timeout:\n                nap = max(0.0, min(nap, timeout - (time.time() - start_wait)))\n            time.sleep(nap)\n"))]),
    # --- R15.8 sites
    dict(name='cancel_pilots: timeout through a local', edits=[
        (_PM, "        # wait for the cancel to be enacted\n        self.wait_pilots(uids=uids, timeout=_timeout)",
              "        # wait for the cancel to be enacted\n        tmo = _timeout\n        self.wait_pilots(uids=uids, timeout=tmo)")]),
    dict(name='kill_pilots: arguments passed by position', edits=[
        (_PM, "        # wait for the kill to be enacted\n        self.wait_pilots(uids=uids, timeout=_timeout)",
              "        # wait for the kill to be enacted\n        self.wait_pilots(uids, None, _timeout)")]),
    dict(name='cancel_pilots: falsy timeout spelled out as None', edits=[
        (_PM, "        # wait for the cancel to be enacted\n        self.wait_pilots(uids=uids, timeout=_timeout)",
              "        # wait for the cancel to be enacted\n        self.wait_pilots(uids=uids, timeout=_timeout if _timeout else None)")]),
    dict(name='kill_pilots: hand-over through an extracted helper', edits=[
        (_PM, "        # wait for the kill to be enacted\n        self.wait_pilots(uids=uids, timeout=_timeout)",
              "        # wait for the kill to be enacted\n        self._await(uids, _timeout)"),
        (_PM, "    def wait_pilots(self, uids=None, state=None, timeout=None):\n",
              "    def _await(self, uids, tmo):\n\n        return self.wait_pilots(uids=uids, timeout=tmo or None)\n\n\n"
              "    def wait_pilots(self, uids=None, state=None, timeout=None):\n")]),
    dict(name='wait_pilots polls by waiting 0.1 s on the first pending pilot', edits=[
        (_PM, "                    break\n\n            time.sleep (0.1)\n\n        self._rep.idle(mode='stop')",
              "                    break\n\n                to_check[0].wait(state=states, timeout=0.1)\n\n        self._rep.idle(mode='stop')")],
         note='hand-over inside the polling loop with a constant period'),
]


# ------------------------------------------------------------------------------
# round 4: C15-g5 (threshold `max` for `min`), C15-g6 (elapsed time START - NOW),
# R15.4 on the loops of Task.wait / Pilot.wait, R15.9 ("has reached"), and the
# predicate forms of the refactorings C15-r7 / C15-r8
#
_TM_UPD  = ("            check_state_val = min(check_state_val,\n"
            "                                  rps._task_state_values[state])\n")
_TM_FOLD = ("        check_state_val = rps._task_state_values[rps.FINAL[-1]]\n"
            "        for state in states:\n" + _TM_UPD)
_T_HEAD  = "        start_wait = time.time()\n" + _LOOP_FIXED
_KEEP_W  = ("        def _keep_waiting(task):\n"
            "            if task.state in rps.FINAL:\n                return %s\n"
            "            return rps._task_state_values[task.state] < check_state_val\n\n")
_SETTLED = ("        def _settled():\n            return self.state in states %s \\\n"
            "                   self.state in rps.FINAL\n\n"
            "        start_wait = time.time()\n        while not _settled():\n\n"
            "            time.sleep(0.1)\n")
_T_VALUE = ("        start_wait = time.time()\n"
            "        low = %s(rps._task_state_values[s] for s in states)\n"
            "        while rps._task_state_values[self.state] < low and \\\n"
            "              self.state not in rps.FINAL:\n\n            time.sleep(0.1)\n")
_T_FLAG  = ("        start_wait = time.time()\n        done = False\n        while not done:\n\n"
            "            if self.state in states %s self.state in rps.FINAL:\n"
            "                done = True\n                continue\n\n            time.sleep(0.1)\n")

MUTATIONS += [
    # --- threshold of wait_tasks (seed C15-g5)
    dict(name='R15.4 seed C15-g5: wait_tasks threshold is the max of the requested values',
         rules=('R15.4',), edits=[
        (_TM, "            check_state_val = min(check_state_val,\n",
              "            check_state_val = max(check_state_val,\n")],
         note='starts at the final value: max() never comes down, every non-final task is waited for'),
    dict(name='R15.4 wait_tasks threshold: max over a generator (the latest of several requested states)',
         rules=('R15.4',), edits=[
        (_TM, _TM_FOLD, "        check_state_val = max(rps._task_state_values[s] for s in states)\n")],
         note='one requested state is unaffected; [A, B]: a task in A is still waited for'),
    dict(name='R15.4 wait_tasks threshold: hand-written minimum with the comparison reversed',
         rules=('R15.4',), edits=[
        (_TM, _TM_UPD, "            if rps._task_state_values[state] > check_state_val:\n"
                       "                check_state_val = rps._task_state_values[state]\n")]),
    # --- orientation of the elapsed time (seed C15-g6)
    dict(name='R15.2 seed C15-g6: wait_pilots elapsed time is start - now',
         rules=('R15.2',), edits=[
        (_PM, _PM_TMO, _PM_TMO.replace("time.time() - start", "start - time.time()"))]),
    dict(name='R15.2 Task.wait: elapsed time is start - now (the sibling site)',
         rules=('R15.2',), edits=[
        (_T, "(time.time() - start_wait)", "(start_wait - time.time())")]),
    dict(name='R15.2 wait_tasks: elapsed time in a local, subtracted the wrong way round',
         rules=('R15.2',), edits=[
        (_TM, _TM_TMO, "            elapsed = start - time.time()\n"
                       "            if timeout and elapsed >= timeout:")]),
    dict(name='R15.2 Pilot.wait: deadline form with the deadline before the start',
         rules=('R15.2',), edits=[
        (_P, _P_TMO, "            if timeout and start_wait - timeout >= time.time():\n                break\n\n"
                     "            if self._pmgr._terminate.is_set():")]),
    # --- R15.4 on the single-entity loops
    dict(name='R15.4 Task.wait: requested-state test with inverted polarity',
         rules=('R15.4',), edits=[
        (_T, _LOOP_FIXED, _LOOP_FIXED.replace("self.state not in states", "self.state in states"))],
         note='returns at once unless the task already is in a requested state, then never'),
    dict(name='R15.4 Pilot.wait: state compared with the list of states by !=',
         rules=('R15.4',), edits=[
        (_P, _LOOP_FIXED, _LOOP_FIXED.replace("self.state not in states", "self.state != states"))],
         note='a string never equals a list'),
    dict(name='R15.4 Pilot.wait: closure predicate joins its two tests with `and`',
         rules=('R15.4', 'R15.2'), edits=[(_P, _T_HEAD, _SETTLED % 'and')]),
    dict(name='R15.2 wait_tasks: if-return closure keeps final tasks',
         rules=('R15.2',), edits=[
        (_TM, _TM_START, _KEEP_W % 'True' + _TM_START),
        (_TM, _TM_COND, "                if _keep_waiting(task):")]),
    dict(name='R15.4 Task.wait compares values but takes <= (fix of R15.9 gone wrong)',
         rules=('R15.4',), edits=[
        (_T, _T_HEAD, (_T_VALUE % 'min').replace("[self.state] < low", "[self.state] <= low"))]),
    dict(name='R15.4 Task.wait steered by a flag that is set only for a requested AND final state',
         rules=('R15.4', 'R15.2'), edits=[(_T, _T_HEAD, _T_FLAG % 'and')]),
    # --- R15.9
    dict(name='R15.9 wait_tasks falls back to the membership test of its siblings',
         rules=('R15.9',), edits=[
        (_TM, _TM_COND, "                if task.state not in rps.FINAL and \\\n"
                        "                    task.state not in states:")],
         note='a task that runs through AGENT_EXECUTING_PENDING within 0.1 s is waited for until it is final'),
    dict(name='R15.9 Task.wait compares values with the LATEST requested state',
         rules=('R15.9', 'R15.4'), edits=[(_T, _T_HEAD, _T_VALUE % 'max')]),
]

SILENT += [
    # --- predicate forms (refactorings C15-r7 / C15-r8)
    dict(name='corpus r7: wait_tasks keeps by an if-return closure', edits=[
        (_TM, _TM_START, _KEEP_W % 'False' + _TM_START),
        (_TM, _TM_COND, "                if _keep_waiting(task):")]),
    dict(name='corpus r8: Pilot.wait loop guard is a closure over self and states', edits=[
        (_P, _T_HEAD, _SETTLED % 'or')]),
    dict(name='Task.wait: loop guard is a lambda', edits=[
        (_T, _T_HEAD, "        settled    = lambda: self.state in states or self.state in rps.FINAL\n"
                      "        start_wait = time.time()\n        while not settled():\n\n            time.sleep(0.1)\n")]),
    dict(name='Task.wait: loop guard as not (.. or ..)', edits=[
        (_T, _LOOP_FIXED, "        while not (self.state in states or self.state in rps.FINAL):\n\n            time.sleep(0.1)\n")]),
    dict(name='Task.wait: requested states copied into a set before the loop', edits=[
        (_T, _T_HEAD, "        wanted     = set(states)\n        start_wait = time.time()\n"
                      "        while self.state not in wanted and \\\n              self.state not in rps.FINAL:\n\n            time.sleep(0.1)\n")]),
    dict(name='Task.wait: loop steered by a flag', edits=[(_T, _T_HEAD, _T_FLAG % 'or')]),
    # --- orientation of the elapsed time
    dict(name='wait_pilots: elapsed time as -(start - now)', edits=[
        (_PM, _PM_TMO, _PM_TMO.replace("(time.time() - start)", "-(start - time.time())"))]),
    dict(name='wait_pilots: deadline on the left', edits=[
        (_PM, _PM_TMO, "                if timeout and (start + timeout <= time.time()):")]),
    dict(name='wait_tasks: remaining time not positive', edits=[
        (_TM, _TM_TMO, "            if timeout and (timeout - (time.time() - start)) <= 0:")]),
    # --- threshold of wait_tasks
    dict(name='wait_tasks threshold: min with swapped arguments', edits=[
        (_TM, _TM_UPD, "            check_state_val = min(rps._task_state_values[state],\n"
                       "                                  check_state_val)\n")]),
    dict(name='wait_tasks threshold: min over a list of the two', edits=[
        (_TM, _TM_UPD, "            check_state_val = min([check_state_val,\n"
                       "                                   rps._task_state_values[state]])\n")]),
    dict(name='wait_tasks threshold: hand-written minimum', edits=[
        (_TM, _TM_UPD, "            if rps._task_state_values[state] < check_state_val:\n"
                       "                check_state_val = rps._task_state_values[state]\n")]),
    dict(name='wait_tasks threshold: hand-written minimum, early continue', edits=[
        (_TM, _TM_UPD, "            val = rps._task_state_values[state]\n            if val >= check_state_val:\n"
                       "                continue\n            check_state_val = val\n")]),
    # --- R15.9: the repaired forms (the known finding goes away, nothing new)
    dict(name='Task.wait compares values like wait_tasks (repair of the R15.9 finding)', edits=[
        (_T, _T_HEAD, _T_VALUE % 'min')]),
    dict(name='Task.wait compares values, threshold folded in a loop', edits=[
        (_T, _T_HEAD, "        start_wait = time.time()\n        low = rps._task_state_values[rps.DONE]\n"
                      "        for s in states:\n            low = min(low, rps._task_state_values[s])\n"
                      "        while rps._task_state_values[self.state] < low and \\\n"
                      "              self.state not in rps.FINAL:\n\n            time.sleep(0.1)\n")]),
    dict(name='wait_pilots compares values (repair of the R15.9 finding)', edits=[
        (_PM, _PM_WHILE, "        low = min([rps._pilot_state_values[s] for s in states])\n" + _PM_WHILE),
        (_PM, _PM_FILT, _PM_FILT.replace("pilot.state not in states and",
                                         "rps._pilot_state_values[pilot.state] < low and"))]),
]


# ------------------------------------------------------------------------------
# round 5: C15-h3 (the fold of the wait_tasks threshold skips the first
# requested state: the DOMAIN of the fold is evaluated, R15.4) and C15-h4 (the
# returned list is sorted in place: second clause of R15.3, the returned list
# is index-aligned with the awaited uids)
#
_TM_FOR_S = "        for state in states:\n" + _TM_UPD
_TM_READ  = "            states = [self._tasks[uid].state for uid in uids]\n"
_PM_READ  = "            states = [self._pilots[uid].state for uid in uids]\n"
_TM_SDICT = "        sdict = {state: states.count(state) for state in set(states)}\n"
_TM_REPORT = (_TM_SDICT + "        for state in sorted(set(states)):\n")

MUTATIONS += [
    # --- domain of the threshold fold (seed C15-h3)
    dict(name='R15.4 seed C15-h3: the threshold fold of wait_tasks starts at the second requested state',
         rules=('R15.4',), edits=[
        (_TM, "        for state in states:\n" + _TM_UPD, "        for state in states[1:]:\n" + _TM_UPD)],
         note='wait_tasks(state=S): nothing is folded, the threshold stays at "final"'),
    dict(name='R15.4 threshold fold stops one requested state early',
         rules=('R15.4',), edits=[
        (_TM, _TM_FOR_S, "        for state in states[:-1]:\n" + _TM_UPD)]),
    dict(name='R15.4 threshold fold by index, starting at 1',
         rules=('R15.4',), edits=[
        (_TM, _TM_FOR_S, "        for i in range(1, len(states)):\n"
                         "            check_state_val = min(check_state_val,\n"
                         "                                  rps._task_state_values[states[i]])\n")]),
    dict(name='R15.4 threshold fold leaves at the first requested state that does not lower it',
         rules=('R15.4',), edits=[
        (_TM, _TM_UPD, "            if rps._task_state_values[state] >= check_state_val:\n"
                       "                break\n"
                       "            check_state_val = rps._task_state_values[state]\n")],
         note='state=[DONE, AGENT_EXECUTING]: DONE equals the initial final value, the fold breaks before it sees the earlier state'),
    # --- the returned list is index-aligned with the uids (seed C15-h4)
    dict(name='R15.3 seed C15-h4: wait_tasks sorts the returned list in place for the report',
         rules=('R15.3',), edits=[
        (_TM, _TM_REPORT, "        states.sort()\n"
                          "        sdict = {state: states.count(state) for state in states}\n"
                          "        for state in sdict:\n")]),
    dict(name='R15.3 wait_tasks: the returned list is reversed in place',
         rules=('R15.3',), edits=[
        (_TM, _TM_SDICT, "        states.reverse()\n" + _TM_SDICT)]),
    dict(name='R15.3 wait_tasks: the report sorts an alias of the returned list',
         rules=('R15.3',), edits=[
        (_TM, _TM_REPORT, "        ordered = states\n        ordered.sort()\n" + _TM_SDICT +
                          "        for state in sorted(set(ordered)):\n")]),
    dict(name='R15.3 wait_pilots: states read in the order of the sorted uids',
         rules=('R15.3',), edits=[
        (_PM, _PM_READ, "            states = [self._pilots[uid].state for uid in sorted(uids)]\n")]),
    dict(name='R15.3 wait_pilots: finished pilots popped off the returned list',
         rules=('R15.3',), edits=[
        (_PM, "        # done waiting\n        if ret_list: return states\n        else       : return states[0]\n\n\n"
              "    # --------------------------------------------------------------------------\n    #\n    def _fail_missing_pilots",
              "        # done waiting\n        if ret_list:\n            while states and states[-1] in rps.FINAL:\n"
              "                states.pop()\n            return states\n        return states[0]\n\n\n"
              "    # --------------------------------------------------------------------------\n    #\n    def _fail_missing_pilots")]),
    dict(name='R15.3 wait_tasks: states read from the check list (only the tasks still waited for)',
         rules=('R15.3',), edits=[
        (_TM, _TM_READ, "            states = [task.state for task in to_check]\n")]),
    dict(name='R15.3 wait_tasks: states collected in a loop that skips final tasks',
         rules=('R15.3',), edits=[
        (_TM, _TM_READ, "            states = list()\n            for uid in uids:\n"
                        "                if self._tasks[uid].state in rps.FINAL:\n                    continue\n"
                        "                states.append(self._tasks[uid].state)\n")]),
]

SILENT += [
    # --- domain of the threshold fold
    dict(name='wait_tasks threshold: fold over a copy of the requested states', edits=[
        (_TM, _TM_FOR_S, "        for state in list(states):\n" + _TM_UPD)]),
    dict(name='wait_tasks threshold: fold over the sorted requested states', edits=[
        (_TM, _TM_FOR_S, "        for state in sorted(set(states)):\n" + _TM_UPD)]),
    dict(name='wait_tasks threshold: fold over states[0:]', edits=[
        (_TM, _TM_FOR_S, "        for state in states[0:]:\n" + _TM_UPD)]),
    dict(name='wait_tasks threshold: fold by index', edits=[
        (_TM, _TM_FOR_S, "        for i in range(len(states)):\n"
                         "            check_state_val = min(check_state_val,\n"
                         "                                  rps._task_state_values[states[i]])\n")]),
    dict(name='wait_tasks threshold: fold with enumerate, renamed local', edits=[
        (_TM, _TM_FOR_S, "        for _idx, wanted in enumerate(states):\n"
                         "            check_state_val = min(check_state_val,\n"
                         "                                  rps._task_state_values[wanted])\n")]),
    dict(name='wait_tasks threshold: first state seeds the fold, the rest is folded', edits=[
        (_TM, _TM_FOLD, "        check_state_val = rps._task_state_values[states[0]]\n"
                        "        for state in states[1:]:\n" + _TM_UPD)],
         note='the very slice of the seed, behaviour-preserving here: the first state is the initial value'),
    # --- the returned list and the report
    dict(name='wait_tasks report: a sorted COPY of the returned list (list() + sort())', edits=[
        (_TM, _TM_REPORT, "        ordered = list(states)\n        ordered.sort()\n" + _TM_SDICT +
                          "        for state in ordered:\n")],
         note='prints duplicates; the returned list is untouched'),
    dict(name='wait_tasks report: sorted copy by slice', edits=[
        (_TM, _TM_REPORT, "        ordered = states[:]\n        ordered.sort()\n        ordered.reverse()\n" + _TM_SDICT +
                          "        for state in sorted(set(ordered)):\n")]),
    dict(name='wait_tasks: states collected by an append loop', edits=[
        (_TM, _TM_READ, "            states = list()\n            for uid in uids:\n"
                        "                states.append(self._tasks[uid].state)\n")]),
    dict(name='wait_tasks: tasks looked up first, then their states', edits=[
        (_TM, _TM_READ, "            tasks  = [self._tasks[uid] for uid in uids]\n"
                        "            states = [task.state for task in tasks]\n")]),
    dict(name='wait_pilots: states read over a copy of the uids, renamed local', edits=[
        (_PM, _PM_READ, "            result = [self._pilots[pid].state for pid in list(uids)]\n"),
        (_PM, "        if ret_list: return states\n        else       : return states[0]\n\n\n"
              "    # --------------------------------------------------------------------------\n    #\n    def _fail_missing_pilots",
              "        if ret_list: return result\n        else       : return result[0]\n\n\n"
              "    # --------------------------------------------------------------------------\n    #\n    def _fail_missing_pilots")]),
    dict(name='wait_pilots: states appended under if/else (one append on every path)', edits=[
        (_PM, _PM_READ, "            states = []\n            for uid in uids:\n"
                        "                pilot = self._pilots[uid]\n"
                        "                if pilot.state in rps.FINAL:\n                    states.append(pilot.state)\n"
                        "                else:\n                    self._log.debug('%s not final', uid)\n"
                        "                    states.append(pilot.state)\n")]),
    dict(name='wait_tasks: single return with a conditional expression', edits=[
        (_TM, "        if ret_list: return states\n        else       : return states[0]\n\n\n"
              "    # --------------------------------------------------------------------------\n    #\n    def cancel_tasks",
              "        return states if ret_list else states[0]\n\n\n"
              "    # --------------------------------------------------------------------------\n    #\n    def cancel_tasks")]),
]


# ------------------------------------------------------------------------------
# round 6: seeds C15-i1 (R15.2), C15-i4 (R15.3), C15-i6 (R15.10)
#
_W_SELF   = ("        while self.state not in states and \\\n"
             "              self.state not in rps.FINAL:\n\n")
_TP_LOOP  = "        start_wait = time.time()\n" + _W_SELF + "            time.sleep(0.1)\n"
_P_TEST   = "            if timeout and (timeout <= (time.time() - start_wait)):"
_PM_ROUND = ("        self._rep.idle(mode='start')\n"
             "        while to_check and not self._terminate.is_set():\n\n"
             "            self._rep.idle()\n\n")
_PM_RET   = _PM_READ + "\n        # done waiting\n        if ret_list: return states"
_TM_CHECK = "            # check timeout\n            if timeout and (timeout <= (time.time() - start)):"

MUTATIONS += [
    # --- the stamp of the elapsed time is taken before the loop (seed C15-i1)
    dict(name='R15.2 seed C15-i1: Pilot.wait takes start_wait anew in every round',
         rules=('R15.2',), edits=[
        (_P, _TP_LOOP, _W_SELF + "            start_wait = time.time()\n            time.sleep(0.1)\n")],
         note='timeout=5 on a pilot that stays PMGR_LAUNCHING: the elapsed time is always ~0.1 s'),
    dict(name='R15.2 Pilot.wait: stamp re-taken after the sleep, elapsed time in a local',
         rules=('R15.2',), edits=[
        (_P, _TP_LOOP + _P_TEST,
             _W_SELF + "            time.sleep(0.1)\n            start_wait = time.time()\n"
             "            elapsed = time.time() - start_wait\n"
             "            if timeout and (timeout <= elapsed):")]),
    dict(name='R15.2 Task.wait: `now` read once before the loop (elapsed time is 0 for ever)',
         rules=('R15.2',), edits=[
        (_T, _TP_LOOP + "\n" + _P_TEST,
             "        start_wait = time.time()\n        now = time.time()\n" + _W_SELF +
             "            time.sleep(0.1)\n\n            if timeout and (timeout <= (now - start_wait)):")]),
    dict(name='R15.2 wait_tasks: start re-taken right before the timeout test',
         rules=('R15.2',), edits=[
        (_TM, _TM_CHECK, "            # check timeout\n            start = time.time()\n"
                         "            if timeout and (timeout <= (time.time() - start)):")]),
    dict(name='R15.2 wait_tasks: deadline re-computed from the clock in every round',
         rules=('R15.2',), edits=[
        (_TM, _TM_CHECK, "            # check timeout\n            if timeout:\n"
                         "                deadline = time.time() + timeout\n"
                         "            if timeout and (deadline <= time.time()):")]),
    # --- returned states come from a memo filled inside the loop (seed C15-i4)
    dict(name='R15.3 seed C15-i4: wait_pilots returns the states it remembered in `seen`',
         rules=('R15.3',), edits=[
        (_PM, _PM_ROUND, "        self._rep.idle(mode='start')\n        seen = dict()\n"
                         "        while to_check and not self._terminate.is_set():\n\n"
                         "            self._rep.idle()\n\n"
                         "            seen.update({pilot.uid: pilot.state for pilot in to_check})\n"),
        (_PM, _PM_RET, _PM_RET.replace("self._pilots[uid].state for",
                                       "seen.get(uid, self._pilots[uid].state) for"))],
         note='wait_pilots([p0, p1], PMGR_ACTIVE): p0 active, p0 FAILED, p1 active -> [PMGR_ACTIVE, PMGR_ACTIVE]'),
    dict(name='R15.3 wait_tasks: states remembered per task when it is dropped, returned by subscript',
         rules=('R15.3',), edits=[
        (_TM, _TM_LOOP, "            check_again = list()\n            for task in to_check:\n"
                        "                last[task.uid] = task.state\n\n"
                        "                # we actually don't check if a task is in a specific (set of)\n"
                        "                # state(s), but rather check if it ever *has been* in any of\n"
                        "                # those states\n"),
        (_TM, _TM_START, "        last     = dict()\n" + _TM_START),
        (_TM, _TM_READ, "            states = [last[uid] if uid in last else self._tasks[uid].state\n"
                        "                      for uid in uids]\n")]),
    dict(name='R15.3 wait_pilots: memo filled before the loop, returned by an append loop',
         rules=('R15.3',), edits=[
        (_PM, _PM_ROUND, "        first = {p.uid: p.state for p in to_check}\n" + _PM_ROUND),
        (_PM, _PM_READ, "            states = list()\n            for uid in uids:\n"
                        "                states.append(first.get(uid) or self._pilots[uid].state)\n")]),
    # --- the poll period stays short (seed C15-i6)
    dict(name='R15.10 seed C15-i6: Task.wait backs off to a poll period of 10 s',
         rules=('R15.10',), edits=[
        (_T, _TP_LOOP, "        start_wait = time.time()\n        delay      = 0.1\n" + _W_SELF +
                       "            time.sleep(delay)\n            delay = min(delay * 2, 10.0)\n")],
         note='task DONE at t=93: the call returns at t=102.7; timeout=53: returns at t=62.7'),
    dict(name='R15.10 Pilot.wait: poll period grows by 0.1 s per round, no cap',
         rules=('R15.10',), edits=[
        (_P, _TP_LOOP, "        start_wait = time.time()\n        delay      = 0.1\n" + _W_SELF +
                       "            time.sleep(delay)\n            delay += 0.1\n")]),
    dict(name='R15.10 wait_pilots: back-off through a helper lambda',
         rules=('R15.10',), edits=[
        (_PM, _PM_ROUND, "        nap = 0.1\n        backoff = lambda x: min(x * 1.5, 30)\n" + _PM_ROUND),
        (_PM, "            time.sleep (0.1)\n\n        self._rep.idle(mode='stop')",
              "            time.sleep (nap)\n            nap = backoff(nap)\n\n        self._rep.idle(mode='stop')")]),
    dict(name='R15.10 wait_tasks: polls every 5 s', rules=('R15.10',), edits=[
        (_TM, "            time.sleep (0.1)\n", "            time.sleep (5)\n")]),
]

SILENT += [
    # --- the stamp
    dict(name='Pilot.wait: stamp taken lazily in the first round (flag)', edits=[
        (_P, _TP_LOOP, "        first = True\n" + _W_SELF +
                       "            if first:\n                start_wait = time.time()\n"
                       "                first = False\n            time.sleep(0.1)\n")]),
    dict(name='Pilot.wait: stamp taken lazily in the first round (None)', edits=[
        (_P, _TP_LOOP, "        start_wait = None\n" + _W_SELF +
                       "            if start_wait is None:\n                start_wait = time.time()\n"
                       "            time.sleep(0.1)\n")]),
    dict(name='Pilot.wait: now and the elapsed time in locals of the round', edits=[
        (_P, _TP_LOOP + _P_TEST, _TP_LOOP + "            now = time.time()\n            waited = now - start_wait\n"
                                 "            if timeout and (timeout <= waited):")]),
    dict(name='wait_tasks: deadline computed before the loop, compared with a fresh clock read', edits=[
        (_TM, _TM_START, "        deadline = (time.time() + timeout) if timeout else None\n" + _TM_START),
        (_TM, _TM_CHECK, "            # check timeout\n            if timeout and (deadline <= time.time()):")]),
    # --- the returned states
    dict(name='wait_pilots: current states collected into a dict after the loop, returned by look-up', edits=[
        (_PM, _PM_READ, "            cur    = {uid: self._pilots[uid].state for uid in uids}\n"
                        "            states = [cur[uid] for uid in uids]\n")]),
    dict(name='wait_pilots: look-up with .get and a fresh read as default, memo filled after the loop', edits=[
        (_PM, _PM_READ, "            cur = dict()\n            for uid in uids:\n"
                        "                cur[uid] = self._pilots[uid].state\n"
                        "            states = [cur.get(uid, self._pilots[uid].state) for uid in uids]\n")]),
    dict(name='wait_pilots: states seen in the loop are remembered for the log only', edits=[
        (_PM, _PM_ROUND, "        self._rep.idle(mode='start')\n        seen = dict()\n"
                         "        while to_check and not self._terminate.is_set():\n\n"
                         "            self._rep.idle()\n\n"
                         "            seen.update({pilot.uid: pilot.state for pilot in to_check})\n"),
        (_PM, _PM_READ, "            self._log.debug('seen while waiting: %s', seen)\n" + _PM_READ)]),
    dict(name='wait_tasks: states read through a local of the round (append loop)', edits=[
        (_TM, _TM_READ, "            states = list()\n            for uid in uids:\n"
                        "                current = self._tasks[uid].state\n"
                        "                states.append(current)\n")]),
    # --- the poll period
    dict(name='Task.wait: poll period in a local', edits=[
        (_T, _TP_LOOP, "        start_wait = time.time()\n        period     = 0.1\n" + _W_SELF +
                       "            time.sleep(period)\n")]),
    dict(name='Task.wait: back-off capped at half a second', edits=[
        (_T, _TP_LOOP, "        start_wait = time.time()\n        delay      = 0.1\n" + _W_SELF +
                       "            time.sleep(delay)\n            delay = min(delay * 2, 0.5)\n")],
         note='not the same timing, but still "shortly after" (the limit of R15.10 is 1 s)'),
    dict(name='Task.wait: sleep clipped to what is left of the timeout', edits=[
        (_T, _TP_LOOP, "        start_wait = time.time()\n" + _W_SELF +
                       "            left = timeout - (time.time() - start_wait) if timeout else 0.1\n"
                       "            time.sleep(max(0.0, min(0.1, left)))\n")]),
    dict(name='wait_pilots: poll period from a helper closure', edits=[
        (_PM, _PM_ROUND, "        def _period():\n            return 0.1\n" + _PM_ROUND),
        (_PM, "            time.sleep (0.1)\n\n        self._rep.idle(mode='stop')",
              "            time.sleep (_period())\n\n        self._rep.idle(mode='stop')")]),
]


# ---- R15.11: the polled pilot state becomes final (C14's sites: what
#      _update_pilot replays x what Pilot._update accepts)
_UP_TRUNC = ("            if target in [rps.CANCELED, rps.FAILED]:\n"
             "                # don't replay intermediate states\n"
             "                passed = passed[-1:]\n")
_UP_TEST  = "            if target in [rps.CANCELED, rps.FAILED]:\n"
_PU_TEST  = "        if target not in [rps.FAILED, rps.CANCELED]:\n"
_PU_STEP  = ("        if target not in [rps.FAILED, rps.CANCELED]:\n\n"
             "            # ensure valid state transition\n"
             "            state_diff = rps._pilot_state_value(target) - \\\n"
             "                         rps._pilot_state_value(current)\n"
             "            if state_diff > 1:\n"
             "                raise RuntimeError('%s: invalid state transition %s -> %s',\n"
             "                                   self.uid, current, target)\n")

MUTATIONS += [
    dict(name='R15.11 seed C15-j4: intermediate states dropped for every final target, DONE too (Pilot._update rejects the jump)',
         rules=('R15.11',), edits=[(_PM, _UP_TEST, "            if target in rps.FINAL:\n")]),
    dict(name='R15.11 same slip, truncation set hoisted and spelled as a tuple that includes DONE',
         rules=('R15.11',), edits=[
        (_PM, _UP_TRUNC, "            abnormal = (rps.FAILED, rps.CANCELED, rps.DONE)\n"
                         "            if target in abnormal:\n                passed = passed[-1:]\n")]),
    dict(name='R15.11 same slip in Pilot-independent form: everything but the last state dropped whenever a state was skipped',
         rules=('R15.11',), edits=[
        (_PM, _UP_TRUNC, "            if len(passed) > 1:\n                passed = passed[-1:]\n")]),
    dict(name='R15.11 the final state itself is cut off the replay for FAILED / CANCELED',
         rules=('R15.11',), edits=[
        (_PM, "                passed = passed[-1:]\n", "                passed = passed[:-1]\n")]),
    dict(name='R15.11 sibling site: Pilot._update no longer exempts CANCELED from the single-step test',
         rules=('R15.11',), edits=[(_P, _PU_TEST, "        if target not in [rps.FAILED]:\n")]),
    dict(name='R15.11 sibling site: Pilot._update rejects every step into a final state but from PMGR_ACTIVE (diff >= 1 for the abnormal ones)',
         rules=('R15.11',), edits=[
        (_P, _PU_STEP, _PU_STEP +
             "        elif rps._pilot_state_value(target) - \\\n"
             "             rps._pilot_state_value(current) > 1:\n"
             "            raise RuntimeError('invalid state transition')\n")]),
]

SILENT += [
    dict(name='R15.11 truncation in negated / else form with an explicit index', edits=[
        (_PM, _UP_TRUNC, "            if target not in [rps.CANCELED, rps.FAILED]:\n                pass\n"
                         "            else:\n                passed = passed[len(passed) - 1:]\n")]),
    dict(name='R15.11 truncation as two equality tests, last element rebuilt if there is one', edits=[
        (_PM, _UP_TRUNC, "            if target == rps.FAILED or target == rps.CANCELED:\n"
                         "                if passed:\n                    passed = [passed[-1]]\n")]),
    dict(name='R15.11 truncation test with hoisted container, truncated list under a new name', edits=[
        (_PM, _UP_TRUNC + "\n            for s in passed:\n",
              "            abnormal = (rps.FAILED, rps.CANCELED)\n            replay   = passed\n"
              "            if target in abnormal:\n                replay = passed[-1:]\n\n            for s in replay:\n")]),
    dict(name='R15.11 truncation test as "final but not DONE"', edits=[
        (_PM, _UP_TEST, "            if target in rps.FINAL and target != rps.DONE:\n")]),
    dict(name='R15.11 Pilot._update: single-step test with a hoisted flag and early-exit polarity', edits=[
        (_P, _PU_STEP,
             "        abnormal = target in (rps.CANCELED, rps.FAILED)\n"
             "        if not abnormal and \\\n"
             "           rps._pilot_state_value(target) > rps._pilot_state_value(current) + 1:\n"
             "            raise RuntimeError('%s: invalid state transition %s -> %s',\n"
             "                               self.uid, current, target)\n")]),
    dict(name='R15.11 no truncation at all: intermediate states replayed for FAILED / CANCELED, too',
         edits=[(_PM, _UP_TRUNC, "")],
         note='the callbacks see more states (allowed by R14.7, too); the facade still becomes final'),
    dict(name='R15.11 every passed state applied twice: C14 R14.7 fires (callbacks), the facade still becomes final',
         edits=[(_PM, "                pilot_dict['state'] = s\n                self._pilots[pid]._update(pilot_dict)\n",
                      "                pilot_dict['state'] = s\n                self._pilots[pid]._update(pilot_dict)\n"
                      "                self._pilots[pid]._update(pilot_dict)\n")],
         note='not behaviour-preserving for the callbacks (C14 reports it), but the waits are not affected: '
              'R15.11 must not take that finding of R14.7 over'),
]
