"""C15  Waiting on tasks and pilots returns when it should  (DESIGN 5 / C15)

Anchors: Task.wait, Pilot.wait, TaskManager.wait_tasks, PilotManager.wait_pilots.

R15.1  decision table of the requested-state normalisation: for each of the
       three kinds of `state` argument (falsy / one state / list of states) the
       definition of the requested-state variable that reaches the polling
       loop is rps.FINAL / [state] / state; and the loop depends on it.
R15.2  the polling loop has no infinite path once every awaited entity is
       final (whatever was requested), nor once the timeout has expired.  Both
       are decided by a small abstract interpretation of the loop: branch
       edges contradicting the assumption are pruned, list emptiness is
       tracked, and the rule fires iff a cycle through the loop head remains.
R15.3  every `return` of the four functions returns a state read that is not
       older than the polling loop.
"""

import ast

from ..model import (walk, dotted, call_name, unparse, short, UNKNOWN,
                     AnalysisError, calls_in, stores_in_target)
from ..cfg import cfg_of
from ..flow import Deps, Exploration

ANCHORS = [
    ('task.py',          'Task',         'wait',        'task'),
    ('pilot.py',         'Pilot',        'wait',        'pilot'),
    ('task_manager.py',  'TaskManager',  'wait_tasks',  'task'),
    ('pilot_manager.py', 'PilotManager', 'wait_pilots', 'pilot'),
]

STATE_ATTRS = ('state', '_state')


# ------------------------------------------------------------------------------
# helpers
#
def _final(prog):
    v = prog.const('states.py', 'FINAL')
    if not isinstance(v, list) or len(v) < 3:
        raise AnalysisError('states.py::FINAL is not a list of >= 3 states')
    return v


def wait_loop(f, g):
    """the polling loop: the (outermost) `while` whose body sleeps"""
    heads = []
    for h, a in g.loop_ast.items():
        if isinstance(a, ast.While) and any(
                call_name(c).split('.')[-1] == 'sleep' for c in calls_in(a)):
            heads.append(h)
    heads = [h for h in heads
             if not any(o in g.nodes[h].loops for o in heads if o != h)]
    if len(heads) != 1:
        raise AnalysisError('UNRECOGNISED-IDIOM %s: expected exactly one '
                            'polling `while` loop with a sleep() in its body, '
                            'found %d' % (f.where, len(heads)))
    return heads[0]


def stores_of(node):
    """plain names (re)bound by a cfg node"""
    a = node.ast
    if a is None:
        return []
    if node.kind == 'for':
        return stores_in_target(a.target)
    if node.kind != 'stmt':
        return []
    out = []
    if isinstance(a, ast.Assign):
        for t in a.targets:
            out += stores_in_target(t)
    elif isinstance(a, (ast.AugAssign, ast.AnnAssign)):
        out += stores_in_target(a.target)
    return out


def reads_name(expr, name):
    return any(isinstance(n, ast.Name) and n.id == name and
               isinstance(n.ctx, ast.Load) for n in walk(expr, nested=True))


def reads_state_attr(expr):
    return any(isinstance(n, ast.Attribute) and n.attr in STATE_ATTRS
               for n in walk(expr, nested=True))


def succ_ids(g, nid):
    return [e.dst for e in g.succ[nid] if e.label != 'exc']


def tainted_by_rebinding(g, name):
    """cfg nodes which may execute after `name` (a parameter) was rebound"""
    starts = []
    for n in g.nodes:
        if name in stores_of(n):
            starts += succ_ids(g, n.id)
    return g.reachable(starts) if starts else set()


def contains_final(prog, f, expr, final):
    """expression denotes a collection that includes every final state"""
    v = prog.fold(f.module, expr, f.cls)
    if v is not UNKNOWN and isinstance(v, (list, tuple, set, dict)):
        try:
            return set(final) <= set(v)
        except TypeError:
            return False
    if isinstance(expr, ast.BinOp) and isinstance(expr.op, (ast.Add,
                                                            ast.BitOr)):
        return contains_final(prog, f, expr.left, final) or \
               contains_final(prog, f, expr.right, final)
    if isinstance(expr, ast.Call) and dotted(expr.func) in (
            'set', 'list', 'tuple', 'frozenset', 'sorted') and \
            len(expr.args) == 1:
        return contains_final(prog, f, expr.args[0], final)
    return False


def and_conjuncts(expr):
    if isinstance(expr, ast.BoolOp) and isinstance(expr.op, ast.And):
        out = []
        for v in expr.values:
            out += and_conjuncts(v)
        return out
    return [expr]


# ------------------------------------------------------------------------------
# R15.1  decision table of the normalisation
#
ROWS = [('falsy',   'no state requested (None / empty)'),
        ('single',  'one state requested (a string)'),
        ('list',    'a list of states requested')]


def _isinstance_list(atom, pname):
    if isinstance(atom, ast.Call) and dotted(atom.func) == 'isinstance' and \
            len(atom.args) == 2 and isinstance(atom.args[0], ast.Name) and \
            atom.args[0].id == pname:
        t = atom.args[1]
        names = [unparse(e) for e in (t.elts if isinstance(t, ast.Tuple)
                                      else [t])]
        if 'list' in names:
            return True
    return False


def _row_edge(f, atom, pname, row):
    """which out-edge labels of a test on the parameter are feasible for this
    row: set of 'T'/'F'; raises for a test the recogniser does not know"""
    both = {'T', 'F'}
    if isinstance(atom, ast.Name) and atom.id == pname:
        return {'F'} if row == 'falsy' else {'T'}
    if _isinstance_list(atom, pname):
        if row == 'list':
            return {'T'}
        if row == 'single':
            return {'F'}
        return both                      # None or []
    if isinstance(atom, ast.Compare) and len(atom.ops) == 1 and \
            isinstance(atom.left, ast.Name) and atom.left.id == pname and \
            isinstance(atom.comparators[0], ast.Constant) and \
            atom.comparators[0].value is None and \
            isinstance(atom.ops[0], (ast.Is, ast.IsNot, ast.Eq, ast.NotEq)):
        if row == 'falsy':
            return both
        return {'F'} if isinstance(atom.ops[0], (ast.Is, ast.Eq)) else {'T'}
    if not reads_name(atom, pname):
        return both
    raise AnalysisError('UNRECOGNISED-IDIOM %s: test `%s` on the requested '
                        'state is not one of `%s`, `isinstance(%s, list)`, '
                        '`%s is None`' % (f.where, short(atom, 60), pname,
                                          pname, pname))


def _classify_def(prog, f, value, pname, final):
    """'final' | 'single' | 'list' | 'either' | ('const', v) | None"""
    if isinstance(value, (ast.List, ast.Tuple, ast.Set)) and \
            len(value.elts) == 1 and isinstance(value.elts[0], ast.Name) and \
            value.elts[0].id == pname:
        return 'single'
    if isinstance(value, ast.Name) and value.id == pname:
        return 'list'
    if isinstance(value, ast.Call):
        d = dotted(value.func)
        if d.split('.')[-1] == 'as_list' and len(value.args) == 1 and \
                isinstance(value.args[0], ast.Name) and \
                value.args[0].id == pname:
            return 'either'
        if d in ('list', 'tuple', 'set') and len(value.args) == 1 and \
                isinstance(value.args[0], ast.Name) and \
                value.args[0].id == pname:
            return 'list'
    if isinstance(value, ast.Subscript) and isinstance(value.value, ast.Name) \
            and value.value.id == pname and isinstance(value.slice, ast.Slice) \
            and value.slice.lower is None and value.slice.upper is None:
        return 'list'
    v = prog.fold(f.module, value, f.cls)
    if v is not UNKNOWN and isinstance(v, (list, tuple, set)):
        try:
            if set(v) == set(final):
                return 'final'
        except TypeError:
            pass
        return ('const', v)
    if v is None and isinstance(value, ast.Constant):
        return ('const', None)
    return None


def _def_kinds(prog, f, value, pname, final, row, depth=0):
    """[(kind, text)] of a definition of the requested-state variable; a call
    of a resolvable helper with the `state` argument is followed into the
    helper: every `return` it can reach for this row counts"""
    k = _classify_def(prog, f, value, pname, final)
    if k is not None or depth > 2:
        return [(k, '')]
    if isinstance(value, ast.Call) and len(value.args) == 1 and \
            not value.keywords and isinstance(value.args[0], ast.Name) and \
            value.args[0].id == pname:
        h = prog.resolve_call(f, value)
        if h is None:
            return [(None, '')]
        params = list(h.params)
        static = any(unparse(d) in ('staticmethod',)
                     for d in h.node.decorator_list)
        if h.cls is not None and not static and params:
            params = params[1:]
        if len(params) != 1:
            return [(None, '')]
        hp = params[0]
        hg = cfg_of(h)
        if tainted_by_rebinding(hg, hp):
            return [(None, '')]

        def transfer(node, edge, st):
            if node.kind == 'test' and edge.label in 'TF':
                if edge.label not in _row_edge(h, node.ast, hp, row):
                    return None
            return st

        def is_ret(nid):
            n = hg.nodes[nid]
            return nid in (hg.exit.id, hg.raise_.id) or (
                n.kind == 'stmt' and isinstance(n.ast, ast.Return))
        ex = Exploration(hg, hg.entry.id, 0, transfer, stop=is_ret)
        out = []
        for t in ex.terminals:
            n = hg.nodes[t.node]
            if t.node == hg.raise_.id:
                continue
            if t.node == hg.exit.id or n.ast.value is None:
                out.append((('const', None), '%s returns nothing' % h.qual))
                continue
            for kk, txt in _def_kinds(prog, h, n.ast.value, hp, final, row,
                                      depth + 1):
                out.append((kk, '%s: %s' % (h.qual, short(n.ast, 50))))
        return out or [(None, '')]
    return [(None, '')]


def normalisation(prog, f, g, head):
    """(parameter name, requested-state variable, tainted node ids)"""
    pname = 'state'
    if pname not in f.params:
        raise AnalysisError('anchor %s has no parameter `state`' % f.where)
    tainted = tainted_by_rebinding(g, pname)
    pre = set()
    for n in g.nodes:
        if n.id in g.loop_body[head] or n.id == head or n.id in tainted:
            continue
        if head in g.reachable(n.id):
            pre.add(n.id)
    # tests on the parameter before the loop
    tests = [n for n in g.nodes if n.kind == 'test' and n.id in pre and
             reads_name(n.ast, pname)]
    cand = {}
    for n in g.nodes:
        if n.id not in pre or n.kind != 'stmt' or \
                not isinstance(n.ast, ast.Assign):
            continue
        names = stores_of(n)
        if len(names) != 1 or names[0] == pname:
            continue
        dep = reads_name(n.ast.value, pname)
        if not dep:
            for t in tests:
                for lab in ('T', 'F'):
                    if n.id not in g.reachable(g.entry.id,
                                               skip_edges=[(t.id, lab)]):
                        dep = True
        if dep:
            cand.setdefault(names[0], []).append(n)
    if len(cand) > 1:
        copied = set()
        for nm, nodes in cand.items():
            for n in nodes:
                if isinstance(n.ast.value, ast.Name) and \
                        n.ast.value.id in cand and n.ast.value.id != nm:
                    copied.add(n.ast.value.id)
        for nm in copied:
            if len(cand) > 1:
                cand.pop(nm, None)
    if len(cand) != 1:
        raise AnalysisError('UNRECOGNISED-IDIOM %s: expected one variable '
                            'holding the normalised requested states, found %s'
                            % (f.where, sorted(cand)))
    var = list(cand)[0]
    return pname, var, tainted


def r15_1(prog, rep, rid='R15.1'):
    rep.rule(rid, 'the requested-state variable that reaches the polling loop '
             'is rps.FINAL when no state is given, [state] for one state, '
             'state for a list; and the loop depends on it', minimum=16)
    final = _final(prog)
    for rel, cname, mname, what in ANCHORS:
        f = prog.method(rel, cname, mname)
        rep.saw(f)
        g = cfg_of(f)
        rep.stat('cfg_nodes', len(g.nodes))
        head = wait_loop(f, g)
        pname, var, tainted = normalisation(prog, f, g, head)
        tracked = set()
        for n in g.nodes:
            if n.kind == 'stmt' and isinstance(n.ast, ast.Assign) and \
                    n.id not in g.loop_body[head] and \
                    len(n.ast.targets) == 1 and \
                    isinstance(n.ast.targets[0], ast.Name):
                tracked.add(n.ast.targets[0].id)
        tracked.discard(pname)

        for row, rowtext in ROWS:
            def transfer(node, edge, st, row=row):
                if edge.label == 'exc':
                    return st
                if node.kind == 'test' and edge.label in 'TF' and \
                        node.id not in tainted:
                    if edge.label not in _row_edge(f, node.ast, pname, row):
                        return None
                names = stores_of(node)
                if names:
                    d = dict(st)
                    a = node.ast
                    src = node.id
                    if node.kind == 'stmt' and isinstance(a, ast.Assign) and \
                            isinstance(a.value, ast.Name) and \
                            a.value.id != pname and a.value.id in d:
                        src = d[a.value.id]       # x = y: x is what y is
                    for nm in names:
                        if nm in tracked:
                            d[nm] = src
                    return tuple(sorted(d.items()))
                return st
            ex = Exploration(g, g.entry.id, (), transfer,
                             stop=lambda nid: nid in (head, g.exit.id,
                                                      g.raise_.id))
            rep.stat('paths', ex.states)
            at_head = [t for t in ex.terminals if t.node == head]
            if not at_head:
                raise AnalysisError('UNRECOGNISED-IDIOM %s: the polling loop '
                                    'is not reachable when %s' % (f.where,
                                                                  rowtext))
            wrong, unknown = [], []
            good = {'falsy': ('final',), 'single': ('single', 'either'),
                    'list': ('list', 'either')}[row]
            for t in at_head:
                did = dict(t.state).get(var, -1)
                t.state = did
                if did < 0:
                    wrong.append((t, '<undefined>', 'undefined'))
                    continue
                dn = g.nodes[did]
                if dn.kind != 'stmt' or not isinstance(dn.ast, ast.Assign):
                    unknown.append(dn)
                    continue
                ks = _def_kinds(prog, f, dn.ast.value, pname, final, row)
                if any(k is None for k, _ in ks):
                    unknown.append(dn)
                    continue
                bad = [(k, txt) for k, txt in ks if k not in good]
                if bad:
                    wrong.append((t, bad[0][1] or short(dn.ast, 60), bad[0][0]))
            if unknown and not wrong:
                raise AnalysisError(
                    'UNRECOGNISED-IDIOM %s: the definition `%s` of %r that '
                    'reaches the polling loop when %s is not a form the '
                    'recogniser knows' % (f.where, short(unknown[0].ast, 60),
                                          var, rowtext))
            hist = {
                'falsy' : '%s.%s() with the default state: the loop waits for '
                          '%s instead of any final state and never returns '
                          '(without a timeout)',
                'single': '%s.%s(rps.DONE): the loop compares the %s state '
                          'with %s',
                'list'  : '%s.%s([rps.DONE, rps.FAILED]): the loop compares '
                          'the %s state with %s',
            }[row]
            if wrong:
                t, dtxt, k = wrong[0]
                lits = ex.literals(t)
                if row == 'falsy':
                    h = hist % (cname, mname, dtxt)
                else:
                    h = hist % (cname, mname, what, dtxt)
                rep.bad(rid, f, 'requested states when %s' % rowtext,
                        '%s: when %s, the definition of %r that reaches the '
                        'polling loop is `%s` (%d path(s)); expected %s.  '
                        'The wait then tests the %s state against the wrong '
                        'set' % (f.qual, rowtext, var, dtxt, len(wrong),
                                 {'falsy': 'rps.FINAL', 'single': '[%s]' % pname,
                                  'list': pname}[row], what),
                        f.loc(g.nodes[t.state].ast) if t.state >= 0
                        else f.loc(), history=h, path=lits)
            else:
                rep.ok(rid, f, '%s: %r at the polling loop is %s when %s'
                       % (f.qual, var, {'falsy': 'rps.FINAL',
                                        'single': '[%s]' % pname,
                                        'list': pname}[row], rowtext), f.loc())

        # the loop depends on the requested states
        d = Deps(f.node, implicit=True)
        loop = g.loop_ast[head]
        dep = set()
        for n in g.nodes:
            if (n.id in g.loop_body[head]) and n.kind == 'test':
                dep |= d.expr_depends(n.ast)
        for n in walk(loop):
            if isinstance(n, ast.comprehension):
                for c in n.ifs:
                    dep |= d.expr_depends(c)
        rep.check(var in dep, rid, f,
                  '%s: the polling loop depends on %r' % (f.qual, var),
                  construct='loop reads requested states',
                  message='%s: no test of the polling loop depends on the '
                  'normalised requested states %r: the wait ignores what was '
                  'asked for' % (f.qual, var), loc=f.loc(loop),
                  history='%s.%s(rps.%s): returns only once the %s is final, '
                  'although the requested state was reached long before'
                  % (cname, mname, 'AGENT_EXECUTING' if what == 'task'
                     else 'PMGR_ACTIVE', what))


# ------------------------------------------------------------------------------
# predicates extracted into helpers
#
def substitute(expr, mapping):
    import copy

    class T(ast.NodeTransformer):
        def visit_Name(self, n):
            if isinstance(n.ctx, ast.Load) and n.id in mapping:
                return copy.deepcopy(mapping[n.id])
            return n
    return T().visit(copy.deepcopy(expr))


def inline_pred(prog, f, call):
    """the boolean expression a call stands for, if the callee is a resolvable
    function whose body is a single `return <expr>` over its parameters (which
    are replaced by the arguments); else None"""
    if not isinstance(call, ast.Call) or call.keywords or \
            any(isinstance(a, ast.Starred) for a in call.args):
        return None
    h = prog.resolve_call(f, call)
    if h is None or h is f:
        return None
    stmts = [x for x in h.node.body
             if not (isinstance(x, ast.Expr) and
                     isinstance(x.value, ast.Constant))]
    if len(stmts) != 1 or not isinstance(stmts[0], ast.Return) or \
            stmts[0].value is None:
        return None
    a = h.node.args
    if a.vararg or a.kwarg or a.kwonlyargs:
        return None
    params = [x.arg for x in a.posonlyargs + a.args]
    static = any(unparse(d) == 'staticmethod' for d in h.node.decorator_list)
    if h.cls is not None and not static and params and \
            isinstance(call.func, ast.Attribute):
        params = params[1:]
    if len(params) != len(call.args):
        return None
    body = stmts[0].value
    free = {n.id for n in walk(body) if isinstance(n, ast.Name)} - set(params)
    if 'self' in free or 'cls' in free:
        return None
    return substitute(body, dict(zip(params, call.args)))


def truth3(expr, known):
    """three-valued truth of a boolean expression: known(atom) -> True /
    False / None"""
    if isinstance(expr, ast.UnaryOp) and isinstance(expr.op, ast.Not):
        v = truth3(expr.operand, known)
        return None if v is None else not v
    if isinstance(expr, ast.BoolOp):
        vals = [truth3(v, known) for v in expr.values]
        if isinstance(expr.op, ast.And):
            if any(v is False for v in vals):
                return False
            return True if all(v is True for v in vals) else None
        if any(v is True for v in vals):
            return True
        return False if all(v is False for v in vals) else None
    return known(expr)


# ------------------------------------------------------------------------------
# R15.2  no infinite path through the polling loop
#
def _state_aliases(f, g, head):
    """local names which are (re)assigned inside the loop, only from a state
    read (st = self.state)"""
    body = g.loop_body[head]
    defs = {}
    for n in g.nodes:
        for name in stores_of(n):
            defs.setdefault(name, []).append(n)
    out = set()
    for name, nodes in defs.items():
        if all(n.id in body and n.kind == 'stmt' and
               isinstance(n.ast, ast.Assign) and
               isinstance(n.ast.value, ast.Attribute) and
               n.ast.value.attr in STATE_ATTRS for n in nodes):
            out.add(name)
    return out


def _final_atom(prog, f, atom, final, aliases):
    """+1: atom is `<entity state> in <FINAL..>`, -1: `not in`, 0: neither"""
    if not isinstance(atom, ast.Compare) or len(atom.ops) != 1:
        return 0
    op = atom.ops[0]
    if not isinstance(op, (ast.In, ast.NotIn)):
        return 0
    l = atom.left
    if not (isinstance(l, ast.Attribute) and l.attr in STATE_ATTRS or
            isinstance(l, ast.Name) and l.id in aliases):
        return 0
    if not contains_final(prog, f, atom.comparators[0], final):
        return 0
    return 1 if isinstance(op, ast.In) else -1


def _timeout_atom(f, atom, tname):
    """truth value of a test on the timeout once it has expired: True / False /
    None (not about the timeout)"""
    if isinstance(atom, ast.Name) and atom.id == tname:
        return True
    if not reads_name(atom, tname):
        return None
    if isinstance(atom, ast.Compare) and len(atom.ops) == 1:
        op = atom.ops[0]
        l, r = atom.left, atom.comparators[0]
        if isinstance(r, ast.Constant) and r.value is None and \
                isinstance(l, ast.Name) and l.id == tname:
            if isinstance(op, (ast.IsNot, ast.NotEq)):
                return True
            if isinstance(op, (ast.Is, ast.Eq)):
                return False
        lt, rt = reads_name(l, tname), reads_name(r, tname)
        if lt != rt:
            # <timeout> op <elapsed>   /   <elapsed> op <timeout>
            if isinstance(op, (ast.LtE, ast.Lt)):
                return lt
            if isinstance(op, (ast.GtE, ast.Gt)):
                return rt
    raise AnalysisError('UNRECOGNISED-IDIOM %s: test `%s` on the timeout is '
                        'not a form the recogniser knows' % (f.where,
                                                             short(atom, 60)))


EMPTY_CALLS = ('list', 'dict', 'set')


def _empty_value(prog, f, value, st, assume, final, aliases):
    """does the assigned value denote an empty collection under the current
    abstract state / assumption"""
    if isinstance(value, (ast.List, ast.Dict, ast.Set)) and not (
            getattr(value, 'elts', None) or getattr(value, 'keys', None)):
        return True
    if isinstance(value, ast.Call) and dotted(value.func) in EMPTY_CALLS:
        if not value.args and not value.keywords:
            return True
        if len(value.args) == 1 and isinstance(value.args[0], ast.Name):
            return value.args[0].id in st
        return False
    if isinstance(value, ast.Name):
        return value.id in st
    if isinstance(value, (ast.ListComp, ast.SetComp, ast.GeneratorExp)) and \
            len(value.generators) == 1:
        gen = value.generators[0]
        if isinstance(gen.iter, ast.Name) and gen.iter.id in st:
            return True
        if assume == 'final':
            for cond in gen.ifs:
                for c in and_conjuncts(cond):
                    neg = False
                    while isinstance(c, ast.UnaryOp) and \
                            isinstance(c.op, ast.Not):
                        c = c.operand
                        neg = not neg
                    k = _final_atom(prog, f, c, final, aliases)
                    if (k == -1 and not neg) or (k == 1 and neg):
                        return True        # filter keeps non-final only
    return False


MUT = {'append', 'extend', 'insert', 'add', 'update', 'setdefault',
       'appendleft'}


def loop_has_infinite_path(prog, f, g, head, assume, final, tname):
    """abstract interpretation of the polling loop under `assume`
    ('final': every awaited entity is in a final state and stays there;
     'timeout': a timeout was given and has expired).
    Returns (witness literals | None, number of product states)"""
    body = g.loop_body[head] | {head}
    aliases = _state_aliases(f, g, head)
    preds = {}

    def transfer(node, edge, st):
        if edge.label == 'exc':
            return st
        a = node.ast
        if node.kind == 'test' and edge.label in 'TF':
            want = edge.label == 'T'
            if assume == 'final':
                k = _final_atom(prog, f, a, final, aliases)
                if k and (k == 1) != want:
                    return None
                if not k and isinstance(a, ast.Call):
                    if id(a) not in preds:
                        preds[id(a)] = inline_pred(prog, f, a)
                    body = preds[id(a)]
                    if body is not None:
                        def known(x):
                            kk = _final_atom(prog, f, x, final, aliases)
                            return None if not kk else kk == 1
                        tv = truth3(body, known)
                        if tv is not None and tv != want:
                            return None
            if assume == 'timeout':
                tv = _timeout_atom(f, a, tname)
                if tv is not None and tv != want:
                    return None
            x = None
            if isinstance(a, ast.Name):
                x = a.id
            elif isinstance(a, ast.Call) and dotted(a.func) == 'len' and \
                    len(a.args) == 1 and isinstance(a.args[0], ast.Name):
                x = a.args[0].id
            if x is not None:
                if want and x in st:
                    return None
                if not want and x != tname:
                    return st | {x}
            return st
        if node.kind == 'for':
            it = a.iter
            if isinstance(it, ast.Call) and dotted(it.func) in (
                    'list', 'sorted', 'reversed', 'enumerate') and it.args:
                it = it.args[0]
            if edge.label == 'iter' and isinstance(it, ast.Name) and \
                    it.id in st:
                return None
            names = set(stores_in_target(a.target))
            return st - names if edge.label == 'iter' else st
        if node.kind != 'stmt' or a is None:
            return st
        if isinstance(a, ast.Assign):
            emp = _empty_value(prog, f, a.value, st, assume, final, aliases)
            for t in a.targets:
                for name in stores_in_target(t):
                    st = (st | {name}) if emp and isinstance(t, ast.Name) \
                        else (st - {name})
                if isinstance(t, (ast.Subscript, ast.Attribute)):
                    r = t
                    while isinstance(r, (ast.Subscript, ast.Attribute)):
                        r = r.value
                    if isinstance(r, ast.Name):
                        st = st - {r.id}
            return st
        if isinstance(a, (ast.AugAssign, ast.AnnAssign)):
            r = a.target
            while isinstance(r, (ast.Subscript, ast.Attribute)):
                r = r.value
            if isinstance(r, ast.Name):
                st = st - {r.id}
            return st
        for c in calls_in(a):
            if isinstance(c.func, ast.Attribute) and c.func.attr in MUT and \
                    isinstance(c.func.value, ast.Name):
                st = st - {c.func.value.id}
        return st

    nstates = 0
    s0 = frozenset()
    succ = {}
    wit = {}
    todo = [s0]
    while todo:
        s = todo.pop()
        if s in succ:
            continue
        ex = Exploration(g, head, s, transfer,
                         stop=lambda nid: nid not in body,
                         stop_edge=lambda e: e.back and e.dst == head)
        nstates += ex.states
        succ[s] = set()
        for t in ex.terminals:
            if t.node == head:
                succ[s].add(t.state)
                wit.setdefault((s, t.state), ex.literals(t))
                todo.append(t.state)
    # an infinite path exists iff a cycle is reachable in the head-state graph
    for s in succ:
        seen = set()
        stack = list(succ[s])
        while stack:
            x = stack.pop()
            if x in seen:
                continue
            seen.add(x)
            stack += list(succ.get(x, ()))
        if s in seen:
            # witness: one iteration that stays in the cycle
            for s2 in succ[s]:
                if s2 == s or s in _reach(succ, s2):
                    return wit[(s, s2)], nstates
    return None, nstates


def _reach(succ, s):
    seen = set()
    stack = [s]
    while stack:
        x = stack.pop()
        if x in seen:
            continue
        seen.add(x)
        stack += list(succ.get(x, ()))
    return seen


def _augments_with_final(prog, f, var, final):
    """safety net: the requested-state variable is extended by the final
    states somewhere (a form of the escape the loop recogniser does not
    follow)"""
    for n in walk(f.node):
        if isinstance(n, ast.AugAssign) and isinstance(n.target, ast.Name) \
                and n.target.id == var and \
                contains_final(prog, f, n.value, final):
            return True
        if isinstance(n, ast.Assign) and any(
                isinstance(t, ast.Name) and t.id == var for t in n.targets) \
                and isinstance(n.value, (ast.BinOp, ast.Call)) and \
                contains_final(prog, f, n.value, final) and \
                reads_name(n.value, var):
            return True
        if isinstance(n, ast.Call) and isinstance(n.func, ast.Attribute) and \
                n.func.attr in ('extend', 'update') and \
                isinstance(n.func.value, ast.Name) and \
                n.func.value.id == var and n.args and \
                contains_final(prog, f, n.args[0], final):
            return True
    return False


def _unknown_loop_tests(f, g, head, prog=None):
    """tests inside the loop which call something the recogniser cannot look
    into (a helper deciding about the end of the wait)"""
    out = []
    for n in g.nodes:
        if n.kind != 'test' or n.id not in g.loop_body[head]:
            continue
        for c in calls_in(n.ast):
            d = dotted(c.func)
            last = d.split('.')[-1] if d else ''
            if prog is not None and inline_pred(prog, f, c) is not None:
                continue
            if last in ('is_set', 'isinstance', 'len', 'time', 'get',
                        '_task_state_value', '_pilot_state_value', 'min',
                        'max', 'float', 'int', 'bool'):
                continue
            out.append(n)
    return out


def r15_2(prog, rep, rid='R15.2'):
    rep.rule(rid, 'the polling loop ends once every awaited entity is final '
             '(whatever state was requested) and once the timeout has expired',
             minimum=8)
    final = _final(prog)
    for rel, cname, mname, what in ANCHORS:
        f = prog.method(rel, cname, mname)
        rep.saw(f)
        g = cfg_of(f)
        head = wait_loop(f, g)
        loop = g.loop_ast[head]
        tname = 'timeout'
        if tname not in f.params:
            raise AnalysisError('anchor %s has no parameter `timeout`'
                                % f.where)
        other = 'FAILED' if what == 'task' else 'CANCELED'
        asked = 'DONE' if what == 'task' else 'PMGR_ACTIVE'
        for assume in ('final', 'timeout'):
            wit, n = loop_has_infinite_path(prog, f, g, head, assume, final,
                                            tname)
            rep.stat('paths', n)
            if assume == 'final':
                text = '%s: no infinite path through the polling loop once ' \
                       'the awaited %s(s) are final' % (f.qual, what)
                if wit is not None:
                    pname, var, _ = normalisation(prog, f, g, head)
                    unk = _unknown_loop_tests(f, g, head, prog)
                    if _augments_with_final(prog, f, var, final) or unk:
                        raise AnalysisError(
                            'UNRECOGNISED-IDIOM %s: the polling loop has no '
                            'recognisable exit on a final state, but %s'
                            % (f.where, 'the requested states are extended '
                               'by the final states' if not unk else
                               'it tests `%s`' % short(unk[0].ast, 60)))
                    rep.bad(rid, f, 'while %s' % unparse(loop.test),
                            '%s: the polling loop can run forever although '
                            'the awaited %s is in a final state: no exit of '
                            'the loop is taken on `<%s>.state in rps.FINAL`; '
                            'a final state never changes, so a requested '
                            'state that was not reached is never reached'
                            % (f.qual, what, what), f.loc(loop),
                            history='%s.%s(rps.%s) without timeout and the %s '
                            'ends %s: the call never returns'
                            % (cname, mname, asked, what, other), path=wit)
                else:
                    rep.ok(rid, f, text, f.loc(loop))
            else:
                text = '%s: no infinite path through the polling loop once ' \
                       'the timeout has expired' % f.qual
                if wit is not None:
                    rep.bad(rid, f, 'timeout exit of: while %s'
                            % unparse(loop.test),
                            '%s: the polling loop has a path from its head '
                            'back to its head on which an expired timeout is '
                            'not tested (or is tested with the wrong '
                            'orientation): the wait outlasts its timeout'
                            % f.qual, f.loc(loop),
                            history='%s.%s(rps.%s, timeout=1.0) while the %s '
                            'stays in an earlier state: the call does not '
                            'return after one second' % (cname, mname, asked,
                                                         what), path=wit)
                else:
                    rep.ok(rid, f, text, f.loc(loop))


# ------------------------------------------------------------------------------
# R15.3  returns read the actual state
#
def _defs_reaching(g, name, target):
    """assignment nodes of `name` which reach cfg node `target`"""
    defs = [n for n in g.nodes if name in stores_of(n)]
    out = []
    for d in defs:
        others = {o.id for o in defs if o is not d}
        r = g.reachable(succ_ids(g, d.id), skip_nodes=others - {target})
        if target in r:
            out.append(d)
    # undefined on some path (parameter / never assigned)?
    r = g.reachable(g.entry.id, skip_nodes={d.id for d in defs} - {target})
    return out, target in r


def _is_state_read(value):
    if isinstance(value, ast.Attribute) and value.attr in STATE_ATTRS:
        return True
    if isinstance(value, (ast.ListComp, ast.List, ast.Tuple)):
        elts = [value.elt] if isinstance(value, ast.ListComp) else value.elts
        return bool(elts) and all(isinstance(e, ast.Attribute) and
                                  e.attr in STATE_ATTRS for e in elts)
    return False


def r15_3(prog, rep, rid='R15.3'):
    rep.rule(rid, 'every return of the wait functions returns the current '
             'state(s) of the awaited entities', minimum=6)
    for rel, cname, mname, what in ANCHORS:
        f = prog.method(rel, cname, mname)
        rep.saw(f)
        g = cfg_of(f)
        head = wait_loop(f, g)
        rets = [n for n in g.nodes if n.kind == 'stmt' and
                isinstance(n.ast, ast.Return)]
        if not rets:
            raise AnalysisError('UNRECOGNISED-IDIOM %s: no return statement'
                                % f.where)
        alts = []
        for n in rets:
            vals = [n.ast.value]
            while any(isinstance(x, ast.IfExp) for x in vals):
                vals = [y for x in vals for y in (
                    [x.body, x.orelse] if isinstance(x, ast.IfExp) else [x])]
            alts += [(n, x) for x in vals]
        for n, v in alts:
            okay, why = None, ''
            if v is None or isinstance(v, ast.Constant):
                okay, why = False, 'returns %s' % (
                    'nothing (None)' if v is None else unparse(v))
            elif _is_state_read(v):
                okay = True
            else:
                base = v
                if isinstance(base, ast.Subscript):
                    base = base.value
                if isinstance(base, ast.Name):
                    defs, undefined = _defs_reaching(g, base.id, n.id)
                    verdicts = []
                    if undefined:
                        verdicts.append((False, 'returns %r, which is not '
                                         'assigned from a state read on some '
                                         'path' % base.id))
                    for dn in defs:
                        val = dn.ast.value if dn.kind == 'stmt' and \
                            isinstance(dn.ast, ast.Assign) else None
                        if val is not None and _is_state_read(val):
                            stale = head in g.reachable(dn.id) or \
                                dn.id in g.loop_body[head] and False
                            if stale:
                                verdicts.append((False, 'returns %r, read '
                                                 'before the polling loop (a '
                                                 'stale state)' % base.id))
                            else:
                                verdicts.append((True, ''))
                        elif val is not None and not reads_state_attr(val):
                            verdicts.append((False, 'returns %r = `%s`, which '
                                             'is not a state read'
                                             % (base.id, short(val, 40))))
                        else:
                            verdicts.append((None, short(dn.ast, 60)))
                    if any(x[0] is False for x in verdicts):
                        okay = False
                        why = [x[1] for x in verdicts if x[0] is False][0]
                    elif verdicts and all(x[0] for x in verdicts):
                        okay = True
                    else:
                        okay = None
                        why = verdicts[0][1] if verdicts else unparse(v)
                elif not reads_state_attr(v):
                    okay, why = False, 'returns `%s`, which is not a state ' \
                        'read' % short(v, 40)
            if okay is None:
                raise AnalysisError('UNRECOGNISED-IDIOM %s: cannot relate the '
                                    'returned value `%s` to a state read (%s)'
                                    % (f.where, short(n.ast, 60), why))
            cons = n.ast if v is n.ast.value else 'return %s' % unparse(v)
            rep.check(okay, rid, f,
                      '%s: `%s` returns the current state' % (f.qual,
                                                              short(cons, 50)),
                      construct=cons,
                      message='%s: %s - the caller is told a state that is '
                      'not the actual state of the %s' % (f.qual, why, what),
                      loc=f.loc(n.ast),
                      history='%s.%s(): the caller receives a value that is '
                      'not the %s\'s state at the time of return' % (
                          cname, mname, what) if v is not None else
                      '%s.%s(rps.DONE) on a %s that already is DONE returns '
                      'None instead of \'DONE\'' % (cname, mname, what))


# ------------------------------------------------------------------------------
# finite-domain evaluation of tests on a state (shared with C13)
#
class Uneval(Exception):
    pass


def single_assign(f, name):
    """value expression of a local name that is assigned exactly once in the
    function (and is neither a parameter nor a loop / with / except target)"""
    if name in f.params:
        return None
    vals = []
    for n in walk(f.node):
        if isinstance(n, ast.Assign):
            for t in n.targets:
                if name in stores_in_target(t):
                    if not isinstance(t, ast.Name):
                        return None
                    vals.append(n.value)
        elif isinstance(n, (ast.AugAssign, ast.AnnAssign, ast.NamedExpr)):
            if name in stores_in_target(n.target):
                return None
        elif isinstance(n, (ast.For, ast.comprehension)):
            if name in stores_in_target(n.target):
                return None
        elif isinstance(n, ast.withitem) and n.optional_vars is not None:
            if name in stores_in_target(n.optional_vars):
                return None
    return vals[0] if len(vals) == 1 else None


class StateEval:
    """evaluates an expression for one concrete entity state; `is_state(e)`
    tells which sub-expressions denote that state, `names` binds local names
    to concrete values; state value tables are folded from states.py"""

    def __init__(self, prog, f, is_state, names=None, resolve=None):
        self.resolve = resolve
        self.prog = prog
        self.f = f
        self.is_state = is_state
        self.names = dict(names or {})
        self.state = None
        self._folded = {}
        self.tables = {
            '_task_state_value' : prog.const('states.py', '_task_state_values'),
            '_pilot_state_value': prog.const('states.py', '_pilot_state_values'),
        }

    def ev(self, e):
        if self.is_state(e):
            return self.state
        if isinstance(e, ast.Name) and e.id in self.names:
            return self.names[e.id]
        if isinstance(e, ast.Constant):
            return e.value
        k = id(e)
        if k not in self._folded:
            self._folded[k] = self.prog.fold(self.f.module, e, self.f.cls)
        v = self._folded[k]
        if v is not UNKNOWN:
            return v
        if isinstance(e, ast.Name) and self.resolve is not None:
            d = self.resolve(e.id)
            if d is not None:
                return self.ev(d)
        try:
            if isinstance(e, ast.Call):
                fn = dotted(e.func).split('.')[-1]
                args = [self.ev(a) for a in e.args]
                if fn in self.tables and len(args) == 1:
                    return self.tables[fn][args[0]]
                if fn in ('min', 'max') and args:
                    return (min if fn == 'min' else max)(
                        args if len(args) > 1 else args[0])
                if fn == 'len' and len(args) == 1:
                    return len(args[0])
                raise Uneval(unparse(e))
            if isinstance(e, ast.Subscript):
                return self.ev(e.value)[self.ev(e.slice)]
            if isinstance(e, (ast.List, ast.Tuple, ast.Set)):
                return [self.ev(x) for x in e.elts]
            if isinstance(e, (ast.ListComp, ast.GeneratorExp, ast.SetComp)) \
                    and len(e.generators) == 1 and \
                    isinstance(e.generators[0].target, ast.Name):
                gen = e.generators[0]
                out = []
                tn = gen.target.id
                saved = self.names.get(tn, Uneval)
                try:
                    for item in self.ev(gen.iter):
                        self.names[tn] = item
                        if all(self.ev(c) for c in gen.ifs):
                            out.append(self.ev(e.elt))
                finally:
                    if saved is Uneval:
                        self.names.pop(tn, None)
                    else:
                        self.names[tn] = saved
                return out
            if isinstance(e, ast.UnaryOp) and isinstance(e.op, ast.Not):
                return not self.ev(e.operand)
            if isinstance(e, ast.BinOp) and isinstance(e.op, (ast.Add,
                                                              ast.Sub)):
                l, r = self.ev(e.left), self.ev(e.right)
                return l + r if isinstance(e.op, ast.Add) else l - r
            if isinstance(e, ast.BoolOp):
                vals = [self.ev(x) for x in e.values]
                return all(vals) if isinstance(e.op, ast.And) else any(vals)
            if isinstance(e, ast.Compare):
                left = self.ev(e.left)
                for op, r in zip(e.ops, e.comparators):
                    right = self.ev(r)
                    res = {ast.Lt: lambda a, b: a < b,
                           ast.LtE: lambda a, b: a <= b,
                           ast.Gt: lambda a, b: a > b,
                           ast.GtE: lambda a, b: a >= b,
                           ast.Eq: lambda a, b: a == b,
                           ast.NotEq: lambda a, b: a != b,
                           ast.Is: lambda a, b: a is b or a == b,
                           ast.IsNot: lambda a, b: not (a is b or a == b),
                           ast.In: lambda a, b: a in b,
                           ast.NotIn: lambda a, b: a not in b,
                           }[type(op)](left, right)
                    if not res:
                        return False
                    left = right
                return True
        except (KeyError, IndexError, TypeError) as ex:
            raise Uneval('%s: %s' % (unparse(e), ex))
        raise Uneval(unparse(e))

    def holds(self, atom, state):
        self.state = state
        return bool(self.ev(atom))


# ------------------------------------------------------------------------------
# R15.4  the requested state itself satisfies the wait
#
def _conj_atoms(expr, pol=True):
    if isinstance(expr, ast.UnaryOp) and isinstance(expr.op, ast.Not):
        return _conj_atoms(expr.operand, not pol)
    if isinstance(expr, ast.BoolOp):
        if isinstance(expr.op, ast.And) == pol:
            out = []
            for v in expr.values:
                out += _conj_atoms(v, pol)
            return out
        return [(expr, pol)]
    return [(expr, pol)]


def _min_var(f, name, var, ev):
    """`name` accumulates the minimum of the values of the requested states:
    init by an evaluable constant, then name = min(name, <table>[x]) inside
    `for x in <var>`; returns (init value, element expr, loop var) or None"""
    init, upd = None, None
    for n in walk(f.node):
        if isinstance(n, ast.Assign) and any(
                isinstance(t, ast.Name) and t.id == name for t in n.targets):
            v = n.value
            if isinstance(v, ast.Call) and dotted(v.func) == 'min' and \
                    len(v.args) == 2 and any(
                        isinstance(a, ast.Name) and a.id == name
                        for a in v.args):
                other = [a for a in v.args
                         if not (isinstance(a, ast.Name) and a.id == name)]
                if len(other) != 1 or upd is not None:
                    return None
                upd = other[0]
            else:
                if init is not None:
                    return None
                try:
                    init = ev.ev(v)
                except Uneval:
                    return None
    if init is None or upd is None:
        return None
    for n in walk(f.node):
        if isinstance(n, ast.For) and isinstance(n.iter, ast.Name) and \
                n.iter.id == var and isinstance(n.target, ast.Name) and \
                any(x is upd for b in n.body for x in walk(b)):
            return (init, upd, n.target.id)
    return None


def keep_conditions(f, g, head):
    """[(entity variable, [(atom, polarity)], ast)]: conditions under which
    an awaited entity stays on the check list of the polling loop"""
    body = g.loop_body[head]
    loop = g.loop_ast[head]
    tested = {n.id for n in walk(loop.test) if isinstance(n, ast.Name)}
    out = []
    smap = None
    for n in g.nodes:
        if n.id not in body or n.ast is None:
            continue
        if n.kind == 'stmt' and isinstance(n.ast, ast.Assign) and \
                isinstance(n.ast.value, (ast.ListComp, ast.GeneratorExp)) and \
                any(isinstance(t, ast.Name) and t.id in tested
                    for t in n.ast.targets):
            v = n.ast.value
            if len(v.generators) == 1 and \
                    isinstance(v.generators[0].target, ast.Name):
                atoms = []
                for c in v.generators[0].ifs:
                    atoms += _conj_atoms(c)
                out.append((v.generators[0].target.id, atoms, n.ast))
        if n.kind == 'stmt':
            for c in calls_in(n.ast):
                if isinstance(c.func, ast.Attribute) and \
                        c.func.attr == 'append' and len(c.args) == 1 and \
                        isinstance(c.args[0], ast.Name):
                    ev = c.args[0].id
                    h = None
                    for hh in reversed(n.loops):
                        hn = g.nodes[hh]
                        if hn.kind == 'for' and hh in body and \
                                ev in stores_in_target(hn.ast.target):
                            h = hn
                            break
                    if h is None or not (isinstance(h.ast.iter, ast.Name) and
                                         h.ast.iter.id in tested):
                        continue
                    from ..flow import guards, loop_slice
                    start = loop_slice(g, h.id)[0]
                    atoms = [(g.nodes[t].ast, lab == 'T')
                             for t, lab in guards(g, n.id, start=start)]
                    out.append((ev, atoms, c))
    return out


def r15_4(prog, rep, rid='R15.4'):
    rep.rule(rid, 'wait_tasks / wait_pilots: an entity that is in a requested '
             '(non-final) state, or is final, leaves the check list; one that '
             'is still before every requested state stays on it (evaluated '
             'over the folded state tables)', minimum=4)
    final = _final(prog)
    for rel, cname, mname, what in ANCHORS[2:]:
        f = prog.method(rel, cname, mname)
        rep.saw(f)
        g = cfg_of(f)
        head = wait_loop(f, g)
        pname, var, _ = normalisation(prog, f, g, head)
        table = prog.const('states.py', '_%s_state_values' % what)
        domain = [s for s in table if s is not None]
        keeps = keep_conditions(f, g, head)
        if not keeps:
            raise AnalysisError('UNRECOGNISED-IDIOM %s: no statement keeps '
                                'entities on the check list of the polling '
                                'loop' % f.where)
        for evar, atoms0, site in keeps:
            atoms = []
            for atom, pol in atoms0:
                body = inline_pred(prog, f, atom)
                if body is not None:
                    atoms += _conj_atoms(body, pol)
                else:
                    atoms.append((atom, pol))

            def is_state(e, evar=evar):
                return isinstance(e, ast.Attribute) and \
                    e.attr in STATE_ATTRS and \
                    isinstance(e.value, ast.Name) and e.value.id == evar
            ev = StateEval(prog, f, is_state,
                           resolve=lambda n: single_assign(f, n)
                           if n not in (evar, var) else None)
            # names the atoms read
            relevant = []
            minvars = {}
            for atom, pol in atoms:
                names = {n.id for n in walk(atom) if isinstance(n, ast.Name)
                         and isinstance(n.ctx, ast.Load)}
                if not (reads_state_attr(atom) and evar in names or
                        var in names or names & set(minvars)):
                    mv = [x for x in names
                          if x not in (evar, var) and
                          _min_var(f, x, var, ev) is not None]
                    if not mv:
                        continue
                for x in names - {evar, var}:
                    m = _min_var(f, x, var, ev)
                    if m is not None:
                        minvars[x] = m
                relevant.append((atom, pol))
            requests = [[r] for r in domain] + \
                       [[a, b] for a in domain for b in domain if a != b]
            stuck, early = [], []
            try:
                for R in requests:
                    ev.names = {var: list(R)}
                    for x, (init, elt, lv) in minvars.items():
                        vals = [init]
                        for r in R:
                            ev.names[lv] = r
                            vals.append(ev.ev(elt))
                        ev.names.pop(lv, None)
                        ev.names[x] = min(vals)
                    low = min(table[r] for r in R)
                    for s in domain:
                        kept = all(ev.holds(a, s) == pol
                                   for a, pol in relevant)
                        if kept and (s in final or any(
                                table[r] == table[s] for r in R)):
                            stuck.append((s, R))
                        if not kept and s not in final and table[s] < low:
                            early.append((s, R))
            except Uneval as e:
                raise AnalysisError('UNRECOGNISED-IDIOM %s: cannot evaluate '
                                    'the keep-waiting condition `%s` over the '
                                    'state table (%s)' % (
                                        f.where, ' and '.join(
                                            ('%s' if p else 'not (%s)')
                                            % short(a, 50)
                                            for a, p in relevant), e))
            rep.stat('state_combinations', len(requests) * len(domain))
            cond = ' and '.join(('%s' if p else 'not (%s)') % unparse(a)
                                for a, p in relevant) or 'True'
            ex = stuck[0] if stuck else None
            rep.check(not stuck, rid, f, '%s: a %s that is in a requested '
                      'state (or final) is dropped from the check list'
                      % (f.qual, what),
                      construct='keeps waiting when: %s' % cond,
                      message='%s: a %s stays on the check list while `%s`, '
                      'which still holds when it is in state %s and %s was '
                      'requested (%d such combinations, e.g. %s): the wait '
                      'does not return although the requested state is '
                      'reached' % (f.qual, what, short(cond, 120),
                                   ex[0] if ex else '', ex[1] if ex else '',
                                   len(stuck), sorted({x[0] for x in stuck})),
                      loc=f.loc(site),
                      history='%s.%s(state=%r) while the %s rests in %r: the '
                      'call returns only when the %s moves on (or at the '
                      'timeout)' % (cname, mname, ex[1][0] if ex else '', what,
                                    ex[0] if ex else '', what))
            ex = early[0] if early else None
            rep.check(not early, rid, f, '%s: a non-final %s that is before '
                      'every requested state stays on the check list'
                      % (f.qual, what),
                      construct='stops waiting although: not (%s)' % cond,
                      message='%s: a %s in state %s is dropped from the check '
                      'list although %s was requested and no requested state '
                      'was reached yet (%d such combinations): the wait '
                      'returns without waiting' % (
                          f.qual, what, ex[0] if ex else '',
                          ex[1] if ex else '', len(early)),
                      loc=f.loc(site),
                      history='%s.%s(state=%r) while the %s is in %r: returns '
                      'at once' % (cname, mname, ex[1][0] if ex else '', what,
                                   ex[0] if ex else ''))


# ------------------------------------------------------------------------------
#
def run(prog, rep, tier):
    rep.decided = ('for Task.wait, Pilot.wait, TaskManager.wait_tasks and '
        'PilotManager.wait_pilots: the requested-state variable reaching the '
        'polling loop is rps.FINAL / [state] / state for the three kinds of '
        'argument, and the loop depends on it; the polling loop has no '
        'infinite path once all awaited entities are final (whatever was '
        'requested) nor once a given timeout has expired (abstract '
        'interpretation with list emptiness, k=1 inner loops); every return '
        'returns a state read that is not older than the loop.')
    rep.undecided = ('"shortly after" (the poll period and scheduling of the '
        'waiting thread); that the state attribute is eventually updated '
        '(C05/C06/C14); the value comparison of wait_tasks for non-final '
        'requested states.')
    rep.assumptions = [
        'a final state never changes (C06 / C14), so a test `x.state in '
        'rps.FINAL` stays true for the rest of the wait',
        'the awaited entity is whatever `<expr>.state` the loop tests; a '
        'comparison with a collection that folds to a superset of rps.FINAL '
        'is a final-state test',
        'the parameters are named `state` and `timeout` (public API)',
        'a local list is empty after `= list()`/`[]`, after a comprehension '
        'whose filter requires a non-final state (under the all-final '
        'assumption) and on the false edge of a truth test; append/extend/+= '
        'make it unknown',
    ]
    r15_1(prog, rep)
    r15_2(prog, rep)
    r15_3(prog, rep)
    r15_4(prog, rep)


# ------------------------------------------------------------------------------
# self-test variants
#
_T  = 'task.py'
_P  = 'pilot.py'
_TM = 'task_manager.py'
_PM = 'pilot_manager.py'

# proposed fixes (see /verif/proposed_fixes/F01.diff, F02.diff)
FIX_F01 = (_T, "        if not isinstance(state, list):\n            states = [state]\n",
               "        elif not isinstance(state, list):\n            states = [state]\n")
FIX_F02_T = (_T, "        while self.state not in states:\n\n            time.sleep(0.1)\n",
                 "        while self.state not in states and \\\n              self.state not in rps.FINAL:\n\n            time.sleep(0.1)\n")
FIX_F02_P = (_P, "        while self.state not in states:\n\n            time.sleep(0.1)\n",
                 "        while self.state not in states and \\\n              self.state not in rps.FINAL:\n\n            time.sleep(0.1)\n")
FIX_F02_R = (_P, "            if self.state in states:\n                return\n",
                 "            if self.state in states:\n                return self.state\n")

_LOOP_OLD   = "        while self.state not in states:\n\n            time.sleep(0.1)\n"
_LOOP_FIXED = ("        while self.state not in states and \\\n"
               "              self.state not in rps.FINAL:\n\n            time.sleep(0.1)\n")

_CMP = "                    rps._task_state_values[task.state] < check_state_val:"

_P_NORM = ("        if   not state                  : states = rps.FINAL\n"
           "        elif not isinstance(state, list): states = [state]\n"
           "        else                            : states = state\n")

MUTATIONS = [
    dict(name='R15.1 Pilot.wait: elif becomes if (F01 in the pilot)',
         rules=('R15.1',), edits=[
        (_P, _P_NORM,
             "        if   not state                  : states = rps.FINAL\n"
             "        if   not isinstance(state, list): states = [state]\n"
             "        else                            : states = state\n")]),
    dict(name='R15.1 wait_tasks: default waits for DONE only',
         rules=('R15.1',), edits=[
        (_TM, "        if   not state                  : states = rps.FINAL\n",
              "        if   not state                  : states = [rps.DONE]\n")]),
    dict(name='R15.1 wait_pilots: list test inverted', rules=('R15.1',), edits=[
        (_PM, "        elif isinstance(state, list):\n            states = state\n",
              "        elif not isinstance(state, list):\n            states = state\n")]),
    dict(name='R15.1 wait_pilots: single state not wrapped in a list',
         rules=('R15.1',), edits=[
        (_PM, "        else:\n            states = [state]\n",
              "        else:\n            states = state\n")]),
    dict(name='R15.1 wait_pilots: loop ignores the requested states',
         rules=('R15.1',), edits=[
        (_PM, "                               if pilot.state not in states and\n                                  pilot.state not in rps.FINAL]",
              "                               if pilot.state not in rps.FINAL]")]),
    dict(name='R15.1 wait_tasks: default considered after the list test',
         rules=('R15.1',), edits=[
        (_TM, "        if   not state                  : states = rps.FINAL\n        elif not isinstance(state, list): states = [state]\n",
              "        if   not isinstance(state, list): states = [state]\n        elif not state                  : states = rps.FINAL\n")],
         note='None is not a list: [None] is chosen before the default is considered'),
    dict(name='R15.2 wait_tasks: final tasks are waited for like any other',
         rules=('R15.2',), edits=[
        (_TM, "                if task.state not in rps.FINAL and \\\n                    rps._task_state_values[task.state] < check_state_val:",
              "                if rps._task_state_values[task.state] < check_state_val:")]),
    dict(name='R15.2 wait_pilots: final pilots stay in the check list',
         rules=('R15.2',), edits=[
        (_PM, "                               if pilot.state not in states and\n                                  pilot.state not in rps.FINAL]",
              "                               if pilot.state not in states]")]),
    dict(name='R15.2 wait_pilots: final test inverted', rules=('R15.2',), edits=[
        (_PM, "                                  pilot.state not in rps.FINAL]",
              "                                  pilot.state in rps.FINAL]")]),
    dict(name='R15.1 F01 reverted: elif becomes if in Task.wait',
         rules=('R15.1',), edits=[
        (_T, "        elif not isinstance(state, list):\n            states = [state]\n",
             "        if not isinstance(state, list):\n            states = [state]\n")]),
    dict(name='R15.2 F02 reverted: Task.wait loop without the final-state escape',
         rules=('R15.2',), edits=[
        (_T, _LOOP_FIXED, _LOOP_OLD)]),
    dict(name='R15.2 F02 reverted: Pilot.wait loop without the final-state escape',
         rules=('R15.2',), edits=[
        (_P, _LOOP_FIXED, _LOOP_OLD)]),
    dict(name='R15.3 F02 reverted: Pilot.wait bare return',
         rules=('R15.3',), edits=[
        (_P, "            if self.state in states:\n                return self.state\n",
             "            if self.state in states:\n                return\n")]),
    dict(name='R15.2 Task.wait: escape with inverted polarity',
         rules=('R15.2',), edits=[
        (_T, _LOOP_FIXED, _LOOP_FIXED.replace("self.state not in rps.FINAL",
                                              "self.state in rps.FINAL"))]),
    dict(name='R15.2 Pilot.wait: escape only for FAILED pilots',
         rules=('R15.2',), edits=[
        (_P, _LOOP_FIXED, _LOOP_FIXED.replace("self.state not in rps.FINAL",
                                              "self.state not in [rps.FAILED]"))],
         note='a CANCELED pilot is still waited for'),
    dict(name='R15.2 Task.wait: escape joined with `or`',
         rules=('R15.2',), edits=[
        (_T, _LOOP_FIXED, _LOOP_FIXED.replace("states and", "states or "))],
         note='the loop continues while either test holds'),
    dict(name='R15.2 Task.wait: timeout test dropped', rules=('R15.2',), edits=[
        (_T, "            if timeout and (timeout <= (time.time() - start_wait)):\n                break\n\n            if self._tmgr._terminate.is_set():",
             "            if self._tmgr._terminate.is_set():")]),
    dict(name='R15.2 Pilot.wait: timeout comparison reversed',
         rules=('R15.2',), edits=[
        (_P, "            if timeout and (timeout <= (time.time() - start_wait)):",
             "            if timeout and (timeout >= (time.time() - start_wait)):")]),
    dict(name='R15.2 wait_pilots: timeout tested only when nothing is left',
         rules=('R15.2',), edits=[
        (_PM, "            if to_check:\n\n                if timeout and (timeout <= (time.time() - start)):",
              "            if not to_check:\n\n                if timeout and (timeout <= (time.time() - start)):")]),
    dict(name='R15.2 wait_tasks: timeout `break` became `continue`',
         rules=('R15.2',), edits=[
        (_TM, "                self._log.debug (\"wait timed out\")\n                break\n\n            time.sleep (0.1)\n\n            # FIXME: print percentage...",
              "                self._log.debug (\"wait timed out\")\n                continue\n\n            time.sleep (0.1)\n\n            # FIXME: print percentage...")]),
    dict(name='R15.3 Task.wait: early return without a value',
         rules=('R15.3',), edits=[
        (_T, "            if self.state in states:\n                return self.state\n",
             "            if self.state in states:\n                return\n")]),
    dict(name='R15.3 Task.wait: returns the requested state',
         rules=('R15.3',), edits=[
        (_T, "            if self._tmgr._terminate.is_set():\n                break\n\n        return self.state\n",
             "            if self._tmgr._terminate.is_set():\n                break\n\n        return state\n")]),
    dict(name='R15.3 wait_pilots: returns the stale `state` local',
         rules=('R15.3',), edits=[
        (_PM, "        if ret_list: return states\n        else       : return states[0]\n\n\n    # --------------------------------------------------------------------------\n    #\n    def _fail_missing_pilots(self):",
              "        if ret_list: return states\n        else       : return state\n\n\n    # --------------------------------------------------------------------------\n    #\n    def _fail_missing_pilots(self):")]),
    dict(name='R15.3 Pilot.wait: state sampled before the loop is returned',
         rules=('R15.3',), edits=[
        (_P, "        start_wait = time.time()\n        while self.state not in states and \\\n",
             "        current    = None\n        start_wait = time.time()\n        if timeout is None or timeout > 0:\n            current = self.state\n        while self.state not in states and \\\n"),
        (_P, "            if self._pmgr._terminate.is_set():\n                break\n\n        return self.state\n",
             "            if self._pmgr._terminate.is_set():\n                break\n\n        return current\n")]),
    dict(name='R15.4 wait_tasks: requested state itself keeps waiting (<=)',
         rules=('R15.4',), edits=[
        (_TM, _CMP, _CMP.replace("< check_state_val", "<= check_state_val"))]),
    dict(name='R15.4 wait_tasks: comparison reversed', rules=('R15.4',), edits=[
        (_TM, _CMP, _CMP.replace("< check_state_val", "> check_state_val"))]),
    dict(name='R15.4 wait_tasks: earliest requested value starts at 0',
         rules=('R15.4',), edits=[
        (_TM, "        check_state_val = rps._task_state_values[rps.FINAL[-1]]\n",
              "        check_state_val = 0\n")],
         note='min() never rises above 0: nothing is waited for'),
    dict(name='R15.4 wait_tasks: compares with the value after the requested one',
         rules=('R15.4',), edits=[
        (_TM, _CMP, _CMP.replace("< check_state_val", "< check_state_val + 1"))]),
    dict(name='R15.4 wait_pilots: pilots in a requested state stay on the list',
         rules=('R15.4',), edits=[
        (_PM, "                               if pilot.state not in states and\n",
              "                               if pilot.state in states and\n")]),
    dict(name='R15.1 normalisation helper returns [None] for the default',
         rules=('R15.1',), edits=[
        (_P, _P_NORM, "        states = self._wait_states(state)\n"),
        (_P, "    def wait(self, state=None, timeout=None):\n",
             "    @staticmethod\n    def _wait_states(state):\n\n"
             "        if not isinstance(state, list): return [state]\n"
             "        if not state                  : return rps.FINAL\n"
             "        return state\n\n\n"
             "    def wait(self, state=None, timeout=None):\n")]),
    dict(name='R15.4 pending predicate in a static helper uses <=',
         rules=('R15.4',), edits=[
        (_TM, "                if task.state not in rps.FINAL and \\\n" + _CMP,
              "                if self._wait_pending(task, check_state_val):"),
        (_TM, "    def wait_tasks(self, uids=None, state=None, timeout=None):\n",
              "    @staticmethod\n    def _wait_pending(task, check_state_val):\n\n"
              "        return task.state not in rps.FINAL and \\\n"
              "               rps._task_state_values[task.state] <= check_state_val\n\n\n"
              "    def wait_tasks(self, uids=None, state=None, timeout=None):\n")]),
    dict(name='R15.2 pending predicate in a static helper forgets the final test',
         rules=('R15.2',), edits=[
        (_TM, "                if task.state not in rps.FINAL and \\\n" + _CMP,
              "                if self._wait_pending(task, check_state_val):"),
        (_TM, "    def wait_tasks(self, uids=None, state=None, timeout=None):\n",
              "    @staticmethod\n    def _wait_pending(task, check_state_val):\n\n"
              "        return rps._task_state_values[task.state] < check_state_val\n\n\n"
              "    def wait_tasks(self, uids=None, state=None, timeout=None):\n")]),
    dict(name='R15.3 wait_pilots conditional return yields the stale local',
         rules=('R15.3',), edits=[
        (_PM, "        if ret_list: return states\n        else       : return states[0]\n\n\n    # --------------------------------------------------------------------------\n    #\n    def _fail_missing_pilots(self):",
              "        return states if ret_list else state\n\n\n    # --------------------------------------------------------------------------\n    #\n    def _fail_missing_pilots(self):")]),
]

SILENT = [
    dict(name='wait_tasks: value comparison mirrored', edits=[
        (_TM, _CMP, "                    check_state_val > rps._task_state_values[task.state]:")]),
    dict(name='wait_tasks: value comparison as negated >=', edits=[
        (_TM, _CMP, "                    not rps._task_state_values[task.state] >= check_state_val:")]),
    dict(name='wait_tasks: value through the accessor function', edits=[
        (_TM, _CMP, "                    rps._task_state_value(task.state) < check_state_val:")]),
    dict(name='wait_pilots: filter conditions swapped', edits=[
        (_PM, "                               if pilot.state not in states and\n                                  pilot.state not in rps.FINAL]",
              "                               if pilot.state not in rps.FINAL and\n                                  pilot.state not in states]")]),

    dict(name='final-state escape as an explicit break in the body', edits=[
        (_T, _LOOP_FIXED,
             "        while self.state not in states:\n\n            if self.state in rps.FINAL:\n                break\n\n            time.sleep(0.1)\n")]),
    dict(name='final-state escape tested first', edits=[
        (_P, _LOOP_FIXED,
             "        while self.state not in rps.FINAL and \\\n              self.state not in states:\n\n            time.sleep(0.1)\n")]),
    dict(name='Pilot.wait normalisation as nested if / else', edits=[
        (_P, _P_NORM,
             "        if not state:\n            states = rps.FINAL\n        else:\n"
             "            if isinstance(state, list):\n                states = state\n"
             "            else:\n                states = [state]\n")]),
    dict(name='Pilot.wait as `while True` with breaks', edits=[
        (_P, _LOOP_FIXED + "            if timeout and (timeout <= (time.time() - start_wait)):\n                break\n",
             "        while True:\n\n            current = self.state\n            if current in states:\n                break\n            if current in rps.FINAL:\n                break\n\n            time.sleep(0.1)\n            if timeout and (time.time() - start_wait >= timeout):\n                break\n")]),
    dict(name='wait_tasks: final test in early-continue form', edits=[
        (_TM, "                if task.state not in rps.FINAL and \\\n                    rps._task_state_values[task.state] < check_state_val:",
              "                if task.state in rps.FINAL:\n                    self._rep.progress()\n                    continue\n\n                if rps._task_state_values[task.state] < check_state_val:")]),
    dict(name='wait_tasks: normalisation via ru.as_list', edits=[
        (_TM, "        elif not isinstance(state, list): states = [state]\n        else                            : states =  state\n",
              "        else                            : states = ru.as_list(state)\n")]),
    dict(name='wait_pilots: elapsed time in a local, timeout on the right',
         edits=[
        (_PM, "                if timeout and (timeout <= (time.time() - start)):",
              "                elapsed = time.time() - start\n                if timeout and elapsed >= timeout:")]),
    dict(name='wait_pilots: filter as a loop with append', edits=[
        (_PM, "            to_check = [pilot for pilot in to_check\n                               if pilot.state not in states and\n                                  pilot.state not in rps.FINAL]\n",
              "            remaining = list()\n            for pilot in to_check:\n                if pilot.state in rps.FINAL:\n                    continue\n                if pilot.state not in states:\n                    remaining.append(pilot)\n            to_check = remaining\n")]),
    dict(name='Task.wait: result through a local after the loop', edits=[
        (_T, "            if self._tmgr._terminate.is_set():\n                break\n\n        return self.state\n",
             "            if self._tmgr._terminate.is_set():\n                break\n\n        ret = self.state\n        return ret\n")]),
    dict(name='corpus r1: normalisation in a static helper with early returns', edits=[
        (_P, _P_NORM, "        states = self._wait_states(state)\n"),
        (_P, "    def wait(self, state=None, timeout=None):\n",
             "    @staticmethod\n    def _wait_states(state):\n\n"
             "        if not state                  : return rps.FINAL\n"
             "        if not isinstance(state, list): return [state]\n"
             "        return state\n\n\n"
             "    def wait(self, state=None, timeout=None):\n"),
        (_P, "            if self.state in states:\n                return self.state\n\n", "")]),
    dict(name='corpus r2: pending test in a static predicate, minimum by min([..] + [..])', edits=[
        (_TM, "        check_state_val = rps._task_state_values[rps.FINAL[-1]]\n        for state in states:\n            check_state_val = min(check_state_val,\n                                  rps._task_state_values[state])\n",
              "        check_state_val = min([rps._task_state_values[rps.FINAL[-1]]] +\n                              [rps._task_state_values[s] for s in states])\n"),
        (_TM, "                if task.state not in rps.FINAL and \\\n" + _CMP,
              "                if self._wait_pending(task, check_state_val):"),
        (_TM, "    def wait_tasks(self, uids=None, state=None, timeout=None):\n",
              "    @staticmethod\n    def _wait_pending(task, check_state_val):\n\n"
              "        return task.state not in rps.FINAL and \\\n"
              "               rps._task_state_values[task.state] < check_state_val\n\n\n"
              "    def wait_tasks(self, uids=None, state=None, timeout=None):\n")]),
    dict(name='corpus r3: wait_pilots returns through a conditional expression', edits=[
        (_PM, "        if ret_list: return states\n        else       : return states[0]\n\n\n    # --------------------------------------------------------------------------\n    #\n    def _fail_missing_pilots(self):",
              "        return states if ret_list else states[0]\n\n\n    # --------------------------------------------------------------------------\n    #\n    def _fail_missing_pilots(self):")]),
]
