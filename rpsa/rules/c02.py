"""C02  A granted placement has exactly the requested shape  (DESIGN 5 / C02)"""

import ast

from ..model import (walk, dotted, call_name, kwarg, unparse, short, UNKNOWN,
                     root_name, AnalysisError, calls_in, stores_in_target)
from ..cfg import cfg_of
from ..flow import Deps, guards, must_pass, loop_slice
from .. import idioms as I
from .c01 import (sched_classes, find_resources_info, pick_sites, BASE, CONT,
                  JSRUN, _ancestors)


def _len_of(e):
    """len(X) -> unparse(X) else None"""
    if isinstance(e, ast.Call) and dotted(e.func) == 'len' and e.args:
        return unparse(e.args[0])
    return None


def count_tests(g, counted):
    """test nodes comparing a count expression with a bound.  `counted`: set
    of strings - either 'len:<expr>' or a plain name.  Returns
    [(node, reached_label)] where reached_label is the out-edge taken when the
    count has reached the bound."""
    out = []
    for n in g.nodes:
        if n.kind != 'test' or not isinstance(n.ast, ast.Compare) or \
                len(n.ast.ops) != 1:
            continue
        l, r, op = n.ast.left, n.ast.comparators[0], n.ast.ops[0]

        def key(e):
            le = _len_of(e)
            if le is not None:
                return 'len:' + le
            if isinstance(e, ast.Name):
                return e.id
            return None
        kl, kr = key(l), key(r)
        if kl in counted and kr not in counted:
            # count OP bound
            lab = {ast.Lt: 'F', ast.GtE: 'T', ast.Eq: 'T', ast.NotEq: 'F'}
        elif kr in counted and kl not in counted:
            # bound OP count
            lab = {ast.Gt: 'F', ast.LtE: 'T', ast.Eq: 'T', ast.NotEq: 'F'}
        else:
            continue
        for t, v in lab.items():
            if isinstance(op, t):
                out.append((n, v))
                break
        else:
            out.append((n, None))          # wrong operator for a count test
    return out


# ------------------------------------------------------------------------------
# R02.1  count discipline of the per-node search
#
def r02_1(prog, rep, rid='R02.1'):
    rep.rule(rid, 'a slot is appended only when it holds the requested number '
             'of cores/gpus; pick loops stop at equality; fewer than n_slots '
             'slots are returned only when partial', minimum=16)
    base, classes = sched_classes(prog)
    for K in classes:
        f, g, d, nodevar, res, appends = find_resources_info(prog, K)
        rep.saw(f)
        picks = pick_sites(prog, f, g, d, None)
        A = [a.id for a in appends]
        for P, call, kind in picks:
            recv = unparse(call.func.value)
            rroot = root_name(call.func.value)
            counted = {'len:' + recv}
            cts = count_tests(g, counted)
            # creation of a fresh receiver (new slot)
            creators = set()
            for n in g.stmt_nodes():
                if n.kind == 'stmt' and isinstance(n.ast, ast.Assign) and any(
                        isinstance(t, ast.Name) and t.id == rroot
                        for t in n.ast.targets):
                    creators.add(n.id)
            if not cts:
                raise AnalysisError('UNRECOGNISED-IDIOM %s: no count test on '
                                    'len(%s) found' % (f.where, recv))
            bad_op = [n for n, lab in cts if lab is None]
            for n in bad_op:
                rep.bad(rid, f, n.ast, '%s: the count of picked %s is compared '
                        'with an operator that does not separate "reached" '
                        'from "short": `%s`' % (K.name, kind, short(n.ast, 60)),
                        f.loc(n.ast),
                        history='a rank is granted fewer (or more) %s than '
                        'requested' % kind)
            reached = [(n.id, lab) for n, lab in cts if lab]
            # (a) from the pick to the append of the slot, a "reached" edge
            #     must be taken
            ra = set()
            for e in g.succ[P.id]:
                if e.label != 'exc':
                    ra |= g.reachable(e.dst, skip_nodes=creators,
                                      skip_edges=reached)
            oka = not (set(A) & ra)
            rep.check(oka, rid, f,
                      '%s: after picking into %s the slot is appended only '
                      'past a "count reached" test' % (K.name, recv),
                      construct='%s:%s:append-short' % (K.name, recv),
                      message='%s: a slot can be appended although len(%s) has '
                      'not reached the requested number: a path from the pick '
                      'to %s.append avoids every count test' % (K.name, recv,
                                                                res),
                      loc=f.loc(call),
                      history='node with 1 free core, request of 2 cores per '
                      'rank: the rank is granted a slot with 1 core')
            # (a') all count tests met between this pick and the append of
            #      its slot compare with the same bound expression
            seen = set()
            for e in g.succ[P.id]:
                if e.label != 'exc':
                    seen |= g.reachable(e.dst, skip_nodes=creators | set(A))
            bounds = {}
            for n, lab in cts:
                if n.id in seen:
                    c = n.ast
                    b = c.comparators[0] if _len_of(c.left) else c.left
                    bounds.setdefault(unparse(b), n)
            rep.check(len(bounds) <= 1, rid, f,
                      '%s: the count tests on len(%s) use one bound (%s)'
                      % (K.name, recv, ', '.join(sorted(bounds)) or '-'),
                      construct='%s:%s:bounds' % (K.name, recv),
                      message='%s: the count of picked %s is compared with '
                      'different bounds (%s): the stop test and the "short" '
                      'test disagree about the requested number'
                      % (K.name, kind, ', '.join(sorted(bounds))),
                      loc=f.loc(call),
                      history='request of 2 cores per rank on a node with 1 '
                      'free core: the rank is granted a slot with 1 core')
            # (b) from a pick back to the same pick (same receiver object) a
            #     count test is evaluated, and its "reached" edge leaves the
            #     pick loop
            tests = {n.id for n, lab in cts}
            rb = set()
            for e in g.succ[P.id]:
                if e.label != 'exc':
                    rb |= g.reachable(e.dst, skip_nodes=creators | tests)
            okb = P.id not in rb
            if okb:
                for nid, lab in reached:
                    for e in g.succ[nid]:
                        if e.label == lab:
                            if P.id in g.reachable(e.dst, skip_nodes=creators):
                                okb = False
            rep.check(okb, rid, f,
                      '%s: picking into %s stops when the requested number is '
                      'reached' % (K.name, recv),
                      construct='%s:%s:pick-more' % (K.name, recv),
                      message='%s: picking into %s can continue after the '
                      'requested number is reached (no count test between two '
                      'picks, or its "reached" edge leads back to the pick)'
                      % (K.name, recv), loc=f.loc(call),
                      history='request of 1 core per rank on a node with 4 '
                      'free cores: the rank is granted all 4')
        # (c) fewer than n_slots only when partial
        rets = [n for n in g.stmt_nodes() if n.kind == 'stmt' and
                isinstance(n.ast, ast.Return) and isinstance(n.ast.value,
                                                             ast.Name)
                and n.ast.value.id == res]
        if not rets:
            raise AnalysisError('UNRECOGNISED-IDIOM %s: no `return %s`'
                                % (f.where, res))
        if 'partial' not in f.params or 'n_slots' not in f.params:
            raise AnalysisError('UNRECOGNISED-IDIOM %s: parameters partial / '
                                'n_slots missing' % f.where)
        # bound names: len(res) and the range() bound of a for loop around the
        # append
        counted = {'len:' + res}
        for a in appends:
            for h in a.loops:
                hn = g.nodes[h]
                if hn.kind == 'for' and isinstance(hn.ast.iter, ast.Call) and \
                        dotted(hn.ast.iter.func) == 'range':
                    for x in hn.ast.iter.args:
                        if isinstance(x, ast.Name):
                            counted.add(x.id)
        cts = [(n, lab) for n, lab in count_tests(g, counted)
               if 'n_slots' in d.reads(n.ast)]
        reached = [(n.id, lab) for n, lab in cts if lab]
        # assume partial is false: prune the T edges of atom `partial`
        ptrue = [(n.id, 'T') for n in g.nodes if n.kind == 'test' and
                 isinstance(n.ast, ast.Name) and n.ast.id == 'partial']
        r = g.reachable(g.entry.id, skip_edges=reached + ptrue)
        okc = bool(reached) and not any(x.id in r for x in rets)
        rep.check(okc, rid, f,
                  '%s: with partial=False the slot list is returned only past '
                  'a test that n_slots were found' % K.name,
                  construct='%s:short-return' % K.name,
                  message='%s._find_resources can return fewer than n_slots '
                  'slots although partial is false' % K.name, loc=f.loc(),
                  history='non-MPI task with 2 ranks on a node with 1 free '
                  'core: placed with a single rank')
        rep.stat('cfg_nodes', len(g.nodes))


# ------------------------------------------------------------------------------
# R02.2  paired bookkeeping in schedule_task
#
def sched_info(prog, K):
    f = prog.find_method(K, 'schedule_task')
    if f is None:
        raise AnalysisError('%s.schedule_task missing' % K.name)
    g = cfg_of(f)
    smap = I.stmt_node_map(g)
    # rem -= len(X) ; alc.extend(X)
    rem = alc = X = None
    dec = ext = None
    for n in walk(f.node):
        if isinstance(n, ast.AugAssign) and isinstance(n.op, ast.Sub) and \
                isinstance(n.target, ast.Name) and _len_of(n.value):
            rem, X, dec = n.target.id, _len_of(n.value), n
    if rem is None:
        raise AnalysisError('UNRECOGNISED-IDIOM %s: no `rem -= len(found)`'
                            % f.where)
    for c in calls_in(f.node):
        if isinstance(c.func, ast.Attribute) and c.func.attr == 'extend' and \
                c.args and unparse(c.args[0]) == X and \
                isinstance(c.func.value, ast.Name):
            alc, ext = c.func.value.id, c
    find_call = None
    for c in calls_in(f.node):
        if call_name(c) == 'self._find_resources':
            find_call = c
    if find_call is None:
        raise AnalysisError('UNRECOGNISED-IDIOM %s: no call of '
                            'self._find_resources' % f.where)
    return f, g, smap, rem, alc, X, dec, ext, find_call


def r02_2(prog, rep, rid='R02.2'):
    rep.rule(rid, 'schedule_task: remaining count and collected slots are '
             'updated together from the same list; the continuity reset resets '
             'both; the result is returned only when nothing remains',
             minimum=6)
    base, classes = sched_classes(prog)
    for K in classes:
        f, g, smap, rem, alc, X, dec, ext, find_call = sched_info(prog, K)
        rep.saw(f)
        if alc is None:
            rep.bad(rid, f, dec, '%s: `%s -= len(%s)` has no matching '
                    '`.extend(%s)`: found slots are counted but not collected'
                    % (K.name, rem, X, X), f.loc(dec))
            continue
        nd, ne = smap[id(dec)], smap[id(ext)]
        same = set(guards(g, nd.id)) == set(guards(g, ne.id)) and \
            nd.loops == ne.loops
        rep.check(same, rid, f, '%s: `%s -= len(%s)` and `%s.extend(%s)` are '
                  'executed together' % (K.name, rem, X, alc, X),
                  construct='%s:paired-update' % K.name,
                  message='%s: the remaining-count decrement and the '
                  'collection of the found slots are not under the same '
                  'conditions: the count and the list diverge' % K.name,
                  loc=f.loc(dec),
                  history='3-rank task over two nodes: the placement returned '
                  'has a different number of slots than ranks')
        # X is the result of the search on this node
        src = None
        for n in walk(f.node):
            if isinstance(n, ast.Assign) and n.value is find_call and \
                    isinstance(n.targets[0], ast.Name):
                src = n.targets[0].id
        rep.check(src == X, rid, f, '%s: the list counted and collected is the '
                  'result of _find_resources' % K.name,
                  construct='%s:collected-is-found' % K.name,
                  message='%s: what is collected (%s) is not the result of the '
                  'per-node search (%s)' % (K.name, X, src), loc=f.loc(dec))
        # resets inside the node loop: both or none, same guards
        loop = nd.loops[-1] if nd.loops else None
        if loop is None:
            raise AnalysisError('UNRECOGNISED-IDIOM %s: bookkeeping not in a '
                                'loop' % f.where)
        body = g.loop_body[loop]
        ra = [n for n in g.stmt_nodes() if n.id in body and n.kind == 'stmt'
              and isinstance(n.ast, ast.Assign) and any(
                  isinstance(t, ast.Name) and t.id == alc
                  for t in n.ast.targets)]
        rr = [n for n in g.stmt_nodes() if n.id in body and n.kind == 'stmt'
              and isinstance(n.ast, ast.Assign) and any(
                  isinstance(t, ast.Name) and t.id == rem
                  for t in n.ast.targets)]
        ga = sorted(tuple(sorted(guards(g, n.id))) for n in ra)
        gr = sorted(tuple(sorted(guards(g, n.id))) for n in rr)
        rep.check(ga == gr, rid, f, '%s: the continuity reset re-initialises '
                  '%s and %s together' % (K.name, alc, rem),
                  construct='%s:paired-reset' % K.name,
                  message='%s: inside the node loop %s is reset %d time(s) and '
                  '%s %d time(s) under different conditions: after a broken '
                  'continuity the count and the list diverge'
                  % (K.name, alc, len(ra), rem, len(rr)), loc=f.loc(dec),
                  history='non-scattered 4-rank task, second node is full: '
                  'slots of the first node stay in the list although the '
                  'remaining count is reset (or vice versa)')
        # the reset value of rem is the request
        init = [n for n in g.stmt_nodes() if n.kind == 'stmt' and
                isinstance(n.ast, ast.Assign) and any(
                    isinstance(t, ast.Name) and t.id == rem
                    for t in n.ast.targets)]
        vals = {unparse(n.ast.value) for n in init}
        rep.check(len(vals) == 1, rid, f, '%s: %s is always (re)initialised to '
                  'the same request value %s' % (K.name, rem, sorted(vals)),
                  construct='%s:reset-value' % K.name,
                  message='%s: %s is initialised from different values %s'
                  % (K.name, rem, sorted(vals)), loc=f.loc(dec))
        # success return
        rets = [n for n in g.stmt_nodes() if n.kind == 'stmt' and
                isinstance(n.ast, ast.Return) and n.ast.value is not None and
                alc in {x.id for x in walk(n.ast.value)
                        if isinstance(x, ast.Name)}]
        if not rets:
            raise AnalysisError('UNRECOGNISED-IDIOM %s: `return %s, ..` not '
                                'found' % (f.where, alc))
        done = []
        for n in g.nodes:
            if n.kind == 'test' and isinstance(n.ast, ast.Compare) and \
                    isinstance(n.ast.left, ast.Name) and n.ast.left.id == rem \
                    and len(n.ast.ops) == 1 and \
                    isinstance(n.ast.comparators[0], ast.Constant) and \
                    n.ast.comparators[0].value == 0:
                op = n.ast.ops[0]
                lab = {ast.Gt: 'F', ast.Eq: 'T', ast.LtE: 'T', ast.NotEq: 'F',
                       ast.Lt: None, ast.GtE: None}[type(op)]
                if lab:
                    done.append((n.id, lab))
            elif n.kind == 'test' and isinstance(n.ast, ast.Name) and \
                    n.ast.id == rem:
                done.append((n.id, 'F'))
        for r in rets:
            # only tests evaluated after the loop count
            after = [(t, lab) for t, lab in done
                     if g.nodes[t].loops == r.loops]
            ok = bool(after) and r.id not in g.reachable(
                g.entry.id, skip_edges=after)
            rep.check(ok, rid, f, '%s: `%s` is reached only when %s is zero'
                      % (K.name, short(r.ast, 40), rem),
                      construct='%s:complete-return' % K.name,
                      message='%s.schedule_task can return a placement while '
                      '%s > 0: the task is granted fewer ranks than requested'
                      % (K.name, rem), loc=f.loc(r.ast),
                      history='4-rank task, pilot has room for 3 ranks: the '
                      'task starts with 3 slots')


# ------------------------------------------------------------------------------
# R02.4 / R02.7  what is searched for is what was requested
#
REQ = {'cores_per_slot': 'cores_per_rank', 'gpus_per_slot': 'gpus_per_rank',
       'lfs_per_slot': 'lfs_per_rank', 'mem_per_slot': 'mem_per_rank'}


def r02_4(prog, rep):
    rep.rule('R02.4', 'the number of slots searched per node is bounded by '
             "td['ranks_per_node']", minimum=2)
    rep.rule('R02.7', 'each per-slot argument of the search derives from the '
             'matching per-rank attribute of the description, the rank count '
             "from td['ranks']; the slot records the per-slot lfs/mem and the "
             "node's own name/index", minimum=18)
    base, classes = sched_classes(prog)
    for K in classes:
        f, g, smap, rem, alc, X, dec, ext, find_call = sched_info(prog, K)
        d = Deps(f.node)
        tdv = None
        for n in walk(f.node):
            if isinstance(n, ast.Assign) and unparse(n.value) == \
                    "task['description']" and isinstance(n.targets[0],
                                                         ast.Name):
                tdv = n.targets[0].id
        if tdv is None:
            raise AnalysisError("UNRECOGNISED-IDIOM %s: no td = "
                                "task['description']" % f.where)
        for kw, attr in sorted(REQ.items()):
            a = kwarg(find_call, kw)
            if a is None:
                raise AnalysisError('UNRECOGNISED-IDIOM %s: _find_resources is '
                                    'not called with keyword %s' % (f.where,
                                                                    kw))
            dep = d.expr_depends(a)
            want = "%s[%r]" % (tdv, attr)
            others = {"%s[%r]" % (tdv, o) for o in REQ.values() if o != attr}
            # jsrun multiplies per-slot needs by ranks_per_slot which derives
            # from gpus_per_rank: tolerated (other kinds may appear); the
            # matching attribute must be there
            rep.check(want in dep, 'R02.7', f,
                      "%s: search argument %s derives from %s" % (K.name, kw,
                                                                  want),
                      construct='%s:%s' % (K.name, kw),
                      message="%s: the search argument %s does not derive from "
                      "%s: ranks are granted a different amount than requested"
                      % (K.name, kw, want), loc=f.loc(find_call),
                      history='task with lfs_per_rank=10, mem_per_rank=0: the '
                      'slot carries mem=10, lfs=0')
        dep = d.expr_depends(ast.Name(id=rem, ctx=ast.Load()))
        rep.check("%s['ranks']" % tdv in dep, 'R02.7', f,
                  "%s: the number of slots to find derives from td['ranks']"
                  % K.name, construct='%s:ranks' % K.name,
                  message="%s: the remaining-slot counter does not derive from "
                  "td['ranks']" % K.name, loc=f.loc(dec))
        a = kwarg(find_call, 'n_slots')
        dep = d.expr_depends(a) if a is not None else set()
        has = "%s['ranks_per_node']" % tdv in dep
        rep.check(has, 'R02.4', f, "%s: n_slots passed to the per-node search "
                  "depends on td['ranks_per_node']" % K.name,
                  construct='%s:ranks_per_node' % K.name,
                  message="%s.schedule_task never bounds the slots searched "
                  "per node by td['ranks_per_node']: the limit is ignored"
                  % K.name, loc=f.loc(find_call),
                  history='task with ranks=4, ranks_per_node=1 on nodes with '
                  '4 free cores: all 4 ranks are placed on one node')
        # the slot dict
        ff, fg, fd, nodevar, res, appends = find_resources_info(prog, K)
        dd = None
        for n in walk(ff.node):
            if isinstance(n, ast.Dict):
                keys = [k.value for k in n.keys if isinstance(k, ast.Constant)]
                if 'node_index' in keys and 'cores' in keys:
                    dd = n
        if dd is None:
            raise AnalysisError('UNRECOGNISED-IDIOM %s: slot dict literal not '
                                'found' % ff.where)
        want = {'node_name': "%s['name']" % nodevar,
                'node_index': "%s['index']" % nodevar,
                'lfs': 'lfs_per_slot', 'mem': 'mem_per_slot'}
        for k, v in zip(dd.keys, dd.values):
            if isinstance(k, ast.Constant) and k.value in want:
                dep = fd.expr_depends(v)
                others = {w for kk, w in want.items() if kk != k.value}
                ok = want[k.value] in dep and not (others & dep)
                rep.check(ok, 'R02.7', ff, "%s: slot[%r] is fed by %s"
                          % (K.name, k.value, want[k.value]),
                          construct='%s:slot:%s' % (K.name, k.value),
                          message="%s: slot[%r] is not fed by %s (depends on "
                          "%s)" % (K.name, k.value, want[k.value],
                                   sorted(x for x in dep if x in
                                          set(want.values()))),
                          loc=ff.loc(dd),
                          history='the placement names a different node or a '
                          'different lfs/mem amount than the one searched')


# ------------------------------------------------------------------------------
# R02.5  colocate
#
def r02_5(prog, rep, rid='R02.5'):
    rep.rule(rid, 'a task whose colocate tag is in the history is searched '
             'only on nodes recorded for the tag; the history is written only '
             'after a complete placement', minimum=4)
    base, classes = sched_classes(prog)
    for K in classes:
        f, g, smap, rem, alc, X, dec, ext, find_call = sched_info(prog, K)
        d = Deps(f.node)
        F = smap[id(find_call)]
        known, member = [], []
        for n in g.nodes:
            if n.kind != 'test' or not isinstance(n.ast, ast.Compare) or \
                    len(n.ast.ops) != 1:
                continue
            op, l, r = n.ast.ops[0], n.ast.left, n.ast.comparators[0]
            if isinstance(op, (ast.In, ast.NotIn)) and \
                    unparse(r) == 'self._colo_history' and n.loops == F.loops:
                known.append((n, 'T' if isinstance(op, ast.In) else 'F'))
            if isinstance(op, (ast.In, ast.NotIn)) and \
                    unparse(r).startswith('self._colo_history[') and \
                    n.loops == F.loops:
                member.append((n, 'T' if isinstance(op, ast.In) else 'F',
                               unparse(l)))
        if not known or not member:
            raise AnalysisError('UNRECOGNISED-IDIOM %s: colocate history tests '
                                'not found in the node loop' % f.where)
        for kn, klab in known:
            starts = [e.dst for e in g.succ[kn.id] if e.label == klab]
            allowed = [(m.id, lab) for m, lab, _ in member]
            r = set()
            for s in starts:
                r |= g.reachable(s, skip_edges=allowed, no_back=True)
            rep.check(F.id not in r, rid, f,
                      '%s: with the tag in the history the node is searched '
                      'only if its index is recorded for the tag' % K.name,
                      construct='%s:colo-skip' % K.name,
                      message='%s: a node not recorded for a known colocate '
                      'tag can reach the per-node search (membership test '
                      'missing or with the wrong polarity)' % K.name,
                      loc=f.loc(kn.ast),
                      history='task 1 with colocate tag t runs on node 3; '
                      'task 2 with tag t is placed on node 0')
        for m, lab, left in member:
            nodevars = set()
            for h in F.loops:
                if g.nodes[h].kind == 'for':
                    nodevars |= set(stores_in_target(g.nodes[h].ast.target))
            dep = d.expr_depends(m.ast.left)
            idx_ok = any("%s['index']" % v in dep or v in dep
                         for v in nodevars)
            rep.check(idx_ok, rid, f, '%s: the membership test is on the '
                      "node's index" % K.name, construct='%s:colo-index'
                      % K.name, message='%s: the colocate membership test `%s` '
                      'does not test the index of the node under '
                      'consideration' % (K.name, short(m.ast, 60)),
                      loc=f.loc(m.ast))
        # history writes that record the allocation
        for kind, target, stmt in I.stores(f.node):
            if kind != 'assign' or not unparse(target).startswith(
                    'self._colo_history['):
                continue
            if alc not in d.expr_depends(stmt.value):
                continue
            n = smap[id(stmt)]
            gs = guards(g, n.id)
            okw = False
            for tid, lab in gs:
                a = g.nodes[tid].ast
                if isinstance(a, ast.Compare) and isinstance(a.left, ast.Name) \
                        and a.left.id == rem and len(a.ops) == 1:
                    op = a.ops[0]
                    if (isinstance(op, ast.Gt) and lab == 'F') or \
                            (isinstance(op, (ast.Eq, ast.LtE)) and lab == 'T'):
                        okw = True
            rep.check(okw, rid, f, '%s: the tag history is recorded only after '
                      'the placement is complete' % K.name, construct=stmt,
                      message='%s: the colocate history is written from a '
                      'placement that may be incomplete (not guarded by '
                      '%s == 0)' % (K.name, rem), loc=f.loc(stmt),
                      history='a tagged task that does not fit records the '
                      'nodes of its partial search; the next task with the '
                      'tag is pinned to them')


# ------------------------------------------------------------------------------
#
def run(prog, rep, tier):
    rep.decided = ('per-node search: a slot is appended only past a "count '
        'reached" test for every kind it picks, picking stops at the '
        'requested number, a short list is returned only when partial; '
        'schedule_task: remaining count and collected slots are updated and '
        'reset together, the result is returned only when nothing remains; '
        'per-slot search arguments derive from the matching per-rank '
        'attributes, n_slots from ranks_per_node; the slot records the '
        "node's own name/index and the per-slot lfs/mem; colocate membership "
        'guard and history writes.')
    rep.undecided = ('that the indices chosen are the right ones for every '
        'occupancy; numeric adequacy of slots_per_node; R02.3 (the four '
        'per-node asserts) is information only - removing one does not yield '
        'a smaller placement.')
    rep.assumptions = [
        'scope: Continuous and ContinuousJsrun (and what they inherit)',
        'the per-slot receiver lists are fresh per slot (creation by '
        'assignment to the receiver root is recognised)',
    ]
    rep.attempt(r02_1, prog, rep)
    rep.attempt(r02_2, prog, rep)
    rep.attempt(r02_4, prog, rep)
    rep.attempt(r02_5, prog, rep)
    from .c01 import r02_8
    rep.attempt(r02_8, prog, rep)
    # R02.3 information
    for K in sched_classes(prog)[1]:
        f = prog.find_method(K, 'schedule_task')
        n = sum(1 for a in walk(f.node) if isinstance(a, ast.Assert))
        rep.info('R02.3', f, '%d per-node limit asserts (information only)' % n)


# ------------------------------------------------------------------------------
_C = 'agent/scheduler/continuous.py'
_J = 'agent/scheduler/continuous_jsrun.py'

MUTATIONS = [
    dict(name='R02.1 short-cores test off by one', rules=('R02.1',), edits=[
        (_C, "            if len(slot['cores']) < cores_per_slot:\n                self._log.debug_9('not enough cores on %s', node_name)\n                break\n",
             "            if len(slot['cores']) < cores_per_slot - 1:\n                self._log.debug_9('not enough cores on %s', node_name)\n                break\n")],
         note='bound expression changed: count test no longer against the bound alone'),
    dict(name='R02.1 short-cores test dropped', rules=('R02.1',), edits=[
        (_C, "            if len(slot['cores']) < cores_per_slot:\n                self._log.debug_9('not enough cores on %s', node_name)\n                break\n", "")]),
    dict(name='R02.1 short-gpus test only logs', rules=('R02.1',), edits=[
        (_C, "                    self._log.debug_9('not enough gpus on %s (1)', node_name)\n                    break\n",
             "                    self._log.debug_9('not enough gpus on %s (1)', node_name)\n")]),
    dict(name='R02.1 core picking does not stop at the count', rules=('R02.1',), edits=[
        (_C, "                if len(slot['cores']) == cores_per_slot:\n                    break\n", "")]),
    dict(name='R02.1 core picking stop test uses >', rules=('R02.1',), edits=[
        (_C, "                if len(slot['cores']) == cores_per_slot:\n                    break\n", "                if len(slot['cores']) > cores_per_slot:\n                    break\n")]),
    dict(name='R02.1 short list returned when not partial', rules=('R02.1',), edits=[
        (_C, "        if not partial and len(slots) < n_slots:\n            return None\n", "")]),
    dict(name='R02.1 partial polarity flipped', rules=('R02.1',), edits=[
        (_C, "        if not partial and len(slots) < n_slots:", "        if partial and len(slots) < n_slots:")]),
    dict(name='R02.1 jsrun: not-partial test dropped', rules=('R02.1',), edits=[
        (_J, "        if not partial:\n            if alc_slots < n_slots:\n                return None\n", "")]),
    dict(name='R02.1 jsrun: core loop bound uses <=', rules=('R02.1',), edits=[
        (_J, "            while len(cores) < cores_per_slot:", "            while len(cores) <= cores_per_slot:")],
         note='<= as a count-vs-bound operator: reached label unknown'),
    dict(name='R02.2 found slots counted but not collected on last node', rules=('R02.2',), edits=[
        (_C, "            rem_slots -= len(new_slots)\n            alc_slots.extend(new_slots)\n", "            rem_slots -= len(new_slots)\n            if not is_last:\n                alc_slots.extend(new_slots)\n")]),
    dict(name='R02.2 continuity reset forgets the count', rules=('R02.2',), edits=[
        (_C, "                    alc_slots = list()\n                    rem_slots = req_slots\n", "                    alc_slots = list()\n")]),
    dict(name='R02.2 continuity reset forgets the list', rules=('R02.2',), edits=[
        (_J, "                    alc_slots = list()\n                    rem_slots = req_slots\n", "                    rem_slots = req_slots\n")]),
    dict(name='R02.2 incomplete placement returned', rules=('R02.2',), edits=[
        (_C, "        if  rem_slots > 0:\n            return None, None  # signal failure\n", "")]),
    dict(name='R02.2 failure test reversed', rules=('R02.2',), edits=[
        (_C, "        if  rem_slots > 0:", "        if  rem_slots < 0:")]),
    dict(name='R02.4 ranks_per_node ignored', rules=('R02.4',), edits=[
        (_C, "        if ranks_per_node:\n            slots_per_node = min(slots_per_node, ranks_per_node)\n", "")]),
    dict(name='R02.4 jsrun ranks_per_node ignored (fix reverted)', rules=('R02.4',), edits=[
        (_J, "        if ranks_per_node:\n            # a slot hosts `ranks_per_slot` ranks\n            slots_per_node = min(slots_per_node,\n                                 ranks_per_node // ranks_per_slot)\n", "")]),
    dict(name='R02.7 lfs and mem arguments swapped', rules=('R02.7',), edits=[
        (_C, "                                             lfs_per_slot   = lfs_per_slot,\n                                             mem_per_slot   = mem_per_slot,",
             "                                             lfs_per_slot   = mem_per_slot,\n                                             mem_per_slot   = lfs_per_slot,")]),
    dict(name='R02.7 gpus read from cores_per_rank', rules=('R02.7',), edits=[
        (_C, "        gpus_per_slot  = td['gpus_per_rank']", "        gpus_per_slot  = td['cores_per_rank']")]),
    dict(name='R02.7 slot records mem as lfs', rules=('R02.7',), edits=[
        (_C, "                     'lfs'       : lfs_per_slot,\n                     'mem'       : mem_per_slot}", "                     'lfs'       : mem_per_slot,\n                     'mem'       : mem_per_slot}")]),
    dict(name='R02.7 jsrun slot names the wrong node', rules=('R02.7',), edits=[
        (_J, "        node_index = node['index']\n        node_name  = node['name']\n\n        core_idx   = 0", "        node_index = 0\n        node_name  = node['name']\n\n        core_idx   = 0")]),
    dict(name='R02.5 colocate membership polarity flipped', rules=('R02.5',), edits=[
        (_C, "                    if node_index not in self._colo_history[colo_tag]:", "                    if node_index in self._colo_history[colo_tag]:")]),
    dict(name='R02.5 colocate skip only logs', rules=('R02.5',), edits=[
        (_J, "                    if node_index not in self._colo_history[colo_tag]:\n                        continue\n", "                    if node_index not in self._colo_history[colo_tag]:\n                        pass\n")]),
    dict(name='R02.5 history written before completeness test', rules=('R02.5',), edits=[
        (_C, "        # if we did not find enough, there is not much we can do at this point\n        if  rem_slots > 0:\n            return None, None  # signal failure\n", ""),
        (_C, "            self._tagged_nodes.update(self._colo_history[colo_tag])\n", "            self._tagged_nodes.update(self._colo_history[colo_tag])\n\n        if  rem_slots > 0:\n            return None, None  # signal failure\n")]),
]

SILENT = [
    dict(name='short-cores test as not >=', edits=[
        (_C, "            if len(slot['cores']) < cores_per_slot:\n                self._log.debug_9('not enough cores on %s', node_name)", "            if not len(slot['cores']) >= cores_per_slot:\n                self._log.debug_9('not enough cores on %s', node_name)")]),
    dict(name='stop test with bound on the left', edits=[
        (_C, "                if len(slot['cores']) == cores_per_slot:\n                    break\n", "                if cores_per_slot == len(slot['cores']):\n                    break\n")]),
    dict(name='partial test nested', edits=[
        (_C, "        if not partial and len(slots) < n_slots:\n            return None\n", "        if not partial:\n            if len(slots) < n_slots:\n                return None\n")]),
    dict(name='collect before count', edits=[
        (_C, "            rem_slots -= len(new_slots)\n            alc_slots.extend(new_slots)\n", "            alc_slots.extend(new_slots)\n            rem_slots -= len(new_slots)\n")]),
    dict(name='failure test as == 0 positive form', edits=[
        (_C, "        if  rem_slots > 0:\n            return None, None  # signal failure\n", "        if  not rem_slots == 0:\n            return None, None  # signal failure\n")]),
    dict(name='membership test positive with else-continue', edits=[
        (_C, "                    if node_index not in self._colo_history[colo_tag]:\n                        continue\n", "                    if node_index in self._colo_history[colo_tag]:\n                        pass\n                    else:\n                        continue\n")]),
    dict(name='renamed remaining counter', edits=[
        (_J, "        rem_slots = req_slots\n\n        # start the search", "        rem_slots = req_slots\n        todo = rem_slots\n\n        # start the search")]),
    dict(name='asserts on per-node limits removed (R02.3 is information only)', edits=[
        (_C, "        assert lfs_per_slot   <= lfs_per_node, \\\n               'too much lfs     per proc %s' % lfs_per_slot\n", "")]),
]
