"""C02  A granted placement has exactly the requested shape  (DESIGN 5 / C02)"""

import ast
import copy
import re
import types as _types

from ..model import (walk, dotted, call_name, kwarg, unparse, short, UNKNOWN,
                     root_name, AnalysisError, calls_in, stores_in_target,
                     FuncInfo)
from ..normalize import Inliner as _Inliner, _count_stmts
from ..canon import canonicalize as _canonicalize
from ..cfg import cfg_of
from ..flow import Deps, guards, must_pass, loop_slice, reaching_defs
from .. import idioms as I
from .c01 import (sched_classes, find_resources_info, pick_sites, BASE, CONT,
                  JSRUN, _ancestors)


def _len_of(e):
    """len(X) -> unparse(X) else None"""
    if isinstance(e, ast.Call) and dotted(e.func) == 'len' and e.args:
        return unparse(e.args[0])
    return None


def count_tests(g, counted, alias=None):
    """test nodes comparing a count expression with a bound.  `counted`: set
    of strings - either 'len:<expr>' or a plain name.  `alias(name, node id)`:
    true when the plain name holds, at that test, the very list object that
    is counted (`len(<name>)` is then a count as well).  Returns
    [(node, reached_label)] where reached_label is the out-edge taken when the
    count has reached the bound."""
    out = []
    for n in g.nodes:
        if n.kind != 'test' or not isinstance(n.ast, ast.Compare) or \
                len(n.ast.ops) != 1:
            continue
        l, r, op = n.ast.left, n.ast.comparators[0], n.ast.ops[0]

        def key(e):
            le = _len_of(e)
            if le is not None:
                if alias is not None and 'len:' + le not in counted and \
                        isinstance(e.args[0], ast.Name) and \
                        alias(le, n.id):
                    return sorted(x for x in counted
                                  if x.startswith('len:'))[0]
                return 'len:' + le
            if isinstance(e, ast.Name):
                return e.id
            return None
        kl, kr = key(l), key(r)
        if kl in counted and kr not in counted:
            # count OP bound
            lab = {ast.Lt: 'F', ast.GtE: 'T', ast.Eq: 'T', ast.NotEq: 'F'}
        elif kr in counted and kl not in counted:
            # bound OP count
            lab = {ast.Gt: 'F', ast.LtE: 'T', ast.Eq: 'T', ast.NotEq: 'F'}
        else:
            continue
        for t, v in lab.items():
            if isinstance(op, t):
                out.append((n, v))
                break
        else:
            out.append((n, None))          # wrong operator for a count test
    return out


# ------------------------------------------------------------------------------
# R02.1, chunk form: the cores / gpus of a slot are not picked one by one but
# cut from a list that was collected beforehand,
#     pool  = [i for i, c in enumerate(node['cores']) if c == FREE]
#     chunk = pool[k:k + n] ; slot['cores'] = [RO(index=i) for i in chunk]
# A slice past the end of the pool is silently short: the number of elements
# is only bounded, not fixed, by the slice.
#
_CHUNK_KINDS = ('cores', 'gpus')
_ELEMENTWISE = ('list', 'tuple', 'sorted', 'reversed')


class Chunk:
    """kind; sink (ast of the statement / dict display that stores the value
    as cores/gpus of a slot); sink_text (unparsed receiver or None); slice
    (the ast.Subscript); snode (cfg node that evaluates the slice); pool (name
    of the sliced list); lower / upper (ast or None); names (locals that hold
    the chunk or a list derived element by element from it)"""

    def __init__(self, **kw):
        self.__dict__.update(kw)


def _empty_list(e):
    return (isinstance(e, ast.List) and not e.elts) or (
        isinstance(e, ast.Call) and dotted(e.func) == 'list' and
        not e.args and not e.keywords)


def _chunk_source(f, g, smap, expr, at, names, depth=0):
    """follow `expr` (evaluated at cfg node `at`) backwards through
    element-by-element derivations - a comprehension or a loop-and-append
    over it, list(), sorted(), a plain copy - to a slice `pool[a:b]`; returns
    (ast.Subscript, cfg node) or None.  Every step keeps the number of
    elements, so the length of the slice is the length of `expr`."""
    if depth > 8 or at is None:
        return None
    if isinstance(expr, ast.Subscript) and isinstance(expr.slice, ast.Slice) \
            and isinstance(expr.value, ast.Name):
        return expr, at
    if isinstance(expr, (ast.ListComp, ast.GeneratorExp)) and \
            len(expr.generators) == 1 and not expr.generators[0].ifs:
        return _chunk_source(f, g, smap, expr.generators[0].iter, at, names,
                             depth + 1)
    if isinstance(expr, ast.Call) and dotted(expr.func) in _ELEMENTWISE and \
            len(expr.args) == 1:
        return _chunk_source(f, g, smap, expr.args[0], at, names, depth + 1)
    if isinstance(expr, ast.Name):
        defs = reaching_defs(g, expr.id, at.id)
        if len(defs) != 1 or defs[0][1] is None:
            return None
        dn, v = defs[0]
        if _empty_list(v):
            # x = list() ; for t in SRC: x.append(elt)
            fills = [c for c in calls_in(f.node)
                     if isinstance(c.func, ast.Attribute) and
                     c.func.attr == 'append' and
                     isinstance(c.func.value, ast.Name) and
                     c.func.value.id == expr.id and id(c) in smap]
            if len(fills) != 1:
                return None
            P = smap[id(fills[0])]
            if not P.loops:
                return None
            H = g.nodes[P.loops[-1]]
            if H.kind != 'for' or len(H.ast.body) != 1 or \
                    H.ast.orelse or not isinstance(H.ast.body[0], ast.Expr) \
                    or H.ast.body[0].value is not fills[0]:
                return None
            got = _chunk_source(f, g, smap, H.ast.iter, H, names, depth + 1)
        else:
            got = _chunk_source(f, g, smap, v, dn, names, depth + 1)
        if got:
            names.add(expr.id)
        return got
    return None


def chunk_sites(f, g):
    """[Chunk]: values stored as the cores / gpus of a slot which are cut
    from a list by a slice"""
    smap = I.stmt_node_map(g)
    sinks = []
    for n in walk(f.node):
        if isinstance(n, ast.Assign) and id(n.value) in smap:
            for t in n.targets:
                if isinstance(t, ast.Subscript) and \
                        isinstance(t.slice, ast.Constant) and \
                        t.slice.value in _CHUNK_KINDS:
                    sinks.append((t.slice.value, n.value, n, unparse(t)))
        elif isinstance(n, ast.Dict):
            for k, v in zip(n.keys, n.values):
                if isinstance(k, ast.Constant) and k.value in _CHUNK_KINDS \
                        and id(v) in smap:
                    sinks.append((k.value, v, n, None))
        elif isinstance(n, ast.Call) and dotted(n.func) == 'Slot':
            for kw in n.keywords:
                if kw.arg in _CHUNK_KINDS and id(kw.value) in smap:
                    sinks.append((kw.arg, kw.value, n, None))
    out = []
    for kind, v, sink, text in sinks:
        names = set()
        got = _chunk_source(f, g, smap, v, smap[id(v)], names)
        if not got:
            continue
        sl, snode = got
        if sl.slice.step is not None:
            raise AnalysisError('UNRECOGNISED-IDIOM %s: the %s of a slot are '
                                'cut with a stepped slice `%s`'
                                % (f.where, kind, short(sl, 60)))
        out.append(Chunk(kind=kind, sink=sink, sink_text=text, slice=sl,
                         snode=snode, pool=sl.value.id, lower=sl.slice.lower,
                         upper=sl.slice.upper, names=names))
    return out


def _is_zero_const(e):
    return e is None or (isinstance(e, ast.Constant) and e.value == 0 and
                         not isinstance(e.value, bool))


def chunk_width(c):
    """the expression n of `pool[a:a + n]` / `pool[:n]` / `pool[0:n]`"""
    a, b = c.lower, c.upper
    if b is None:
        return None
    if _is_zero_const(a):
        return b
    if isinstance(b, ast.BinOp) and isinstance(b.op, ast.Add):
        if unparse(b.left) == unparse(a):
            return b.right
        if unparse(b.right) == unparse(a):
            return b.left
    return None


def _linear(e, sign=1, out=None):
    """linear form {term text: integer coefficient} of an arithmetic
    expression ('1' is the constant term); products, calls, names are terms"""
    out = {} if out is None else out
    if isinstance(e, ast.BinOp) and isinstance(e.op, (ast.Add, ast.Sub)):
        _linear(e.left, sign, out)
        _linear(e.right, sign if isinstance(e.op, ast.Add) else -sign, out)
    elif isinstance(e, ast.UnaryOp) and isinstance(e.op, ast.USub):
        _linear(e.operand, -sign, out)
    elif isinstance(e, ast.Constant) and isinstance(e.value, int) and \
            not isinstance(e.value, bool):
        out['1'] = out.get('1', 0) + sign * e.value
    elif e is not None:
        k = unparse(e)
        out[k] = out.get(k, 0) + sign
    return {k: v for k, v in out.items() if v}


def _lin_sub(a, b):
    out = dict(a)
    for k, v in b.items():
        out[k] = out.get(k, 0) - v
    return {k: v for k, v in out.items() if v}


def _lin_neg(a):
    return {k: -v for k, v in a.items()}


def remaining_tests(g, c, W):
    """tests that compare what is left of the pool with the width of the
    chunk: `len(pool) - a < n`, `a + n > len(pool)`, `len(pool) >= n` (when
    the slice starts at 0) ...  Returns ([(node id, label of the edge taken
    when a full chunk is left)], [ids of tests that compare len(pool) with n
    alone although the slice starts at a cursor: they speak about the first
    chunk only])"""
    full = _lin_sub(_lin_sub(_linear(ast.parse('len(%s)' % c.pool,
                                               mode='eval').body),
                             _linear(None if _is_zero_const(c.lower)
                                     else c.lower)), _linear(W))
    first = _lin_sub(_linear(ast.parse('len(%s)' % c.pool, mode='eval').body),
                     _linear(W))
    enough, first_only = [], []
    for n in g.nodes:
        if n.kind != 'test' or not isinstance(n.ast, ast.Compare) or \
                len(n.ast.ops) != 1:
            continue
        op = type(n.ast.ops[0])
        diff = _lin_sub(_linear(n.ast.left), _linear(n.ast.comparators[0]))
        # diff OP 0
        if diff == full:
            lab = {ast.Lt: 'F', ast.GtE: 'T'}.get(op)
        elif diff == _lin_neg(full):
            lab = {ast.Gt: 'F', ast.LtE: 'T'}.get(op)
        elif diff in (first, _lin_neg(first)):
            first_only.append(n.id)
            continue
        else:
            continue
        if lab:
            enough.append((n.id, lab))
    return enough, first_only


def _writers(g, names):
    """cfg nodes that bind or mutate one of the plain names"""
    out = set()
    for n in g.stmt_nodes():
        if n.kind == 'for':
            if set(stores_in_target(n.ast.target)) & names:
                out.add(n.id)
            continue
        if n.kind != 'stmt':
            continue
        a = n.ast
        tg = []
        if isinstance(a, ast.Assign):
            tg = a.targets
        elif isinstance(a, (ast.AugAssign, ast.AnnAssign)):
            tg = [a.target]
        elif isinstance(a, ast.Delete):
            tg = a.targets
        for t in tg:
            for e in I._flat(t):
                if root_name(e) in names:
                    out.add(n.id)
        for c in calls_in(a):
            if isinstance(c.func, ast.Attribute) and (
                    c.func.attr in I.MUTATING or
                    c.func.attr in ('pop', 'remove', 'clear', 'sort',
                                    'reverse')) and \
                    root_name(c.func.value) in names:
                out.add(n.id)
    return out


def _length_derived(f, pool):
    """locals whose value is computed from len(pool) (explicit data flow
    through assignments to plain names only)"""
    def reads_len(e, derived):
        for x in walk(e):
            if isinstance(x, ast.Call) and dotted(x.func) == 'len' and \
                    x.args and isinstance(x.args[0], ast.Name) and \
                    x.args[0].id == pool:
                return True
            if isinstance(x, ast.Name) and x.id in derived:
                return True
        return False
    derived = set()
    for _ in range(8):
        before = len(derived)
        for n in walk(f.node):
            v = tg = None
            if isinstance(n, ast.Assign):
                v, tg = n.value, n.targets
            elif isinstance(n, (ast.AugAssign, ast.AnnAssign)) and \
                    n.value is not None:
                v, tg = n.value, [n.target]
            if v is None or not reads_len(v, derived):
                continue
            for t in tg:
                for e in I._flat(t):
                    if isinstance(e, ast.Name):
                        derived.add(e.id)
        if len(derived) == before:
            break
    return derived, reads_len


def check_chunk(prog, rep, rid, K, f, g, c, appends, res):
    from .c01 import controlling
    A = {a.id for a in appends}
    where = '%s[%s:%s]' % (c.pool, unparse(c.lower) if c.lower else '',
                           unparse(c.upper) if c.upper else '')
    W = chunk_width(c)
    if W is None:
        raise AnalysisError('UNRECOGNISED-IDIOM %s: the %s of a slot are cut '
                            'as `%s`: the width of the slice is not of the '
                            'form [a:a + n]' % (f.where, c.kind, where))
    wt = unparse(W)
    wh = unparse(_hoisted(g, W, c.snode.id)[0])
    rep.ok(rid, f, '%s: the %s of a slot are the chunk %s of a collected '
           'list, %s wide' % (K.name, c.kind, where, wt), f.loc(c.slice))
    # tests on the length of the chunk (or of a list derived element by
    # element from it, or of the slot entry it is stored in)
    counted = {'len:' + x for x in c.names}
    if c.sink_text:
        counted.add('len:' + c.sink_text)
    reached, weak = [], []
    for n, lab in count_tests(g, counted):
        cmp_ = n.ast
        le = _len_of(cmp_.left)
        b = cmp_.comparators[0] if le is not None and 'len:' + le in counted \
            else cmp_.left
        if lab and (unparse(b) == wt or
                    unparse(_hoisted(g, b, n.id)[0]) == wh):
            reached.append((n.id, lab))
        else:
            weak.append(n)
    for n in g.nodes:
        if n.kind == 'test' and isinstance(n.ast, ast.Name) and \
                n.ast.id in c.names:
            weak.append(n)
    S = c.snode
    short_path = set()
    for e in g.succ[S.id]:
        if e.label != 'exc':
            short_path |= g.reachable(e.dst, skip_nodes={S.id},
                                      skip_edges=reached)
    ok = not (A & short_path)
    how = 'past a test that the chunk holds %s elements' % wt
    first_only = []
    if not ok:
        # what is left of the pool is compared with the width before the
        # slice is taken, and nothing the comparison reads changes in between
        enough, first_only = remaining_tests(g, c, W)
        if enough:
            inval = _writers(g, {c.pool} | {x.id for x in walk(c.slice.slice)
                                            if isinstance(x, ast.Name)})
            stale = False
            for w in inval | {g.entry.id}:
                for e in g.succ[w]:
                    if e.label == 'exc':
                        continue
                    if e.dst == S.id or (e.dst not in inval and S.id in
                            g.reachable(e.dst, skip_nodes=inval - {S.id},
                                        skip_edges=enough)):
                        stale = True
            if not stale:
                ok = True
                how = ('after a test that the list still holds %s elements '
                       'past the start of the slice' % wt)
    if ok:
        rep.ok(rid, f, '%s: the slot is appended only %s' % (K.name, how),
               f.loc(c.slice))
        return
    # nothing recognised guarantees a full chunk.  Is there anything else
    # that relates the length of the pool to the loop (a bound computed by
    # floor division, say)?  Then the recogniser cannot decide.
    derived, reads_len = _length_derived(f, c.pool)
    known = {i for i, l in reached} | {n.id for n in weak} | set(first_only)
    moving = not _is_zero_const(c.lower) and not isinstance(c.lower,
                                                            ast.Constant)
    other = []
    for n, lab in controlling(g, A):
        if n.id in known and (moving or n.id not in first_only):
            continue
        expr = n.ast.iter if n.kind == 'for' else n.ast
        if n.kind == 'for' and (n.ast.iter is c.slice or (
                isinstance(n.ast.iter, ast.Name) and
                n.ast.iter.id in c.names)):
            continue
        if n.kind == 'test' and isinstance(expr, ast.Name) and \
                expr.id == c.pool:
            continue            # truth of the pool: at least one element
        if reads_len(expr, derived):
            other.append(n)
    if other:
        raise AnalysisError(
            'UNRECOGNISED-IDIOM %s: the %s of a slot are cut as %s and no '
            'test on the length of the chunk dominates %s.append, but %s '
            'relate(s) the length of the list to the search in a way the '
            'recogniser cannot decide' % (
                f.where, c.kind, where, res,
                [short(n.ast.iter if n.kind == 'for' else n.ast, 50)
                 for n in other]))
    wk = ''
    if weak:
        wk = ' (the test `%s` on the chunk lets a short, non-empty chunk ' \
             'through)' % short(weak[0].ast, 50)
    elif first_only:
        wk = ' (`%s` only tells that the first chunk is complete)' \
             % short(g.nodes[first_only[0]].ast, 50)
    rep.bad(rid, f, '%s:%s:chunk-short' % (K.name, c.kind),
            '%s._find_resources: the %s of a slot are cut as %s; a slice '
            'past the end of the list is silently shorter than %s, and the '
            'slot is appended to %s without a test that the chunk reached '
            'that length%s' % (K.name, c.kind, where, wt, res, wk),
            f.loc(c.slice),
            history='2 nodes x 8 cores, cores 0-2 of node 0 busy, request of '
            '2 ranks x 3 cores: the second rank is granted cores [6, 7] of '
            'node 0 (2 instead of 3)')


# ------------------------------------------------------------------------------
# the share form of a pick: the request is one number that is the count when
# whole units are asked for and the share when a part of one unit is asked for
# (gpus_per_slot).  An entry appended with `occupation=<that number>` holds
# the whole request, so the slot needs exactly one: the pick leaves the search
# loop, and the loop is left towards the append of the slot in no other way
# (`for .. : if fits: pick; break` + `else: give up`).  The loop's own exits
# are the count test then.
#
def _single_pick(f, g, P, call, A, fresh, reached, cts):
    """the pick at cfg node P is the only one between the creation of its
    list and the slot (exactly one entry), and that entry carries the bound
    of the count tests `cts` as its share.  False: not of that form;
    AnalysisError: of that form, but what one entry stands for is not known"""
    loops = [h for h in P.loops if g.nodes[h].kind in ('for', 'while')]
    if not loops:
        return False
    H = loops[-1]
    # at most once: no way back to the pick with the same list
    again = set()
    for e in g.succ[P.id]:
        if e.label != 'exc':
            again |= g.reachable(e.dst, skip_nodes=fresh)
    if P.id in again:
        return False
    # at least once: the search loop is left for the slot only through the
    # pick (or through a count test that found the count reached)
    r = g.reachable(H, skip_nodes=set(fresh) | {P.id}, skip_edges=reached)
    if set(A) & r:
        return False
    # what one entry stands for
    share = None
    if call.args:
        entry = _hoisted(g, call.args[0], P.id)[0]
        if isinstance(entry, ast.Call):
            share = kwarg(entry, 'occupation')
        elif isinstance(entry, ast.Dict):
            for k, v in zip(entry.keys, entry.values):
                if isinstance(k, ast.Constant) and k.value == 'occupation':
                    share = v
    bounds = set()
    for n, lab in cts:
        c = n.ast
        b = c.comparators[0] if _len_of(c.left) else c.left
        bounds |= {x.id for x in walk(b) if isinstance(x, ast.Name)}
    if share is not None and bounds:
        dep = Deps(f.node, implicit=False).expr_depends(share)
        if bounds & dep:
            return True
    raise AnalysisError(
        'UNRECOGNISED-IDIOM %s: `%s` is the only pick between the creation '
        'of its list and the slot (the search loop is left right after it), '
        'but the entry does not carry the requested amount itself as its '
        'share: whether one entry is what was asked for is not decided'
        % (f.where, short(call, 50)))


# ------------------------------------------------------------------------------
# R02.1 / R02.11  count discipline of one pick site
#
def check_pick(rep, rid, kname, f, g, P, call, kind, A, done, recv, kill=()):
    """count discipline of one pick `recv.append(..)` (cfg node P) whose list
    goes into the slot completed at the cfg nodes A: (a) the slot is completed
    only past a "count reached" test, (a') all count tests on the way use one
    bound, (b) picking stops when the count is reached.  `kill`: cfg nodes
    behind which the list picked into no longer is what arrives in the slot
    (the slot's variable is bound to something else).  Returns the count tests
    [(node, reached label)] that lie between this pick and the slot"""
    rroot = root_name(call.func.value)
    counted = {'len:' + recv}
    alias = None
    if isinstance(call.func.value, ast.Name):
        # the list picked into may be known under another local at the test
        # (`cores = picked ; if len(cores) < n`): one object, one length
        mine = origin(g, rroot, P.id)

        def alias(name, at):
            return len(mine) == 1 and origin(g, name, at) == mine
    cts = count_tests(g, counted, alias)
    # creation of a fresh receiver (new slot)
    creators = set()
    for n in g.stmt_nodes():
        if n.kind == 'stmt' and isinstance(n.ast, ast.Assign) and any(
                isinstance(t, ast.Name) and t.id == rroot
                for t in n.ast.targets):
            creators.add(n.id)
    if not cts:
        raise AnalysisError('UNRECOGNISED-IDIOM %s: no count test on '
                            'len(%s) found' % (f.where, recv))
    bad_op = [n for n, lab in cts if lab is None]
    for n in bad_op:
        rep.bad(rid, f, n.ast, '%s: the count of picked %s is compared '
                'with an operator that does not separate "reached" '
                'from "short": `%s`' % (kname, kind, short(n.ast, 60)),
                f.loc(n.ast),
                history='a rank is granted fewer (or more) %s than '
                'requested' % kind)
    reached = [(n.id, lab) for n, lab in cts if lab]
    # (a) from the pick to the append of the slot, a "reached" edge
    #     must be taken
    ra = set()
    for e in g.succ[P.id]:
        if e.label != 'exc':
            ra |= g.reachable(e.dst, skip_nodes=creators | set(kill),
                              skip_edges=reached)
    oka = not (set(A) & ra)
    if not oka and _single_pick(f, g, P, call, A, creators | set(kill),
                                reached, cts):
        oka = True
    rep.check(oka, rid, f,
              '%s: after picking into %s the slot is appended only '
              'past a "count reached" test' % (kname, recv),
              construct='%s:%s:append-short' % (kname, recv),
              message='%s: a slot can be appended although len(%s) has '
              'not reached the requested number: a path from the pick '
              'to %s avoids every count test' % (kname, recv, done),
              loc=f.loc(call),
              history='node with 1 free core, request of 2 cores per '
              'rank: the rank is granted a slot with 1 core')
    # (a') all count tests met between this pick and the append of
    #      its slot compare with the same bound expression
    seen = set()
    for e in g.succ[P.id]:
        if e.label != 'exc':
            seen |= g.reachable(e.dst,
                                skip_nodes=creators | set(A) | set(kill))
    bounds = {}
    for n, lab in cts:
        if n.id in seen:
            c = n.ast
            b = c.comparators[0] if _len_of(c.left) else c.left
            bounds.setdefault(unparse(b), n)
    rep.check(len(bounds) <= 1, rid, f,
              '%s: the count tests on len(%s) use one bound (%s)'
              % (kname, recv, ', '.join(sorted(bounds)) or '-'),
              construct='%s:%s:bounds' % (kname, recv),
              message='%s: the count of picked %s is compared with '
              'different bounds (%s): the stop test and the "short" '
              'test disagree about the requested number'
              % (kname, kind, ', '.join(sorted(bounds))),
              loc=f.loc(call),
              history='request of 2 cores per rank on a node with 1 '
              'free core: the rank is granted a slot with 1 core')
    # (b) from a pick back to the same pick (same receiver object) a
    #     count test is evaluated, and its "reached" edge leaves the
    #     pick loop
    tests = {n.id for n, lab in cts}
    rb = set()
    for e in g.succ[P.id]:
        if e.label != 'exc':
            rb |= g.reachable(e.dst, skip_nodes=creators | tests)
    okb = P.id not in rb
    if okb:
        for nid, lab in reached:
            for e in g.succ[nid]:
                if e.label == lab:
                    if P.id in g.reachable(e.dst, skip_nodes=creators):
                        okb = False
    rep.check(okb, rid, f,
              '%s: picking into %s stops when the requested number is '
              'reached' % (kname, recv),
              construct='%s:%s:pick-more' % (kname, recv),
              message='%s: picking into %s can continue after the '
              'requested number is reached (no count test between two '
              'picks, or its "reached" edge leads back to the pick)'
              % (kname, recv), loc=f.loc(call),
              history='request of 1 core per rank on a node with 4 '
              'free cores: the rank is granted all 4')
    return [(n, lab) for n, lab in cts if n.id in seen]


# ------------------------------------------------------------------------------
# R02.1  count discipline of the per-node search
#
def r02_1(prog, rep, rid='R02.1'):
    rep.rule(rid, 'a slot is appended only when it holds the requested number '
             'of cores/gpus; pick loops stop at equality; fewer than n_slots '
             'slots are returned only when partial', minimum=16)
    base, classes = sched_classes(prog)
    for K in classes:
        f, g, d, nodevar, res, appends = find_resources_info(prog, K)
        rep.saw(f)
        picks = pick_sites(prog, f, g, d, {'cores': "%s['cores']" % nodevar,
                                           'gpus': "%s['gpus']" % nodevar})
        A = [a.id for a in appends]
        chunks = chunk_sites(f, g)
        pools = {c.pool for c in chunks}
        for c in chunks:
            pools |= c.names
        for c in chunks:
            check_chunk(prog, rep, rid, K, f, g, c, appends, res)
        for P, call, kind in picks:
            recv = unparse(call.func.value)
            if root_name(call.func.value) in pools:
                # collected into the list the slots are cut from (or copied
                # element by element from a chunk of it): how many elements
                # a slot gets is decided where it is cut
                rep.ok(rid, f, '%s: %s fills the list the %s of the slots '
                       'are cut from / a copy of the chunk' % (
                           K.name, short(call, 40), kind),
                       f.loc(call))
                continue
            check_pick(rep, rid, K.name, f, g, P, call, kind, A,
                       '%s.append' % res, recv)
        # (c) fewer than n_slots only when partial
        rets = [n for n in g.stmt_nodes() if n.kind == 'stmt' and
                isinstance(n.ast, ast.Return) and isinstance(n.ast.value,
                                                             ast.Name)
                and n.ast.value.id == res]
        if not rets:
            raise AnalysisError('UNRECOGNISED-IDIOM %s: no `return %s`'
                                % (f.where, res))
        if 'partial' not in f.params or 'n_slots' not in f.params:
            raise AnalysisError('UNRECOGNISED-IDIOM %s: parameters partial / '
                                'n_slots missing' % f.where)
        # bound names: len(res) and the range() bound of a for loop around the
        # append
        counted = {'len:' + res}
        for a in appends:
            for h in a.loops:
                hn = g.nodes[h]
                if hn.kind == 'for' and isinstance(hn.ast.iter, ast.Call) and \
                        dotted(hn.ast.iter.func) == 'range':
                    for x in hn.ast.iter.args:
                        if isinstance(x, ast.Name):
                            counted.add(x.id)
        cts = [(n, lab) for n, lab in count_tests(g, counted)
               if 'n_slots' in d.reads(n.ast)]
        reached = [(n.id, lab) for n, lab in cts if lab]
        # assume partial is false: prune the T edges of atom `partial`
        ptrue = [(n.id, 'T') for n in g.nodes if n.kind == 'test' and
                 isinstance(n.ast, ast.Name) and n.ast.id == 'partial']
        r = g.reachable(g.entry.id, skip_edges=reached + ptrue)
        okc = bool(reached) and not any(x.id in r for x in rets)
        rep.check(okc, rid, f,
                  '%s: with partial=False the slot list is returned only past '
                  'a test that n_slots were found' % K.name,
                  construct='%s:short-return' % K.name,
                  message='%s._find_resources can return fewer than n_slots '
                  'slots although partial is false' % K.name, loc=f.loc(),
                  history='non-MPI task with 2 ranks on a node with 1 free '
                  'core: placed with a single rank')
        rep.stat('cfg_nodes', len(g.nodes))


# ------------------------------------------------------------------------------
# R02.11  the application-level slot finder (resource_config.Node.find_slot)
#         is the sibling of _find_resources: the same count discipline, and
#         every part of the slot is sized / fed by the field of the request
#         that belongs to it
#
_RR_COUNT = {'cores': 'n_cores', 'gpus': 'n_gpus'}
_RR_SHARE = {'cores': 'core_occupation', 'gpus': 'gpu_occupation'}
_SLOT_FED = {'lfs': ('rr', 'lfs'), 'mem': ('rr', 'mem'),
             'node_index': ('self', 'index'), 'node_name': ('self', 'name')}
NODE_CLS = ('resource_config.py', 'Node')


def _slot_picks(f, g, smap, made):
    """[(cfg node, append call, kind, kill)]: `<name>.append(..)` calls whose
    list - the very object, followed through the definitions that reach the
    sites - is what `Slot(<kind>=<name>)` receives.  kill = the definitions of
    the slot's variable that bind something other than this list"""
    out = []
    for c in calls_in(f.node):
        if not (isinstance(c.func, ast.Attribute) and c.func.attr == 'append'
                and isinstance(c.func.value, ast.Name) and id(c) in smap):
            continue
        P = smap[id(c)]
        mine = origin(g, c.func.value.id, P.id)
        for sc in made:
            at = smap[id(sc)]
            for kw in sc.keywords:
                if kw.arg not in _RR_COUNT:
                    continue
                if not isinstance(kw.value, ast.Name):
                    raise AnalysisError(
                        'UNRECOGNISED-IDIOM %s: Slot(%s=) is given an '
                        'expression, not a local list' % (f.where, kw.arg))
                if not (mine & origin(g, kw.value.id, at.id)):
                    continue
                kill = set()
                for n, v in reaching_defs(g, kw.value.id, at.id):
                    o = origin(g, v.id, n.id) if isinstance(v, ast.Name) \
                        else {n.id}
                    if not (o & mine):
                        kill.add(n.id)
                out.append((P, c, kw.arg, kill))
    return out


def r02_11(prog, rep, rid='R02.11'):
    rep.rule(rid, 'Node.find_slot: the cores / gpus of the slot are picked '
             'from the matching pool of the node, counted against the '
             'matching field of the request (n_cores / n_gpus) and nothing '
             'else, with the share the request names for them; lfs, mem and '
             'the node identity of the slot are the request\'s and the '
             'node\'s own', minimum=16)
    K = prog.cls(*NODE_CLS)
    f = prog.find_method(K, 'find_slot')
    if f is None:
        raise AnalysisError('Node.find_slot not found')
    rep.saw(f)
    params = [p for p in f.params if p != 'self']
    stores = {x.id for x in walk(f.node) if isinstance(x, ast.Name) and
              isinstance(x.ctx, ast.Store)}
    if len(params) != 1 or params[0] in stores:
        raise AnalysisError('UNRECOGNISED-IDIOM %s: expected one request '
                            'parameter that is never re-bound' % f.where)
    rr = params[0]
    g = cfg_of(f)
    smap = I.stmt_node_map(g)
    d = Deps(f.node)
    ed = Deps(f.node, implicit=False)
    made = [c for c in calls_in(f.node) if dotted(c.func) == 'Slot' and
            id(c) in smap and any(k.arg in _RR_COUNT for k in c.keywords)]
    if not made:
        raise AnalysisError('UNRECOGNISED-IDIOM %s: no Slot(cores=.., gpus=..) '
                            'is built' % f.where)
    A = [smap[id(c)].id for c in made]
    picks = _slot_picks(f, g, smap, made)
    for kind in sorted(_RR_COUNT):
        # (a Slot(..) that is not given the kind at all is R02.17's finding)
        if not any(k == kind for P, c, k, kill in picks) and \
                any(kw.arg == kind for c in made for kw in c.keywords):
            raise AnalysisError('UNRECOGNISED-IDIOM %s: no pick of %s found '
                                '(<list>.append whose list becomes Slot(%s=))'
                                % (f.where, kind, kind))

    def fed_by(e, want, others):
        """explicit data flow only: e derives from `want` and from none of
        `others`"""
        dep = ed.expr_depends(e)
        return want in dep and not (set(others) & dep)

    for P, call, kind, kill in picks:
        recv = unparse(call.func.value)
        want = '%s.%s' % (rr, _RR_COUNT[kind])
        cts = check_pick(rep, rid, 'Node.find_slot', f, g, P, call, kind, A,
                         'Slot(..)', recv, kill=kill)
        # the bound of every count test on the list is the request field of
        # this kind
        for n, lab in cts:
            c = n.ast
            b = c.comparators[0] if _len_of(c.left) else c.left
            rep.check(fed_by(b, want, ['%s.%s' % (rr, v) for k, v in
                                       _RR_COUNT.items() if k != kind]),
                      rid, f,
                      'Node.find_slot: `%s` counts the %s against %s'
                      % (short(c, 40), kind, want),
                      construct='find_slot:%s:bound:%s' % (
                          kind, 'stop' if P.loops and P.loops[-1] in n.loops
                          else 'short'),
                      message='Node.find_slot: the number of %s picked for a '
                      'rank (len(%s)) is compared with `%s` in `%s`; the '
                      'number of %s a rank asks for is %s, so the rank is '
                      'granted as many %s as that other field says'
                      % (kind, recv, short(b, 40), short(c, 50), kind, want,
                         kind), loc=f.loc(c),
                      history='NodeList.find_slots(RankRequirements(n_cores=3, '
                      'n_gpus=1), n_slots=2) on nodes with 8 cores and 4 '
                      'GPUs: every rank is granted 3 GPUs; with n_cores=1, '
                      'n_gpus=2 the ranks get 1 GPU or the request is never '
                      'granted')
        # picked from the pool of this kind
        loops = [g.nodes[h] for h in P.loops if g.nodes[h].kind == 'for']
        if not loops:
            raise AnalysisError('UNRECOGNISED-IDIOM %s: `%s` is not in a loop '
                                'over a pool of the node' % (f.where,
                                                             short(call, 50)))
        H = loops[-1]
        pool = ed.expr_depends(H.ast.iter)
        others = {'self.' + k for k in _RR_COUNT if k != kind}
        rep.check('self.' + kind in pool and not (others & pool), rid, f,
                  'Node.find_slot: the %s of the slot are picked from '
                  'self.%s' % (kind, kind),
                  construct='find_slot:%s:pool' % kind,
                  message='Node.find_slot: the %s of the slot are picked in a '
                  'loop over `%s`, not over self.%s: the indices do not name '
                  '%s of the node' % (kind, short(H.ast.iter, 40), kind, kind),
                  loc=f.loc(H.ast),
                  history='find_slot(RankRequirements(n_cores=1, n_gpus=1)) '
                  'on a node with 8 cores and 2 GPUs: the slot names GPU '
                  'index 5')
        # each picked entry carries the share asked for this kind
        share = None
        if call.args:
            entry = _hoisted(g, call.args[0], P.id)[0]
            if isinstance(entry, ast.Call):
                share = kwarg(entry, 'occupation')
        if share is None:
            raise AnalysisError('UNRECOGNISED-IDIOM %s: `%s` does not append '
                                'RO(.., occupation=..)' % (f.where,
                                                           short(call, 50)))
        dep = ed.expr_depends(share)
        wants = '%s.%s' % (rr, _RR_SHARE[kind])
        others = {'%s.%s' % (rr, v) for k, v in _RR_SHARE.items()
                  if k != kind}
        rep.check(wants in dep and not (others & dep), rid, f,
                  'Node.find_slot: picked %s carry the share %s'
                  % (kind, wants), construct='find_slot:%s:share' % kind,
                  message='Node.find_slot: the %s of the slot are entered '
                  'with occupation `%s`, the request asks for %s'
                  % (kind, short(share, 40), wants), loc=f.loc(call),
                  history='RankRequirements(n_gpus=1, gpu_occupation=0.5, '
                  'core_occupation=1.0): the rank holds a whole GPU')
    for c in made:
        for kind, vals in sorted(slot_fields(prog, f, g, smap, c).items()):
            if kind not in _SLOT_FED:
                continue
            base, attr = _SLOT_FED[kind]
            base = rr if base == 'rr' else base
            others = ['%s.%s' % (rr if b2 == 'rr' else b2, a2)
                      for k2, (b2, a2) in _SLOT_FED.items() if k2 != kind]
            for value, where in vals:
                rep.check(fed_by(value, '%s.%s' % (base, attr), others),
                          rid, f,
                          'Node.find_slot: Slot(%s=) is %s.%s' % (kind, base,
                                                                  attr),
                          construct='find_slot:slot:%s' % kind,
                          message='Node.find_slot builds the slot with %s=`%s`'
                          '; the granted %s must be %s.%s' % (
                              kind, short(value, 40), kind, base, attr),
                          loc=f.loc(where),
                          history='find_slot(RankRequirements(n_cores=1, '
                          'lfs=10, mem=20)): the slot (and the debit of the '
                          'node) carries a different %s than was asked for'
                          % kind)


# ------------------------------------------------------------------------------
# R02.17  every part of a granted share is carried into the slot.  Slot has a
#         default for every field (0 / empty list / node 0), so a field the
#         constructor is not given - and which is not stored on the very
#         object before it is handed on - silently reads as "nothing asked
#         for": the rank is granted less than the request and the node is not
#         debited for it.
#
_SLOT_KINDS = ('cores', 'gpus', 'lfs', 'mem', 'node_index', 'node_name')


def _field_key(prog, e):
    """the field a subscript key names: a string constant or a class level
    constant of resource_config (`Slot.MEM`)"""
    if isinstance(e, ast.Constant) and isinstance(e.value, str):
        return e.value
    if isinstance(e, ast.Attribute) and isinstance(e.value, ast.Name):
        k = prog.module(NODE_CLS[0]).classes.get(e.value.id)
        if k is not None:
            v = k.consts.get(e.attr)
            if isinstance(v, ast.Constant) and isinstance(v.value, str):
                return v.value
    return None


def _dict_items(prog, e):
    """[(field, value)] of a dict literal / dict(k=v) call, None if it is
    neither or a key cannot be read"""
    out = []
    if isinstance(e, ast.Dict):
        for k, v in zip(e.keys, e.values):
            key = _field_key(prog, k) if k is not None else None
            if key is None:
                return None
            out.append((key, v))
        return out
    if isinstance(e, ast.Call) and dotted(e.func) == 'dict' and not e.args:
        for kw in e.keywords:
            if kw.arg is None:
                return None
            out.append((kw.arg, kw.value))
        return out
    return None


def slot_fields(prog, f, g, smap, call, leaves=None):
    """{field: [(value expr, ast node for the location)]} of the object built
    by `call` (Slot(..)) at the time it leaves the function or is handed to a
    callee: keywords of the constructor (also through `**{..}`), and stores
    `<name>.<field> = v` / `<name>[<field>] = v` / `<name>.update(..)` on a
    name that holds this very object, at a place from which every use (the
    return, the call of a method of the node) is still to come (may-analysis:
    a store under a guard counts).  leaves, if given,
    receives whether the object is returned or handed to a callee at all"""
    A = smap[id(call)]
    out = {}
    if call.args:
        raise AnalysisError('UNRECOGNISED-IDIOM %s: `%s` is built from a '
                            'positional argument' % (f.where, short(call, 50)))
    for kw in call.keywords:
        if kw.arg is not None:
            out.setdefault(kw.arg, []).append((kw.value, call))
            continue
        items = _dict_items(prog, _hoisted(g, kw.value, A.id)[0])
        if items is None:
            raise AnalysisError('UNRECOGNISED-IDIOM %s: `%s` is built from '
                                '`**%s`, which is not a dict literal'
                                % (f.where, short(call, 50),
                                   short(kw.value, 30)))
        for k, v in items:
            out.setdefault(k, []).append((v, call))

    def holds(e, at):
        return isinstance(e, ast.Name) and A.id in origin(g, e.id, at)

    after = g.reachable(A.id)
    # uses: the object is returned or handed to a method of the node (debit)
    uses = set()
    for n in g.nodes:
        if n.id not in after or n.id == A.id or n.ast is None or \
                n.kind != 'stmt':
            continue
        for x in walk(n.ast):
            if isinstance(x, ast.Return) and x.value is not None and \
                    holds(x.value, n.id):
                uses.add(n.id)
            elif isinstance(x, ast.Call) and \
                    isinstance(x.func, ast.Attribute) and \
                    isinstance(x.func.value, ast.Name) and \
                    x.func.value.id == 'self':
                if any(holds(a, n.id) for a in list(x.args) +
                       [k.value for k in x.keywords]):
                    uses.add(n.id)
    for n in g.nodes:
        if n.id not in after or n.id == A.id or n.kind != 'stmt' or \
                n.ast is None:
            continue
        if not uses <= g.reachable(n.id):
            continue        # too late for the debit or for the caller
        got = []
        if isinstance(n.ast, (ast.Assign, ast.AnnAssign, ast.AugAssign)):
            tgts = n.ast.targets if isinstance(n.ast, ast.Assign) \
                else [n.ast.target]
            for t in tgts:
                if isinstance(t, ast.Attribute) and holds(t.value, n.id):
                    got.append((t.attr, n.ast.value))
                elif isinstance(t, ast.Subscript) and holds(t.value, n.id):
                    key = _field_key(prog, t.slice)
                    if key is None:
                        raise AnalysisError(
                            'UNRECOGNISED-IDIOM %s: `%s` stores a field of '
                            'the slot under a key that is not a constant'
                            % (f.where, short(n.ast, 50)))
                    got.append((key, n.ast.value))
        elif isinstance(n.ast, ast.Expr) and isinstance(n.ast.value, ast.Call):
            x = n.ast.value
            if isinstance(x.func, ast.Attribute) and x.func.attr == 'update' \
                    and holds(x.func.value, n.id):
                items = []
                for a in x.args:
                    its = _dict_items(prog, _hoisted(g, a, n.id)[0])
                    if its is None:
                        raise AnalysisError(
                            'UNRECOGNISED-IDIOM %s: `%s` updates the slot '
                            'from something that is not a dict literal'
                            % (f.where, short(x, 50)))
                    items += its
                for kw in x.keywords:
                    if kw.arg is None:
                        raise AnalysisError(
                            'UNRECOGNISED-IDIOM %s: `%s`' % (f.where,
                                                             short(x, 50)))
                    items.append((kw.arg, kw.value))
                got += items
        for k, v in got:
            out.setdefault(k, []).append((v, n.ast))
    if leaves is not None:
        leaves.append(bool(uses) or isinstance(A.ast, ast.Return))
    return out


def r02_17(prog, rep, rid='R02.17'):
    rep.rule(rid, 'Node.find_slot: the slot that is returned (and debited '
             'from the node) carries every part of the share - cores, gpus, '
             'lfs, mem, node index and node name - none is left to the '
             'default of Slot', minimum=6)
    K = prog.cls(*NODE_CLS)
    f = prog.find_method(K, 'find_slot')
    if f is None:
        raise AnalysisError('Node.find_slot not found')
    rep.saw(f)
    g = cfg_of(f)
    smap = I.stmt_node_map(g)
    made = [c for c in calls_in(f.node) if dotted(c.func) == 'Slot' and
            id(c) in smap]
    if not made:
        raise AnalysisError('UNRECOGNISED-IDIOM %s: no Slot(..) is built'
                            % f.where)
    params = [p for p in f.params if p != 'self']
    rr = params[0] if params else 'rr'
    asked = {'cores': '%s.n_cores cores' % rr, 'gpus': '%s.n_gpus GPUs' % rr,
             'lfs': '%s.lfs' % rr, 'mem': '%s.mem' % rr,
             'node_index': 'the index of this node',
             'node_name': 'the name of this node'}
    for c in made:
        leaves = []
        have = slot_fields(prog, f, g, smap, c, leaves)
        if not leaves[0]:
            continue        # a scratch object: never returned nor handed on
        for kind in _SLOT_KINDS:
            rep.check(kind in have, rid, f,
                      'Node.find_slot: `%s` carries %s' % (short(c, 30), kind),
                      construct='find_slot:slot:%s:carried' % kind,
                      message='Node.find_slot: the slot built by `%s` is '
                      'never given its `%s` (neither as an argument of the '
                      'constructor nor by a store on the object before it is '
                      'returned / debited): the field reads as the default of '
                      'Slot, whatever the request asks for (%s), and '
                      'allocate_slot debits the node by that default'
                      % (short(c, 60), kind, asked[kind]), loc=f.loc(c),
                      history='node with mem=100: find_slot('
                      'RankRequirements(n_cores=1, mem=80)) twice -> both '
                      'ranks are granted, each slot says %s = default, the '
                      'node still shows its full %s' % (kind, kind))


# ------------------------------------------------------------------------------
# local closures.  A nested `def` that is only ever called by its plain name
# from the body of the enclosing method reads the enclosing locals at call
# time: replacing each call by the body (parameters substituted, the
# closure's own locals renamed) is exact.  The engine inlines freshly
# extracted *methods* in the normalised views but leaves nested functions
# alone, so the rules about schedule_task look at this flattened form.
#
class _Closures(_Inliner):

    def __init__(self, prog, outer):
        _Inliner.__init__(self, prog, {})
        self.outer = outer
        self.left = set()             # closures with a use that stays

    def callee(self, finfo, call):
        if not isinstance(call.func, ast.Name):
            return None
        info = self.outer.nested.get(call.func.id)
        if info is None or call.func.id in self.left:
            return None
        fn = info.node
        a = fn.args
        if not isinstance(fn, ast.FunctionDef) or fn.decorator_list or \
                a.vararg or a.kwarg or a.kwonlyargs or a.posonlyargs or \
                a.defaults:
            return None
        for x in ast.walk(fn):
            if isinstance(x, (ast.Yield, ast.YieldFrom, ast.Await, ast.Global,
                              ast.Nonlocal, ast.Lambda)):
                return None
            if x is not fn and isinstance(x, (ast.FunctionDef, ast.ClassDef,
                                              ast.AsyncFunctionDef)):
                return None
            if isinstance(x, ast.Name) and x.id == fn.name:
                return None                                     # recursion
        if _count_stmts(fn.body) > 40:
            return None
        return _types.SimpleNamespace(name=fn.name, node=fn, cls=None)


def flat_closures(prog, f):
    """FuncInfo of `f` with its local closures inlined (a copy; `f` itself if
    it has none, or if one of them cannot be removed completely)"""
    if not f.nested:
        return f
    cached = getattr(f, '_c02_flat', None)
    if cached is not None:
        return cached
    out = f
    f2 = FuncInfo(f.name, f.qual, f.module, f.cls, copy.deepcopy(f.node),
                  parent=f.parent)
    top = {s.name for s in f2.node.body if isinstance(s, ast.FunctionDef)}
    stores = {x.id for x in ast.walk(f2.node) if isinstance(x, ast.Name)
              and isinstance(x.ctx, (ast.Store, ast.Del))} | set(f2.params)
    # only closures defined once, unconditionally, at the top level of the
    # body and never re-bound
    inl = _Closures(prog, f2)
    n_defs = {}
    for x in ast.walk(f2.node):
        if x is not f2.node and isinstance(x, (ast.FunctionDef,
                                               ast.AsyncFunctionDef)):
            n_defs[x.name] = n_defs.get(x.name, 0) + 1
    inl.left = {n for n in f2.nested
                if n not in top or n in stores or n_defs.get(n) != 1}
    # the definition precedes every use
    for s in f2.node.body:
        if isinstance(s, ast.FunctionDef) and s.name not in inl.left:
            for x in ast.walk(f2.node):
                if isinstance(x, ast.Name) and x.id == s.name and \
                        x.lineno <= s.lineno:
                    inl.left.add(s.name)
    if len(inl.left) < len(f2.nested) and inl.run_function(f2):
        gone = []
        for name in f2.nested:
            if name in inl.left:
                continue
            used = any(isinstance(x, ast.Name) and x.id == name
                       for s in f2.node.body
                       if not (isinstance(s, ast.FunctionDef) and
                               s.name == name)
                       for x in ast.walk(s))
            if used:
                # a use that could not be replaced: keep the tree as it is
                gone = None
                break
            gone.append(name)
        if gone:
            f2.node.body = [s for s in f2.node.body
                            if not (isinstance(s, ast.FunctionDef) and
                                    s.name in gone)]
            _canonicalize(ast.Module(body=[f2.node], type_ignores=[]))
            out = FuncInfo(f.name, f.qual, f.module, f.cls, f2.node,
                           parent=f.parent)
    try:
        f._c02_flat = out
    except Exception:                                           # noqa
        pass
    return out


# ------------------------------------------------------------------------------
# the colocate history tests of the node loop, by meaning:
#   "the tag is known"   `T in self._colo_history`  /  `H is [not] None` where
#                        H is `self._colo_history.get(T)`
#   "the node is listed" `<x> in H` where H is `self._colo_history[T]` or the
#                        result of `.get(T)`
# H may be a local that holds the lookup (single reaching definition).
#
_HIST = 'self._colo_history'


def _same_value(g, e1, at1, e2, at2):
    """both expressions (hoisted locals followed) are the same term over the
    same definitions"""
    a, p = _hoisted(g, e1, at1)
    b, q = _hoisted(g, e2, at2)
    return unparse(a) == unparse(b) and _same_binding(g, a, p, q)


def _hist_lookup(g, e, at):
    """(tag expr, 'item' | 'get') if the value of `e` at cfg node `at` is the
    history entry of a tag"""
    e, at = _hoisted(g, e, at)
    if isinstance(e, ast.Subscript) and unparse(e.value) == _HIST and \
            not isinstance(e.slice, ast.Slice):
        return e.slice, 'item'
    if isinstance(e, ast.Call) and isinstance(e.func, ast.Attribute) and \
            e.func.attr == 'get' and unparse(e.func.value) == _HIST and \
            e.args and not e.keywords and (
                len(e.args) == 1 or (
                    len(e.args) == 2 and isinstance(e.args[1], ast.Constant)
                    and e.args[1].value is None)):
        return e.args[0], 'get'
    return None


def history_tests(g, F):
    """(known, member, other) over the tests of the node loop of cfg node F:
    known  = [(test node, label taken when the tag is in the history, tag)]
    member = [(test node, label taken when the node is listed, left operand,
               tag)]
    other  = membership tests on something else (for the message)"""
    known, member, other = [], [], []
    for n in g.nodes:
        if n.kind != 'test' or not isinstance(n.ast, ast.Compare) or \
                len(n.ast.ops) != 1 or n.loops != F.loops:
            continue
        op, l, r = n.ast.ops[0], n.ast.left, n.ast.comparators[0]
        if isinstance(op, (ast.In, ast.NotIn)):
            lab = 'T' if isinstance(op, ast.In) else 'F'
            if unparse(r) == _HIST:
                known.append((n, lab, l))
                continue
            h = _hist_lookup(g, r, n.id)
            if h is not None:
                member.append((n, lab, l, h[0]))
            else:
                other.append(n)
        elif isinstance(op, (ast.Is, ast.IsNot)) and \
                isinstance(r, ast.Constant) and r.value is None:
            h = _hist_lookup(g, l, n.id)
            if h is not None and h[1] == 'get':
                known.append((n, 'T' if isinstance(op, ast.IsNot) else 'F',
                              h[0]))
    return known, member, other


# ------------------------------------------------------------------------------
# R02.2  paired bookkeeping in schedule_task
#
def sched_info(prog, K):
    f = prog.find_method(K, 'schedule_task')
    if f is None:
        raise AnalysisError('%s.schedule_task missing' % K.name)
    f = flat_closures(prog, f)
    g = cfg_of(f)
    smap = I.stmt_node_map(g)
    find_call = None
    for c in calls_in(f.node):
        if call_name(c) == 'self._find_resources':
            find_call = c
    if find_call is None:
        raise AnalysisError('UNRECOGNISED-IDIOM %s: no call of '
                            'self._find_resources' % f.where)
    F = smap[id(find_call)]
    if not F.loops:
        raise AnalysisError('UNRECOGNISED-IDIOM %s: the per-node search is '
                            'not in a loop' % f.where)

    def in_loop(stmt):
        n = smap.get(id(stmt))
        return n is not None and n.loops[:len(F.loops)] == F.loops

    # the decrement of the remaining counter: `rem -= <amount>` (or
    # `rem = rem - <amount>`) in the node loop - whatever the amount is
    decs = []
    for n in walk(f.node):
        if _decrement(n) and in_loop(n):
            decs.append(n)
    names = {_decrement(n)[0] for n in decs}
    if len(names) != 1 or len(decs) != 1:
        raise AnalysisError('UNRECOGNISED-IDIOM %s: expected one `rem -= '
                            '<amount>` in the node loop, found %d on %s'
                            % (f.where, len(decs), sorted(names)))
    dec = decs[0]
    rem = _decrement(dec)[0]
    # the collection of what was found: `alc.extend(X)` / `alc += X` in the
    # node loop
    cols = []
    for n in walk(f.node):
        c = _collect(n)
        if c and in_loop(n):
            cols.append((c[0], c[1], n))
    if len(cols) > 1:
        # keep the one whose receiver is returned
        returned = set()
        for n in walk(f.node):
            if isinstance(n, ast.Return) and n.value is not None:
                returned |= {x.id for x in walk(n.value)
                             if isinstance(x, ast.Name)}
        cols = [c for c in cols if c[0] in returned]
        if len(cols) != 1:
            raise AnalysisError('UNRECOGNISED-IDIOM %s: several lists are '
                                'extended in the node loop' % f.where)
    alc = X = ext = None
    if cols:
        alc, arg, ext = cols[0]
        if not isinstance(arg, ast.Name):
            raise AnalysisError('UNRECOGNISED-IDIOM %s: `%s` is extended by '
                                'an expression, not by a named list'
                                % (f.where, alc))
        X = arg.id
    else:
        la = _len_of(_decrement(dec)[1])
        X = la if la is not None else unparse(_decrement(dec)[1])
    return f, g, smap, rem, alc, X, dec, ext, find_call


def _decrement(n):
    """(name, amount expr) of `name -= amount` / `name = name - amount`"""
    if isinstance(n, ast.AugAssign) and isinstance(n.op, ast.Sub) and \
            isinstance(n.target, ast.Name):
        return n.target.id, n.value
    if isinstance(n, ast.Assign) and len(n.targets) == 1 and \
            isinstance(n.targets[0], ast.Name) and \
            isinstance(n.value, ast.BinOp) and \
            isinstance(n.value.op, ast.Sub) and \
            isinstance(n.value.left, ast.Name) and \
            n.value.left.id == n.targets[0].id:
        return n.targets[0].id, n.value.right
    return None


def _collect(n):
    """(receiver name, argument expr) of `recv.extend(arg)` / `recv += arg`"""
    if isinstance(n, ast.Call) and isinstance(n.func, ast.Attribute) and \
            n.func.attr == 'extend' and len(n.args) == 1 and \
            not n.keywords and isinstance(n.func.value, ast.Name):
        return n.func.value.id, n.args[0]
    if isinstance(n, ast.AugAssign) and isinstance(n.op, ast.Add) and \
            isinstance(n.target, ast.Name) and \
            not isinstance(n.value, (ast.Constant, ast.BinOp)):
        return n.target.id, n.value
    return None


def zero_tests(g, rem):
    """[(test node id, label of the edge taken when the counter `rem` is
    zero)] for the tests `rem > 0`, `rem == 0`, `rem <= 0`, `rem != 0`,
    `0 < rem`, ... and the truth test `rem`"""
    mirror = {ast.Gt: ast.Lt, ast.Lt: ast.Gt, ast.GtE: ast.LtE,
              ast.LtE: ast.GtE, ast.Eq: ast.Eq, ast.NotEq: ast.NotEq}
    done = []
    for n in g.nodes:
        if n.kind != 'test':
            continue
        a = n.ast
        if isinstance(a, ast.Name) and a.id == rem:
            done.append((n.id, 'F'))
            continue
        if not isinstance(a, ast.Compare) or len(a.ops) != 1:
            continue
        l, r, op = a.left, a.comparators[0], type(a.ops[0])
        if isinstance(l, ast.Constant) and op in mirror:
            l, r, op = r, l, mirror[op]
        if isinstance(l, ast.Name) and l.id == rem and \
                isinstance(r, ast.Constant) and r.value == 0 and \
                not isinstance(r.value, bool):
            lab = {ast.Gt: 'F', ast.Eq: 'T', ast.LtE: 'T',
                   ast.NotEq: 'F'}.get(op)
            if lab:
                done.append((n.id, lab))
    return done


def r02_2(prog, rep, rid='R02.2'):
    rep.rule(rid, 'schedule_task: remaining count and collected slots are '
             'updated together from the same list; the continuity reset resets '
             'both; the result is returned only when nothing remains',
             minimum=6)
    base, classes = sched_classes(prog)
    for K in classes:
        f, g, smap, rem, alc, X, dec, ext, find_call = sched_info(prog, K)
        rep.saw(f)
        if alc is None:
            rep.bad(rid, f, dec, '%s: `%s` has no matching `.extend(%s)` in '
                    'the node loop: found slots are counted but not collected'
                    % (K.name, short(dec, 60), X), f.loc(dec))
            continue
        nd, ne = smap[id(dec)], smap[id(ext)]
        same = set(guards(g, nd.id)) == set(guards(g, ne.id)) and \
            nd.loops == ne.loops
        rep.check(same, rid, f, '%s: `%s` and `%s` are executed together'
                  % (K.name, short(dec, 50), short(ext, 50)),
                  construct='%s:paired-update' % K.name,
                  message='%s: the remaining-count decrement and the '
                  'collection of the found slots are not under the same '
                  'conditions: the count and the list diverge' % K.name,
                  loc=f.loc(dec),
                  history='3-rank task over two nodes: the placement returned '
                  'has a different number of slots than ranks')
        # X is the result of the search on this node
        src = srcdef = None
        for n in walk(f.node):
            if isinstance(n, ast.Assign) and n.value is find_call and \
                    isinstance(n.targets[0], ast.Name):
                src, srcdef = n.targets[0].id, smap[id(n)]
        same_val = src == X or (srcdef is not None and
                                origin(g, X, ne.id) == {srcdef.id})
        rep.check(same_val, rid, f, '%s: the list counted and collected is the '
                  'result of _find_resources' % K.name,
                  construct='%s:collected-is-found' % K.name,
                  message='%s: what is collected (%s) is not the result of the '
                  'per-node search (%s)' % (K.name, X, src), loc=f.loc(dec))
        # resets inside the node loop: both or none, same guards
        loop = nd.loops[-1] if nd.loops else None
        if loop is None:
            raise AnalysisError('UNRECOGNISED-IDIOM %s: bookkeeping not in a '
                                'loop' % f.where)
        body = g.loop_body[loop]
        ra = [n for n in g.stmt_nodes() if n.id in body and n.kind == 'stmt'
              and isinstance(n.ast, ast.Assign) and any(
                  isinstance(t, ast.Name) and t.id == alc
                  for t in n.ast.targets)]
        rr = [n for n in g.stmt_nodes() if n.id in body and n.kind == 'stmt'
              and isinstance(n.ast, ast.Assign) and n.ast is not dec and any(
                  isinstance(t, ast.Name) and t.id == rem
                  for t in n.ast.targets)]
        ga = sorted(tuple(sorted(guards(g, n.id))) for n in ra)
        gr = sorted(tuple(sorted(guards(g, n.id))) for n in rr)
        rep.check(ga == gr, rid, f, '%s: the continuity reset re-initialises '
                  '%s and %s together' % (K.name, alc, rem),
                  construct='%s:paired-reset' % K.name,
                  message='%s: inside the node loop %s is reset %d time(s) and '
                  '%s %d time(s) under different conditions: after a broken '
                  'continuity the count and the list diverge'
                  % (K.name, alc, len(ra), rem, len(rr)), loc=f.loc(dec),
                  history='non-scattered 4-rank task, second node is full: '
                  'slots of the first node stay in the list although the '
                  'remaining count is reset (or vice versa)')
        # the reset value of rem is the request
        init = [n for n in g.stmt_nodes() if n.kind == 'stmt' and
                isinstance(n.ast, ast.Assign) and n.ast is not dec and any(
                    isinstance(t, ast.Name) and t.id == rem
                    for t in n.ast.targets)]
        vals = {unparse(n.ast.value) for n in init}
        rep.check(len(vals) == 1, rid, f, '%s: %s is always (re)initialised to '
                  'the same request value %s' % (K.name, rem, sorted(vals)),
                  construct='%s:reset-value' % K.name,
                  message='%s: %s is initialised from different values %s'
                  % (K.name, rem, sorted(vals)), loc=f.loc(dec))
        # success return
        rets = [n for n in g.stmt_nodes() if n.kind == 'stmt' and
                isinstance(n.ast, ast.Return) and n.ast.value is not None and
                alc in {x.id for x in walk(n.ast.value)
                        if isinstance(x, ast.Name)}]
        if not rets:
            raise AnalysisError('UNRECOGNISED-IDIOM %s: `return %s, ..` not '
                                'found' % (f.where, alc))
        done = zero_tests(g, rem)
        for r in rets:
            # only tests evaluated after the loop count
            after = [(t, lab) for t, lab in done
                     if g.nodes[t].loops == r.loops]
            ok = bool(after) and r.id not in g.reachable(
                g.entry.id, skip_edges=after)
            rep.check(ok, rid, f, '%s: `%s` is reached only when %s is zero'
                      % (K.name, short(r.ast, 40), rem),
                      construct='%s:complete-return' % K.name,
                      message='%s.schedule_task can return a placement while '
                      '%s > 0: the task is granted fewer ranks than requested'
                      % (K.name, rem), loc=f.loc(r.ast),
                      history='4-rank task, pilot has room for 3 ranks: the '
                      'task starts with 3 slots')


# ------------------------------------------------------------------------------
# R02.4 / R02.7  what is searched for is what was requested
#
REQ = {'cores_per_slot': 'cores_per_rank', 'gpus_per_slot': 'gpus_per_rank',
       'lfs_per_slot': 'lfs_per_rank', 'mem_per_slot': 'mem_per_rank'}


def r02_4(prog, rep):
    rep.rule('R02.4', 'the number of slots searched per node is bounded by '
             "td['ranks_per_node']", minimum=2)
    rep.rule('R02.7', 'each per-slot argument of the search derives from the '
             'matching per-rank attribute of the description, the rank count '
             "from td['ranks']; the slot records the per-slot lfs/mem and the "
             "node's own name/index", minimum=18)
    base, classes = sched_classes(prog)
    for K in classes:
        f, g, smap, rem, alc, X, dec, ext, find_call = sched_info(prog, K)
        d = Deps(f.node)
        tdv = None
        for n in walk(f.node):
            if isinstance(n, ast.Assign) and unparse(n.value) == \
                    "task['description']" and isinstance(n.targets[0],
                                                         ast.Name):
                tdv = n.targets[0].id
        if tdv is None:
            raise AnalysisError("UNRECOGNISED-IDIOM %s: no td = "
                                "task['description']" % f.where)
        for kw, attr in sorted(REQ.items()):
            a = kwarg(find_call, kw)
            if a is None:
                raise AnalysisError('UNRECOGNISED-IDIOM %s: _find_resources is '
                                    'not called with keyword %s' % (f.where,
                                                                    kw))
            dep = d.expr_depends(a)
            want = "%s[%r]" % (tdv, attr)
            others = {"%s[%r]" % (tdv, o) for o in REQ.values() if o != attr}
            # jsrun multiplies per-slot needs by ranks_per_slot which derives
            # from gpus_per_rank: tolerated (other kinds may appear); the
            # matching attribute must be there
            rep.check(want in dep, 'R02.7', f,
                      "%s: search argument %s derives from %s" % (K.name, kw,
                                                                  want),
                      construct='%s:%s' % (K.name, kw),
                      message="%s: the search argument %s does not derive from "
                      "%s: ranks are granted a different amount than requested"
                      % (K.name, kw, want), loc=f.loc(find_call),
                      history='task with lfs_per_rank=10, mem_per_rank=0: the '
                      'slot carries mem=10, lfs=0')
        dep = d.expr_depends(ast.Name(id=rem, ctx=ast.Load()))
        rep.check("%s['ranks']" % tdv in dep, 'R02.7', f,
                  "%s: the number of slots to find derives from td['ranks']"
                  % K.name, construct='%s:ranks' % K.name,
                  message="%s: the remaining-slot counter does not derive from "
                  "td['ranks']" % K.name, loc=f.loc(dec))
        a = kwarg(find_call, 'n_slots')
        dep = d.expr_depends(a) if a is not None else set()
        has = "%s['ranks_per_node']" % tdv in dep
        rep.check(has, 'R02.4', f, "%s: n_slots passed to the per-node search "
                  "depends on td['ranks_per_node']" % K.name,
                  construct='%s:ranks_per_node' % K.name,
                  message="%s.schedule_task never bounds the slots searched "
                  "per node by td['ranks_per_node']: the limit is ignored"
                  % K.name, loc=f.loc(find_call),
                  history='task with ranks=4, ranks_per_node=1 on nodes with '
                  '4 free cores: all 4 ranks are placed on one node')
        # the slot dict
        ff, fg, fd, nodevar, res, appends = find_resources_info(prog, K)
        if ff.nested:
            # the slot may be built by a local closure (`slot = _new_slot()`)
            flat = flat_closures(prog, ff)
            if flat is not ff:
                ff, fd = flat, Deps(flat.node)
        dd = None
        for n in walk(ff.node):
            if isinstance(n, ast.Dict):
                keys = [k.value for k in n.keys if isinstance(k, ast.Constant)]
                if 'node_index' in keys and 'cores' in keys:
                    dd = n
        if dd is None:
            raise AnalysisError('UNRECOGNISED-IDIOM %s: slot dict literal not '
                                'found' % ff.where)
        want = {'node_name': "%s['name']" % nodevar,
                'node_index': "%s['index']" % nodevar,
                'lfs': 'lfs_per_slot', 'mem': 'mem_per_slot'}
        for k, v in zip(dd.keys, dd.values):
            if isinstance(k, ast.Constant) and k.value in want:
                dep = fd.expr_depends(v)
                others = {w for kk, w in want.items() if kk != k.value}
                ok = want[k.value] in dep and not (others & dep)
                rep.check(ok, 'R02.7', ff, "%s: slot[%r] is fed by %s"
                          % (K.name, k.value, want[k.value]),
                          construct='%s:slot:%s' % (K.name, k.value),
                          message="%s: slot[%r] is not fed by %s (depends on "
                          "%s)" % (K.name, k.value, want[k.value],
                                   sorted(x for x in dep if x in
                                          set(want.values()))),
                          loc=ff.loc(dd),
                          history='the placement names a different node or a '
                          'different lfs/mem amount than the one searched')


# ------------------------------------------------------------------------------
# R02.5  colocate
#
def r02_5(prog, rep, rid='R02.5'):
    rep.rule(rid, 'a task whose colocate tag is in the history is searched '
             'only on nodes recorded for the tag; the history is written only '
             'after a complete placement', minimum=4)
    base, classes = sched_classes(prog)
    for K in classes:
        f, g, smap, rem, alc, X, dec, ext, find_call = sched_info(prog, K)
        d = Deps(f.node)
        F = smap[id(find_call)]
        known, member, other = history_tests(g, F)
        if not known:
            raise AnalysisError('UNRECOGNISED-IDIOM %s: no test in the node '
                                'loop asks whether the colocate tag is in '
                                'self._colo_history' % f.where)
        nodevars = set()
        for h in F.loops:
            if g.nodes[h].kind == 'for':
                nodevars |= set(stores_in_target(g.nodes[h].ast.target))
        for kn, klab, ktag in known:
            starts = [e.dst for e in g.succ[kn.id] if e.label == klab]
            # only a test of the history entry of THIS tag counts
            mine = [(m, lab) for m, lab, left, mtag in member
                    if _same_value(g, ktag, kn.id, mtag, m.id)]
            allowed = [(m.id, lab) for m, lab in mine]
            r = set()
            for s in starts:
                r |= g.reachable(s, skip_edges=allowed, no_back=True)
            why = 'membership test missing or with the wrong polarity'
            seen = [n for n in other if n.id in r] + \
                   [m for m, lab, left, mtag in member
                    if m.id in r and (m, lab) not in mine]
            if not mine and seen:
                why = 'on the way the node is only looked up in %s, not in ' \
                      'the history entry of the tag, self._colo_history[%s]' \
                      % (', '.join(sorted({'`%s`' % short(
                          n.ast.comparators[0], 40) for n in seen})),
                         unparse(ktag))
            rep.check(F.id not in r, rid, f,
                      '%s: with the tag in the history the node is searched '
                      'only if its index is recorded for the tag' % K.name,
                      construct='%s:colo-skip' % K.name,
                      message='%s: a node not recorded for a known colocate '
                      'tag can reach the per-node search (%s)' % (K.name, why),
                      loc=f.loc(kn.ast),
                      history='3 nodes of 2 cores; A (tag t1, 2 cores) fills '
                      'node 0, B (tag t2, 2 cores) runs on node 1 and is '
                      'released, C (tag t1, 2 cores) arrives while node 0 is '
                      'full: C is placed on node 1 although t1 was used on '
                      'node 0 only')
        for m, lab, left, mtag in member:
            dep = d.expr_depends(m.ast.left)
            idx_ok = any("%s['index']" % v in dep or v in dep
                         for v in nodevars)
            rep.check(idx_ok, rid, f, '%s: the membership test is on the '
                      "node's index" % K.name, construct='%s:colo-index'
                      % K.name, message='%s: the colocate membership test `%s` '
                      'does not test the index of the node under '
                      'consideration' % (K.name, short(m.ast, 60)),
                      loc=f.loc(m.ast))
        # history writes that record the allocation
        for kind, target, stmt in I.stores(f.node):
            if kind != 'assign' or not unparse(target).startswith(
                    'self._colo_history['):
                continue
            if alc not in d.expr_depends(stmt.value):
                continue
            n = smap[id(stmt)]
            okw = bool(set(guards(g, n.id)) & set(zero_tests(g, rem)))
            rep.check(okw, rid, f, '%s: the tag history is recorded only after '
                      'the placement is complete' % K.name, construct=stmt,
                      message='%s: the colocate history is written from a '
                      'placement that may be incomplete (not guarded by '
                      '%s == 0)' % (K.name, rem), loc=f.loc(stmt),
                      history='a tagged task that does not fit records the '
                      'nodes of its partial search; the next task with the '
                      'tag is pinned to them')


# ------------------------------------------------------------------------------
# R02.9  what is subtracted from the remaining counter is the number of slots
#        that were collected
#
def origin(g, name, at, depth=0):
    """definition sites (cfg node ids) of the value the plain name `name`
    holds at cfg node `at`; plain copies `y = x` are followed.  A name without
    a reaching definition (parameter, global) is its own origin."""
    defs = reaching_defs(g, name, at)
    if not defs:
        return {'free:' + name}
    out = set()
    for n, v in defs:
        if isinstance(v, ast.Name) and depth < 6:
            out |= origin(g, v.id, n.id, depth + 1)
        else:
            out.add(n.id)
    return out


def _hoisted(g, expr, at, depth=0):
    """(expr', node id where it is evaluated): a plain name with exactly one
    reaching definition `k = <expr'>` is replaced by that expression"""
    while isinstance(expr, ast.Name) and depth < 6:
        defs = reaching_defs(g, expr.id, at)
        if len(defs) != 1 or defs[0][1] is None:
            break
        at, expr = defs[0][0].id, defs[0][1]
        depth += 1
    return expr, at


def r02_9(prog, rep, rid='R02.9'):
    rep.rule(rid, 'schedule_task: the amount subtracted from the remaining '
             'counter is the length of exactly the list that extends the '
             'allocation', minimum=2)
    base, classes = sched_classes(prog)
    for K in classes:
        f, g, smap, rem, alc, X, dec, ext, find_call = sched_info(prog, K)
        if alc is None:
            continue                        # reported by R02.2
        nd, ne = smap[id(dec)], smap[id(ext)]
        amount = _decrement(dec)[1]
        what = '%s: `%s` subtracts the length of the list collected by `%s`' \
            % (K.name, short(dec, 50), short(ext, 50))
        hist = ('3 nodes x 8 cores; a 1-rank x 6-core task occupies node 0; '
                'then an MPI task of 4 ranks x 2 cores: node 0 (first node, '
                'partial) is asked for 4 slots and finds 1 - if the counter '
                'does not drop by exactly 1 the task is granted a placement '
                'with a different number of slots than ranks')
        e, at = _hoisted(g, amount, nd.id)
        ox = origin(g, X, ne.id)
        if isinstance(e, ast.Call) and dotted(e.func) == 'len' and \
                len(e.args) == 1 and isinstance(e.args[0], ast.Name):
            Y = e.args[0].id
            oy = origin(g, Y, at)
            if oy == ox:
                # evaluated elsewhere (hoisted): the list must not change in
                # between
                if at != nd.id:
                    for kind, target, node in I.stores(f.node):
                        if kind == 'mutate' and isinstance(target, ast.Name) \
                                and target.id in (X, Y):
                            raise AnalysisError(
                                'UNRECOGNISED-IDIOM %s: %s is mutated and its '
                                'length is taken at a different place than '
                                'the decrement' % (f.where, target.id))
                rep.ok(rid, f, what, f.loc(dec))
                continue
            # another list: does it derive from the collected one (a copy)?
            derived = False
            for o in oy:
                if isinstance(o, int):
                    reads = {x.id for x in walk(g.nodes[o].ast)
                             if isinstance(x, ast.Name) and
                             isinstance(x.ctx, ast.Load)}
                    if X in reads or Y == X:
                        derived = True
            if derived:
                raise AnalysisError(
                    'UNRECOGNISED-IDIOM %s: `%s` counts %s which derives '
                    'from the collected list %s in a way the rule does not '
                    'know' % (f.where, short(dec, 50), Y, X))
            rep.bad(rid, f, '%s:counted-is-collected' % K.name,
                    '%s.schedule_task: `%s` counts the list %s, but the slots '
                    'collected for the task come from %s (`%s`): the '
                    'remaining-rank counter and the placement diverge, the '
                    'task is granted a different number of slots than ranks'
                    % (K.name, short(dec, 60), Y, X, short(ext, 60)),
                    f.loc(dec), history=hist)
            continue
        # not a length: an amount that does not depend on what was found is
        # wrong whenever the node offers fewer slots than it was asked for
        d = Deps(f.node, implicit=False)
        dep = d.expr_depends(e) | d.expr_depends(amount)
        found = {X, 'ret:self._find_resources'}
        if alc in dep or found & dep:
            raise AnalysisError(
                'UNRECOGNISED-IDIOM %s: the amount in `%s` depends on the '
                'found slots but is not the length of the collected list'
                % (f.where, short(dec, 60)))
        rep.bad(rid, f, '%s:counted-is-collected' % K.name,
                '%s.schedule_task: `%s` subtracts `%s`, which does not depend '
                'on what the per-node search found, while `%s` collects the '
                'found list: when a (partial) node yields fewer slots than it '
                'was asked for, the remaining-rank counter reaches zero with '
                'too few slots collected and the short placement is granted'
                % (K.name, short(dec, 60), short(e, 50), short(ext, 60)),
                f.loc(dec), history=hist)


# ------------------------------------------------------------------------------
# R02.6  the per-node colocate filter and the recording of the tag history
#        agree on which tag values count as "a tag"
#
# Abstract value of the tag variable (and of the names copied into it):
#   None | '' (the empty string) | falsy (0, False, 0.0, empty container) |
#   truthy | ? (nothing known: every test on it may go both ways)
_TN, _TE, _TZ, _TT, _TU = 'None', "''", 'falsy', 'truthy', '?'
_TAGS   = (_TE, _TZ, _TT)                  # values that are tags (non-None)
_STR_OF = {_TN: _TT, _TE: _TE, _TZ: _TT, _TT: _TT, _TU: _TU}
_SAMPLE = {_TE: "''", _TZ: '0', _TT: "'t'"}


def _cls_const(v):
    if v is None:
        return _TN
    if isinstance(v, str) and v == '':
        return _TE
    try:
        return _TT if v else _TZ
    except Exception:                                           # noqa
        return _TU


def _is_str(e):
    if isinstance(e, ast.Constant):
        return isinstance(e.value, str)
    if isinstance(e, ast.JoinedStr):
        return True
    if isinstance(e, ast.Call):
        return dotted(e.func) == 'str'
    if isinstance(e, ast.BinOp) and isinstance(e.op, ast.Mod):
        return _is_str(e.left)
    if isinstance(e, ast.BinOp) and isinstance(e.op, ast.Add):
        return _is_str(e.left) or _is_str(e.right)
    if isinstance(e, ast.IfExp):
        return _is_str(e.body) and _is_str(e.orelse)
    return False


class TagDomain:

    def __init__(self, f, family):
        self.f = f
        self.family = family
        self.d = Deps(f.node)
        self.inputs = [p for p in f.params if p != 'self']

    def is_input(self, e):
        """a lookup in (a part of) what the caller handed in: the value is
        free - any class"""
        recv = None
        if isinstance(e, ast.Call) and isinstance(e.func, ast.Attribute) and \
                e.func.attr == 'get' and e.args:
            recv = e.func.value       # (a default only adds to a free value)
        elif isinstance(e, ast.Subscript) and isinstance(e.ctx, ast.Load):
            recv = e.value
        if recv is None:
            return False
        dep = self.d.expr_depends(recv)
        return any(p in dep for p in self.inputs)

    def ev(self, e, env):
        """set of abstract values of expression e"""
        if isinstance(e, ast.Constant):
            return {_cls_const(e.value)}
        if isinstance(e, ast.Name):
            return {env.get(e.id, _TU)}
        if isinstance(e, ast.Call) and dotted(e.func) == 'str' and \
                len(e.args) == 1 and not e.keywords:
            return {_STR_OF[c] for c in self.ev(e.args[0], env)}
        if isinstance(e, ast.IfExp):
            out = set()
            t = self.truth(e.test, env)
            if True in t:
                out |= self.ev(e.body, env)
            if False in t:
                out |= self.ev(e.orelse, env)
            return out
        if isinstance(e, ast.BoolOp):
            out = set()
            for i, v in enumerate(e.values):
                last = i == len(e.values) - 1
                vs = self.ev(v, env)
                if last:
                    out |= vs
                    break
                go_on = False
                for c in vs:
                    stops = (c == _TT) if isinstance(e.op, ast.Or) else \
                        (c in (_TN, _TE, _TZ))
                    if c == _TU:
                        out.add(_TU)
                        go_on = True
                    elif stops:
                        out.add(c)
                    else:
                        go_on = True
                if not go_on:
                    break
            return out
        if isinstance(e, ast.JoinedStr):
            if any(isinstance(v, ast.Constant) and v.value for v in e.values):
                return {_TT}
            return {_TU}
        if isinstance(e, ast.BinOp) and isinstance(e.op, ast.Mod) and \
                isinstance(e.left, ast.Constant) and \
                isinstance(e.left.value, str):
            rest = re.sub(r'%(\([^)]*\))?[-#0 +]*\d*(\.\d+)?[a-zA-Z]', '',
                          e.left.value.replace('%%', 'x'))
            return {_TT} if rest else {_TU}
        if isinstance(e, ast.BinOp) and isinstance(e.op, ast.Add) and \
                _is_str(e):
            out = set()
            for a in self.ev(e.left, env):
                for b in self.ev(e.right, env):
                    if _TT in (a, b):
                        out.add(_TT)
                    elif a == _TE and b == _TE:
                        out.add(_TE)
                    else:
                        out.add(_TU)
            return out
        if self.is_input(e):
            return {_TN, _TE, _TZ, _TT}
        return {_TU}

    def truth(self, e, env):
        """set of truth values the test e may have"""
        both = {True, False}
        if isinstance(e, ast.UnaryOp) and isinstance(e.op, ast.Not):
            return {not t for t in self.truth(e.operand, env)}
        if isinstance(e, ast.BoolOp):
            out = set()
            is_and = isinstance(e.op, ast.And)
            for i, v in enumerate(e.values):
                t = self.truth(v, env)
                last = i == len(e.values) - 1
                if last:
                    out |= t
                    break
                if is_and:
                    if False in t:
                        out.add(False)
                    if True not in t:
                        break
                else:
                    if True in t:
                        out.add(True)
                    if False not in t:
                        break
            return out
        if isinstance(e, ast.Call) and dotted(e.func) == 'bool' and \
                len(e.args) == 1 and not e.keywords:
            return self.truth(e.args[0], env)
        if isinstance(e, ast.Call) and dotted(e.func) == 'isinstance' and \
                len(e.args) == 2 and isinstance(e.args[0], ast.Name) and \
                e.args[0].id in env and unparse(e.args[1]) == 'str':
            c = env[e.args[0].id]
            return {_TN: {False}, _TE: {True}, _TZ: {False}}.get(c, both)
        if isinstance(e, (ast.Name, ast.Constant)):
            out = set()
            for c in self.ev(e, env):
                out |= both if c == _TU else {c == _TT}
            return out
        if isinstance(e, ast.Compare) and len(e.ops) == 1:
            op, l, r = e.ops[0], e.left, e.comparators[0]
            if isinstance(l, ast.Constant) and not isinstance(r, ast.Constant):
                l, r = r, l
            if isinstance(r, ast.Constant) and isinstance(l, ast.Name) and \
                    l.id in env and \
                    isinstance(op, (ast.Is, ast.IsNot, ast.Eq, ast.NotEq)):
                k = _cls_const(r.value)
                if isinstance(op, (ast.Is, ast.IsNot)) and k != _TN:
                    return both
                c = env[l.id]
                if c == _TU or k == _TU:
                    return both
                if c != k:
                    eq = {False}
                elif c in (_TN, _TE):
                    eq = {True}           # one value in the class
                else:
                    eq = both
                if isinstance(op, (ast.IsNot, ast.NotEq)):
                    eq = {not x for x in eq}
                return eq
        return both


def _carriers(e):
    """names whose abstract value flows into the value of e"""
    if isinstance(e, ast.Name):
        return {e.id}
    if isinstance(e, ast.Call) and dotted(e.func) == 'str' and \
            len(e.args) == 1:
        return _carriers(e.args[0])
    if isinstance(e, ast.IfExp):
        return _carriers(e.body) | _carriers(e.orelse)
    if isinstance(e, ast.BoolOp):
        out = set()
        for v in e.values:
            out |= _carriers(v)
        return out
    return set()


def tag_states(f, g, dom):
    """forward exploration of (cfg node, abstract values of the family):
    returns (reachable states, successor function)"""
    fam = dom.family
    cache = {}

    def bind(env, names, cls):
        env = dict(env)
        for n in names:
            if n in env:
                env[n] = cls
        return env

    def succ(state):
        if state in cache:
            return cache[state]
        nid, vals = state
        env = dict(zip(fam, vals))
        n = g.nodes[nid]
        after = [env]
        labels = None
        a = n.ast
        if n.kind == 'test':
            t = dom.truth(a, env)
            labels = {'T' if x else 'F' for x in t}
        elif n.kind == 'stmt' and isinstance(a, (ast.Assign, ast.AnnAssign)) \
                and getattr(a, 'value', None) is not None:
            tg = a.targets if isinstance(a, ast.Assign) else [a.target]
            if len(tg) == 1 and isinstance(tg[0], ast.Name):
                if tg[0].id in env:
                    after = [bind(env, [tg[0].id], c)
                             for c in sorted(dom.ev(a.value, env))]
            else:
                names = []
                for t in tg:
                    names += stores_in_target(t)
                after = [bind(env, names, _TU)]
        elif n.kind == 'stmt' and isinstance(a, ast.AugAssign):
            after = [bind(env, stores_in_target(a.target), _TU)]
        elif n.kind == 'for':
            after = [bind(env, stores_in_target(a.target), _TU)]
        elif n.kind == 'with':
            names = []
            for it in a.items:
                if it.optional_vars is not None:
                    names += stores_in_target(it.optional_vars)
            after = [bind(env, names, _TU)]
        elif n.kind == 'handler' and getattr(a, 'name', None):
            after = [bind(env, [a.name], _TU)]
        out = set()
        for e in g.succ[nid]:
            if labels is not None and e.label in ('T', 'F') and \
                    e.label not in labels:
                continue
            for env2 in ([env] if e.label == 'exc' else after):
                out.add((e.dst, tuple(env2[x] for x in fam)))
        cache[state] = out
        return out

    def closure(starts):
        seen = set(starts)
        todo = list(starts)
        while todo:
            s = todo.pop()
            for t in succ(s):
                if t not in seen:
                    seen.add(t)
                    todo.append(t)
                    if len(seen) > 200000:
                        raise AnalysisError('tag exploration of %s exceeds '
                                            '200000 states' % f.where)
        return seen

    init = (g.entry.id, tuple(_TU for _ in fam))
    return closure([init]), closure


def colo_sites(prog, K):
    """the colocate filter tests in the node loop and the history writes that
    record a placement"""
    f, g, smap, rem, alc, X, dec, ext, find_call = sched_info(prog, K)
    F = smap[id(find_call)]
    known = [(n, tag) for n, lab, tag in history_tests(g, F)[0]]
    d = Deps(f.node)
    writes = []
    for kind, target, stmt in I.stores(f.node):
        if kind != 'assign' or not unparse(target).startswith(
                'self._colo_history['):
            continue
        if alc is None or alc not in d.expr_depends(stmt.value):
            continue
        writes.append((smap[id(stmt)], target))
    return f, g, F, known, writes


def r02_6(prog, rep, rid='R02.6'):
    rep.rule(rid, 'schedule_task: every colocate tag value which the per-node '
             'filter treats as a tag can have its nodes recorded in the tag '
             'history, and every value recorded is one the filter treats as a '
             'tag (None / empty string / other falsy / truthy values of the '
             'tag variable, followed through its normalisation)', minimum=4)
    base, classes = sched_classes(prog)
    for K in classes:
        f, g, F, known, writes = colo_sites(prog, K)
        if not known or not writes:
            raise AnalysisError('UNRECOGNISED-IDIOM %s: colocate filter test '
                                '(`tag in self._colo_history` in the node '
                                'loop) or the recording history write not '
                                'found' % f.where)
        tags = {unparse(tag) for n, tag in known} | \
               {unparse(t.slice) for w, t in writes}
        if len(tags) != 1 or not all(isinstance(tag, ast.Name)
                                     for n, tag in known):
            raise AnalysisError('UNRECOGNISED-IDIOM %s: the colocate filter '
                                'and the history write do not use one local '
                                'name as the tag (%s)' % (f.where,
                                                          sorted(tags)))
        T = tags.pop()
        for n in walk(f.node):
            if isinstance(n, ast.NamedExpr):
                raise AnalysisError('UNRECOGNISED-IDIOM %s: assignment '
                                    'expression' % f.where)
        # names copied into the tag
        family = [T]
        grew = True
        while grew:
            grew = False
            for n in walk(f.node):
                if isinstance(n, ast.Assign) and len(n.targets) == 1 and \
                        isinstance(n.targets[0], ast.Name) and \
                        n.targets[0].id in family:
                    for c in sorted(_carriers(n.value)):
                        if c not in family and c != 'self':
                            family.append(c)
                            grew = True
        if len(family) > 4:
            raise AnalysisError('UNRECOGNISED-IDIOM %s: the colocate tag is '
                                'derived through more than 3 other locals'
                                % f.where)
        dom = TagDomain(f, family)
        states, closure = tag_states(f, g, dom)
        kids = {n.id for n, tag in known}
        wids = {w.id for w, t in writes}
        kstates = [s for s in states if s[0] in kids]
        wstates = [s for s in states if s[0] in wids]
        wast = writes[0][0].ast
        kast = known[0][0].ast
        # (A) filtered as a tag => can be recorded
        for c in _TAGS:
            ks = [s for s in kstates if s[1][0] == c]
            if not ks:
                continue
            okA = True
            for s in ks:
                if not any(t[0] in wids for t in closure([s])):
                    okA = False
            rep.check(okA, rid, f, '%s: a tag value of class %s reaches the '
                      'filter `%s` and can reach the recording `%s`'
                      % (K.name, c, short(kast, 40), short(wast, 40)),
                      construct='%s:tag-guards:filtered-not-recorded:%s'
                      % (K.name, c),
                      message='%s.schedule_task: a colocate tag whose value '
                      'is %s (e.g. %s) is treated as a tag by the per-node '
                      'filter (`%s` is evaluated for it) but the guards of '
                      '`%s` exclude it, so the nodes of the placement are '
                      'never recorded for the tag: the test on the tag at the '
                      'filter, at its normalisation and at the recording '
                      'site do not agree (None-test vs truth test), and the '
                      'next task with the same tag is not restricted to the '
                      'nodes of the first'
                      % (K.name, c, _SAMPLE[c], short(kast, 50),
                         short(wast, 50)),
                      loc=f.loc(wast),
                      history="tags={'colocate': %s}: task A is placed on "
                      'node 0, nothing is recorded; other tasks fill node 0 '
                      'and move the node cursor to node 1; A completes; task '
                      'B with the same tag is placed on node 1 instead of '
                      'node 0' % _SAMPLE[c])
        # (B) recorded => filtered as a tag
        after_known = closure(kstates) if kstates else set()
        for c in _TAGS:
            ws = [s for s in wstates if s[1][0] == c]
            if not ws:
                continue
            okB = all(s in after_known for s in ws)
            rep.check(okB, rid, f, '%s: a tag value of class %s which is '
                      'recorded by `%s` is one the filter `%s` is evaluated '
                      'for' % (K.name, c, short(wast, 40), short(kast, 40)),
                      construct='%s:tag-guards:recorded-not-filtered:%s'
                      % (K.name, c),
                      message='%s.schedule_task: a colocate tag whose value '
                      'is %s (e.g. %s) has its nodes recorded in the history '
                      '(`%s`) but the per-node filter never consults the '
                      'history for it (`%s` is not evaluated: the guard '
                      'around it excludes this value): a later task with the '
                      'same tag is placed on any node'
                      % (K.name, c, _SAMPLE[c], short(wast, 50),
                         short(kast, 50)),
                      loc=f.loc(kast),
                      history="tags={'colocate': %s}: task A is placed on "
                      'node 0 and recorded; the node cursor moves on; task B '
                      'with the same tag skips the filter and is placed on '
                      'node 1' % _SAMPLE[c])
        rep.stat('tag_states', len(states))


# ------------------------------------------------------------------------------
# R02.10  who may place a task.  Every argument of this property about the
# shape of a placement (R02.1 .. R02.9) is made about what
# `schedule_task(task)` returns for the description of THAT task.  The value
# stored as `task['slots']` therefore is the result of `self.schedule_task`
# called with this very task, or the slots the task's own description
# supplies (application-side placement) - never the placement of another
# task.
#
_SLOTS = 'slots'
_COPIES = ('copy.deepcopy', 'copy.copy', 'deepcopy', 'list', 'ru.as_list')


def _key_read(e, key):
    """base expression B of `B['key']` / `B.get('key'[, default])`"""
    if isinstance(e, ast.Subscript) and isinstance(e.slice, ast.Constant) \
            and e.slice.value == key:
        return e.value
    if isinstance(e, ast.Call) and isinstance(e.func, ast.Attribute) and \
            e.func.attr == 'get' and e.args and \
            isinstance(e.args[0], ast.Constant) and e.args[0].value == key:
        return e.func.value
    return None


def slots_stores(f, smap):
    """[(task expr, value expr or None, ast node of the store)]: writes of
    the entry 'slots' of a dict"""
    out = []
    for n in walk(f.node):
        if isinstance(n, ast.Assign):
            for t in n.targets:
                flat = list(I._flat(t))
                for e in flat:
                    if isinstance(e, ast.Subscript) and \
                            isinstance(e.slice, ast.Constant) and \
                            e.slice.value == _SLOTS:
                        out.append((e.value, n.value if len(flat) == 1 and
                                    e is t else None, n))
        elif isinstance(n, (ast.AugAssign, ast.AnnAssign)):
            e = n.target
            if isinstance(e, ast.Subscript) and \
                    isinstance(e.slice, ast.Constant) and \
                    e.slice.value == _SLOTS:
                out.append((e.value, n.value if isinstance(n, ast.AnnAssign)
                            else None, n))
        elif isinstance(n, ast.Call) and isinstance(n.func, ast.Attribute) \
                and n.func.attr in ('update', 'setdefault'):
            if n.func.attr == 'setdefault':
                if len(n.args) == 2 and isinstance(n.args[0], ast.Constant) \
                        and n.args[0].value == _SLOTS:
                    out.append((n.func.value, n.args[1], n))
                continue
            for a in n.args:
                if isinstance(a, ast.Dict):
                    for k, v in zip(a.keys, a.values):
                        if isinstance(k, ast.Constant) and k.value == _SLOTS:
                            out.append((n.func.value, v, n))
            for kw in n.keywords:
                if kw.arg == _SLOTS:
                    out.append((n.func.value, kw.value, n))
    return [(t, v, n) for t, v, n in out if id(n) in smap]


def _same_binding(g, expr, at1, at2):
    """the plain names `expr` reads hold the same values at both cfg nodes
    (same reaching definitions)"""
    for x in walk(expr):
        if isinstance(x, ast.Name) and x.id != 'self':
            if origin(g, x.id, at1) != origin(g, x.id, at2):
                return False
    return True


def slots_source(g, T, V, at, depth=0):
    """where the value V stored as T['slots'] at cfg node `at` comes from:
    ('grant', call) result of self.schedule_task(T); ('own', expr) the slots
    of T's own description (or of T itself); ('other', expr) the slots entry
    of something else; ('none', V) no placement (None / empty);
    None = not recognised"""
    tt = unparse(T)
    if V is None or depth > 8:
        return None
    if (isinstance(V, ast.Constant) and V.value is None) or _empty_list(V) \
            or (isinstance(V, (ast.Dict, ast.Tuple)) and
                not getattr(V, 'elts', getattr(V, 'keys', None))):
        return 'none', V

    def grant(call, where):
        if call_name(call) == 'self.schedule_task' and call.args:
            if unparse(call.args[0]) == tt and \
                    _same_binding(g, T, where, at.id):
                return 'grant', call
            return 'other', call
        return None

    if isinstance(V, ast.Call) and dotted(V.func) in _COPIES and \
            len(V.args) == 1:
        return slots_source(g, T, V.args[0], at, depth + 1)
    if isinstance(V, ast.Subscript) and isinstance(V.slice, ast.Constant) \
            and V.slice.value == 0 and not isinstance(V.slice.value, bool):
        # first element of the (slots, partition) pair
        pair, where = _hoisted(g, V.value, at.id)
        if isinstance(pair, ast.Call):
            return grant(pair, where)
        return None
    B = _key_read(V, _SLOTS)
    if B is not None:
        if unparse(B) == tt:
            return 'own', V
        D = _key_read(B, 'description')
        if D is None and isinstance(B, ast.Name):
            defs = reaching_defs(g, B.id, at.id)
            ds = [_key_read(v, 'description') if v is not None else None
                  for n, v in defs]
            if defs and all(x is not None and unparse(x) == tt and
                            _same_binding(g, T, n.id, at.id)
                            for x, (n, v) in zip(ds, defs)):
                return 'own', V
            return 'other', V
        if D is not None and unparse(D) == tt:
            return 'own', V
        return 'other', V
    if isinstance(V, ast.Name):
        defs = reaching_defs(g, V.id, at.id)
        if not defs:
            return None
        got = []
        for n, v in defs:
            if v is not None:
                got.append(slots_source(g, T, v, n, depth + 1))
                continue
            a = n.ast
            r = None
            if n.kind == 'stmt' and isinstance(a, ast.Assign) and \
                    len(a.targets) == 1 and \
                    isinstance(a.targets[0], (ast.Tuple, ast.List)) and \
                    isinstance(a.value, ast.Call):
                el = a.targets[0].elts
                if el and isinstance(el[0], ast.Name) and el[0].id == V.id:
                    r = grant(a.value, n.id)
            got.append(r)
        for r in got:
            if r and r[0] == 'other':
                return r
        if any(r is None for r in got):
            return None
        real = [r for r in got if r[0] != 'none']
        return real[0] if real else got[0]
    # anything else: does it read the slots of something that is not T?
    for x in walk(V):
        B = _key_read(x, _SLOTS)
        if B is not None:
            r = slots_source(g, T, x, at, depth + 1)
            if r and r[0] == 'other':
                return r
    return None


def r02_10(prog, rep, rid='R02.10'):
    rep.rule(rid, "what is stored as a task's slots is the result of "
             'self.schedule_task for that task or the slots of its own '
             'description - never the placement of another task', minimum=2)
    base, classes = sched_classes(prog)
    for K in [base] + classes:
        for mname, f in sorted(K.methods.items()):
            if not any(isinstance(x, ast.Constant) and x.value == _SLOTS
                       for x in walk(f.node)):
                continue
            g = cfg_of(f)
            smap = I.stmt_node_map(g)
            for T, V, stmt in slots_stores(f, smap):
                at = smap.get(id(stmt)) or smap.get(id(T))
                if at is None:
                    continue
                rep.saw(f)
                src = slots_source(g, T, V, at)
                tt = unparse(T)
                if src is None:
                    raise AnalysisError(
                        'UNRECOGNISED-IDIOM %s: the value stored as '
                        "%s['slots'] (`%s`) is neither the result of "
                        'self.schedule_task(%s) nor a slots entry the '
                        'recogniser can follow' % (f.where, tt,
                                                   short(stmt, 60), tt))
                kind, what = src
                if kind != 'other':
                    rep.ok(rid, f, "%s['slots'] is %s" % (tt, {
                        'grant': 'the result of self.schedule_task(%s)' % tt,
                        'own': "the slots of the task's own description "
                               '(%s)' % short(what, 40),
                        'none': 'reset (%s)' % short(what, 20)}[kind]),
                        f.loc(stmt))
                    continue
                rep.bad(rid, f, stmt,
                        "%s stores `%s` as %s['slots']: the placement of a "
                        'task must be what self.schedule_task returned for '
                        'that very task (through _try_allocation) or the '
                        'slots its own description supplies.  A placement '
                        'taken over from somewhere else was computed for '
                        'another description: ranks_per_node, lfs and mem '
                        'per rank and the colocate tag of this task were '
                        'never looked at (R02.4, R02.5, R02.7 hold for '
                        'schedule_task only)' % (f.qual, short(what, 50), tt),
                        f.loc(stmt),
                        history='the pilot is full; running task A (4 ranks '
                        'x 1 core) and waiting task B (4 ranks x 1 core, '
                        'ranks_per_node=2, mem_per_rank=512) agree on ranks/'
                        'cores/gpus; A completes and its slots are stored as '
                        "B's: B runs with 4 ranks on one node and mem 0")


# ------------------------------------------------------------------------------
# R02.12  "granted" means placed.  The callers of _try_allocation take a true
# result as "the task has its placement" and push it to the executor.  The
# per-rank limits of schedule_task reject a request by raising: whatever
# happens in _try_allocation, a true result is returned only past the store
# of the non-empty result of schedule_task as the slots of the task.
#
def _nonempty_edge(test, name):
    """label of the out-edge of test expression `test` taken when the list
    held by the plain name `name` is not empty / not None; None if the test
    is not a test of that"""
    a = test
    if isinstance(a, ast.Name) and a.id == name:
        return 'T'
    if isinstance(a, ast.UnaryOp) and isinstance(a.op, ast.Not):
        lab = _nonempty_edge(a.operand, name)
        return {'T': 'F', 'F': 'T'}.get(lab)
    if isinstance(a, ast.Compare) and len(a.ops) == 1:
        l, r, op = a.left, a.comparators[0], a.ops[0]
        if isinstance(l, ast.Name) and l.id == name and \
                isinstance(r, ast.Constant) and r.value is None:
            if isinstance(op, (ast.Is, ast.Eq)):
                return 'F'
            if isinstance(op, (ast.IsNot, ast.NotEq)):
                return 'T'
        if _len_of(l) == name and isinstance(r, ast.Constant) and \
                r.value == 0 and not isinstance(r.value, bool):
            return {ast.Gt: 'T', ast.NotEq: 'T', ast.Eq: 'F',
                    ast.LtE: 'F'}.get(type(op))
    return None


def r02_12(prog, rep, rid='R02.12'):
    rep.rule(rid, '_try_allocation returns a true value ("granted") only on '
             'paths that stored the non-empty result of schedule_task for '
             "this task as task['slots']: a request which schedule_task "
             'rejects by raising (per-rank limits) or answers with no slots '
             'is never reported as granted', minimum=2)
    base, classes = sched_classes(prog)
    todo = []
    for K in [base] + prog.subclasses(base):
        f = K.methods.get('_try_allocation')
        if f is not None and f not in todo:
            todo.append(f)
    if not todo:
        raise AnalysisError('_try_allocation not found in %s' % base.name)
    for f in todo:
        rep.saw(f)
        g = cfg_of(f)
        smap = I.stmt_node_map(g)
        params = [x for x in f.params if x != 'self']
        if not params:
            raise AnalysisError('UNRECOGNISED-IDIOM %s: no task parameter'
                                % f.where)
        task = params[0]
        grants = []
        for T, V, stmt in slots_stores(f, smap):
            at = smap.get(id(stmt)) or smap.get(id(T))
            if at is None or unparse(T) != task:
                continue
            src = slots_source(g, T, V, at)
            if src and src[0] == 'grant':
                grants.append((at, V))
        if not grants:
            raise AnalysisError('UNRECOGNISED-IDIOM %s: the result of '
                                'self.schedule_task(%s) is not stored as '
                                "%s['slots'] here" % (f.where, task, task))
        cut = [e for at, V in grants for e in g.succ[at.id]
               if e.label != 'exc']
        # the tests of the stored value
        nonempty, reads = [], False
        for at, V in grants:
            if not isinstance(V, ast.Name):
                raise AnalysisError('UNRECOGNISED-IDIOM %s: the placement is '
                                    'stored from an expression (`%s`), not '
                                    'from a local' % (f.where, short(V, 40)))
            for n in g.nodes:
                if n.kind != 'test' or n.ast is None:
                    continue
                if not any(isinstance(x, ast.Name) and x.id == V.id
                           for x in walk(n.ast)):
                    continue
                if origin(g, V.id, n.id) != origin(g, V.id, at.id):
                    continue
                reads = True
                lab = _nonempty_edge(n.ast, V.id)
                if lab:
                    nonempty.append((n.id, lab))
        if reads and not nonempty:
            raise AnalysisError('UNRECOGNISED-IDIOM %s: the placement is '
                                'tested, but not by a truth / None / length '
                                'test the recogniser knows' % f.where)
        # where success is decided: `return <true constant>` or the
        # assignment of a true constant to the flag that is returned
        events, selfguard = [], set()
        for n in g.stmt_nodes():
            if n.kind != 'stmt' or not isinstance(n.ast, ast.Return):
                continue
            v = n.ast.value
            if v is None:
                continue
            if isinstance(v, ast.Constant):
                if v.value:
                    events.append((n, n))
                continue
            if isinstance(v, ast.Name):
                defs = reaching_defs(g, v.id, n.id)
                if defs and all(isinstance(x, ast.Constant) for d_, x in defs):
                    for d_, x in defs:
                        if x.value:
                            events.append((d_, n))
                    continue
            # the placement itself / its non-emptiness is what is returned
            # (`return bool(slots)`, `return len(slots) > 0`): a true value
            # exactly when the placement is not empty
            w = v.args[0] if isinstance(v, ast.Call) and \
                dotted(v.func) == 'bool' and len(v.args) == 1 else v
            vn = [V.id for at, V in grants if isinstance(V, ast.Name) and
                  origin(g, V.id, n.id) >= origin(g, V.id, at.id)]
            if vn and _nonempty_edge(w, vn[0]) == 'T':
                events.append((n, n))
                selfguard.add(n.id)
                continue
            raise AnalysisError('UNRECOGNISED-IDIOM %s: `%s` is neither a '
                                'constant nor a flag set from constants'
                                % (f.where, short(n.ast, 50)))
        if not events:
            raise AnalysisError('UNRECOGNISED-IDIOM %s: no path returns a '
                                'true value' % f.where)
        for ev, ret in events:
            r = g.reachable(g.entry.id, skip_edges=cut)
            missed = ev.id in r
            if missed and ev is not ret:
                # flag set before the store: the store must follow
                after = set()
                for e in g.succ[ev.id]:
                    if e.label != 'exc':
                        after |= g.reachable(e.dst, skip_edges=cut)
                missed = ret.id in after
            via = ''
            if missed:
                hs = [n for n in g.nodes if n.kind == 'handler' and
                      n.id in r and ev.id in g.reachable(n.id, skip_edges=cut)]
                if hs:
                    via = ' (through `%s`, which does not leave by raise / ' \
                          'return of a false value on every path)' % short(
                              hs[0].ast, 30).split(':')[0]
            rep.check(not missed, rid, f,
                      "%s: `%s` is reached only past the store of the result "
                      "of schedule_task as %s['slots']" % (f.qual,
                                                           short(ev.ast, 30),
                                                           task),
                      construct='%s:granted-without-placement' % f.qual,
                      message="%s reports the task as granted (`%s`) on a path "
                      "that never stored a placement as %s['slots']%s: what "
                      'schedule_task rejects by raising - the per-rank limit '
                      'asserts, "does not fit on a single node", "can never '
                      'be scheduled" - is pushed on for execution without '
                      'slots instead of being failed'
                      % (f.qual, short(ev.ast, 30), task, via),
                      loc=f.loc(ev.ast),
                      history='2 nodes x 4 cores: task B = 1 rank x 8 cores; '
                      "schedule_task raises AssertionError('too many threads "
                      "per proc'), _try_allocation returns True and "
                      '_schedule_incoming advances B to '
                      'AGENT_EXECUTING_PENDING with no slots instead of FAILED')
            if ev.id in selfguard:
                ok2 = True
            elif not reads:
                ok2 = False
            else:
                r2 = g.reachable(g.entry.id, skip_edges=nonempty)
                ok2 = ev.id not in r2
            rep.check(ok2, rid, f,
                      '%s: `%s` is reached only past a test that the '
                      'placement is not empty' % (f.qual, short(ev.ast, 30)),
                      construct='%s:granted-empty-placement' % f.qual,
                      message='%s reports the task as granted (`%s`) on a path '
                      'on which the result of schedule_task was not tested, or '
                      'was found empty: a task that has to wait is pushed on '
                      'for execution with no slots' % (f.qual,
                                                       short(ev.ast, 30)),
                      loc=f.loc(ev.ast),
                      history='pilot full, task A arrives: schedule_task '
                      'returns (None, None), _try_allocation returns True and '
                      'A is advanced to AGENT_EXECUTING_PENDING with '
                      "task['slots'] = None")


# ------------------------------------------------------------------------------
# R02.14  a placement the application supplies is looked up in the pilot
# before it is used.  The scheduler never searched for it: that each rank's
# node (and core / gpu index) exists is established by exactly one thing, the
# normal return of `_change_slot_states(<those slots>, BUSY)`, which walks
# self.nodes for every rank and raises for a node it does not find.  So
# between the store of the description's slots as the task's placement and
# the hand-on to the executor, every path leaves that call by its normal
# edge; the path through an exception handler must not reach the hand-on.
#
class _Assumed(dict):
    """flag values plus assumed truth values of sub expressions"""

    def __init__(self, known, assume):
        dict.__init__(self, known)
        self.assume = assume


def _const_flags(f):
    """plain locals of `f` that only ever hold constants (`ok = True` ..
    `ok = False`): every store is `<name> = <constant>`"""
    vals, other = {}, set(f.params)
    for x in ast.walk(f.node):
        if isinstance(x, ast.Assign) and len(x.targets) == 1 and \
                isinstance(x.targets[0], ast.Name) and \
                isinstance(x.value, ast.Constant):
            vals.setdefault(x.targets[0].id, []).append(x)
        elif isinstance(x, (ast.Global, ast.Nonlocal)):
            other |= set(x.names)
    ok = {id(a.targets[0]) for v in vals.values() for a in v}
    for x in ast.walk(f.node):
        if isinstance(x, ast.Name) and isinstance(x.ctx, (ast.Store, ast.Del)) \
                and id(x) not in ok:
            other.add(x.id)
        elif isinstance(x, ast.ExceptHandler) and x.name:
            other.add(x.name)
    return set(vals) - other


def _truth(e, known, assume=None):
    """three-valued truth of a test over the flags whose value is known;
    `assume`: {id(sub expression): truth value}"""
    if assume and id(e) in assume:
        return assume[id(e)]
    if assume:
        known = _Assumed(known, assume)
    if isinstance(e, ast.Constant):
        return bool(e.value)
    if isinstance(e, ast.Name):
        return bool(known[e.id]) if e.id in known else None
    if isinstance(e, ast.UnaryOp) and isinstance(e.op, ast.Not):
        v = _truth(e.operand, known, getattr(known, 'assume', None))
        return None if v is None else not v
    if isinstance(e, ast.BoolOp):
        vs = [_truth(x, known, getattr(known, 'assume', None))
              for x in e.values]
        if isinstance(e.op, ast.And):
            return False if False in vs else (None if None in vs else True)
        return True if True in vs else (None if None in vs else False)
    if isinstance(e, ast.Compare) and len(e.ops) == 1 and \
            isinstance(e.left, ast.Name) and e.left.id in known and \
            isinstance(e.comparators[0], ast.Constant):
        a, b, op = known[e.left.id], e.comparators[0].value, e.ops[0]
        if isinstance(op, ast.Is):
            return a is b
        if isinstance(op, ast.IsNot):
            return a is not b
        if isinstance(op, ast.Eq):
            return a == b
        if isinstance(op, ast.NotEq):
            return a != b
    return None


def flag_reachable(f, g, starts, skip_nodes=(), skip_edges=(), states=False):
    """cfg node ids reachable from `starts` like g.reachable, but with the
    constant-valued flags of `f` evaluated along the way: an edge of a test
    that the flag values known on the path contradict is not taken (`ok =
    False` in a handler, `if not ok: continue` behind it).  The effect of a
    statement left by its exception edge did not happen."""
    flags = _const_flags(f)
    if not flags and not states:
        return g.reachable(starts, skip_nodes=skip_nodes,
                           skip_edges=skip_edges)
    skip_nodes, se = set(skip_nodes), set(skip_edges)
    todo = [(s_, ()) for s_ in starts]
    seen = set()
    while todo:
        key = todo.pop()
        nid, st = key
        if key in seen or nid in skip_nodes:
            continue
        seen.add(key)
        n = g.nodes[nid]
        known = dict(st)
        for e in g.succ[nid]:
            if (e.src, e.label) in se or (e.src, e.dst, e.label) in se:
                continue
            st2 = st
            if n.kind == 'test' and e.label in ('T', 'F') and \
                    n.ast is not None:
                v = _truth(n.ast, known)
                if v is not None and v != (e.label == 'T'):
                    continue
            elif n.kind == 'stmt' and e.label != 'exc' and \
                    isinstance(n.ast, ast.Assign) and \
                    len(n.ast.targets) == 1 and \
                    isinstance(n.ast.targets[0], ast.Name) and \
                    n.ast.targets[0].id in flags:
                k2 = dict(known)
                k2[n.ast.targets[0].id] = n.ast.value.value
                st2 = tuple(sorted(k2.items(), key=lambda kv: kv[0]))
            todo.append((e.dst, st2))
    if states:
        return seen
    return {nid for nid, st in seen}


def _own_slots(g, T, e, at):
    """expression `e` at cfg node `at` is the placement of task T (its 'slots'
    entry, or what its own description supplies)"""
    B = _key_read(e, _SLOTS)
    if B is not None and unparse(B) == unparse(T):
        return True
    src = slots_source(g, T, e, at)
    return bool(src) and src[0] == 'own'


def _lookup_calls(prog, f, g, smap, K, T, busy, region=None):
    """(checks, looks): cfg nodes of `_change_slot_states(<slots of T>,
    BUSY)` statements; other calls that are given the placement of T"""
    checks, looks = [], []
    for c in calls_in(f.node):
        n = smap.get(id(c))
        if n is None or (region is not None and n.id not in region):
            continue
        args = list(c.args) + [k.value for k in c.keywords]
        if not any(_own_slots(g, T, a, n) for a in args):
            continue
        callee = prog.resolve_call(f, c, K)
        if callee is not None and callee.name == '_change_slot_states':
            st = kwarg(c, 'new_state', 1)
            a0 = kwarg(c, 'slots', 0)
            if st is not None and a0 is not None and \
                    _own_slots(g, T, a0, n) and \
                    prog.fold(f.module, st, f.cls) == busy:
                if n.kind != 'stmt':
                    raise AnalysisError(
                        'UNRECOGNISED-IDIOM %s: `%s` is not a statement of '
                        'its own' % (f.where, short(c, 50)))
                checks.append(n)
                continue
        looks.append(c)
    return checks, looks


def lookup_summary(prog, K, h, param, busy):
    """what a normal return of helper `h` says about the placement of the
    task it is given as `param`: 'always' = every normal return is past the
    normal return of _change_slot_states(param['slots'], BUSY); 'true' = every
    return of a true value is (what is returned without the look-up is a false
    constant); None = nothing"""
    if h.nested or any(isinstance(x, (ast.Yield, ast.YieldFrom))
                       for x in ast.walk(h.node)):
        return None
    stores = {x.id for x in ast.walk(h.node) if isinstance(x, ast.Name) and
              isinstance(x.ctx, (ast.Store, ast.Del))}
    if param in stores:
        return None
    g = cfg_of(h)
    smap = I.stmt_node_map(g)
    T = ast.Name(id=param, ctx=ast.Load())
    checks, looks = _lookup_calls(prog, h, g, smap, K, T, busy)
    if not checks:
        return None
    passed = [(n.id, e.label) for n in checks for e in g.succ[n.id]
              if e.label != 'exc']
    seen = flag_reachable(h, g, [g.entry.id], skip_edges=passed, states=True)
    if not any(nid == g.exit.id for nid, st in seen):
        return 'always'
    for nid, st in seen:
        n = g.nodes[nid]
        if not any(e.dst == g.exit.id for e in g.succ[nid]):
            continue
        if n.kind == 'stmt' and isinstance(n.ast, ast.Return):
            v = n.ast.value
            if v is None or _truth(v, dict(st)) is False:
                continue
            return None
        if n.kind == 'stmt' and isinstance(n.ast, ast.Raise):
            continue
        # (the end of the body is reached: None, a false value, is returned)
    return 'true'


def r02_14(prog, rep, rid='R02.14'):
    from .c01 import consts
    rep.rule(rid, 'a placement supplied by the application is handed on for '
             'execution only on paths on which _change_slot_states(<those '
             'slots>, BUSY) returned normally: that call is what finds every '
             "rank's node in self.nodes (and raises for a node or index the "
             'pilot does not have)', minimum=1)
    free, busy, down = consts(prog)
    target = prog.const('states.py', 'AGENT_EXECUTING_PENDING')
    base, classes = sched_classes(prog)
    done = set()
    for K in [base] + classes:
        for mname, f in sorted(K.methods.items()):
            if f in done:
                continue
            done.add(f)
            if not any(isinstance(x, ast.Constant) and x.value == _SLOTS
                       for x in walk(f.node)):
                continue
            g = cfg_of(f)
            smap = I.stmt_node_map(g)
            for T, V, stmt in slots_stores(f, smap):
                S = smap.get(id(stmt)) or smap.get(id(T))
                if S is None or V is None:
                    continue
                src = slots_source(g, T, V, S)
                if not src or src[0] != 'own' or unparse(
                        _key_read(src[1], _SLOTS) or T) == unparse(T):
                    # (a task's own entry stored back is no new placement)
                    continue
                tt = unparse(T)
                after = [e.dst for e in g.succ[S.id] if e.label != 'exc']
                # one task: not past a re-binding of the task variable (the
                # head of the loop over the tasks) or the store itself
                stop = {S.id} | {x for x in origin(g, root_name(T), S.id)
                                 if isinstance(x, int)}
                region = g.reachable(after, skip_nodes=stop)
                hand = []
                for c in calls_in(f.node):
                    H = smap.get(id(c))
                    if H is None or H.id not in region or not I.is_handon(c):
                        continue
                    thing = I.handon_thing(c)
                    if thing is None or unparse(thing) != tt or \
                            not _same_binding(g, T, S.id, H.id):
                        continue
                    if I.handon_state(prog, f, c) == target:
                        hand.append((H, c))
                if not hand:
                    continue
                rep.saw(f)
                checks, looks = _lookup_calls(prog, f, g, smap, K, T, busy,
                                              region)
                passed = [(n.id, e.label) for n in checks
                          for e in g.succ[n.id] if e.label != 'exc']
                # helpers of the class that are given the task and do the
                # look-up themselves
                for c in calls_in(f.node):
                    n = smap.get(id(c))
                    if n is None or n.id not in region:
                        continue
                    h = prog.resolve_call(f, c, K)
                    if h is None or h.cls is None or h is f or \
                            h.name == '_change_slot_states':
                        continue
                    ps = [x for x in h.params if x != 'self']
                    bound = dict(zip(ps, c.args))
                    bound.update({k.arg: k.value for k in c.keywords
                                  if k.arg in ps})
                    for pn, a in sorted(bound.items()):
                        if unparse(a) != tt or \
                                not _same_binding(g, T, S.id, n.id):
                            continue
                        what = lookup_summary(prog, K, h, pn, busy)
                        if what is None:
                            continue
                        checks.append(n)
                        if what == 'always' and n.kind == 'stmt':
                            passed += [(n.id, e.label) for e in g.succ[n.id]
                                       if e.label != 'exc']
                            continue
                        if n.kind == 'test' and n.ast is not None:
                            v = _truth(n.ast, {}, {id(c): False})
                            if v is not None:
                                # the edge taken only when the helper
                                # returned a true value
                                passed.append((n.id, 'F' if v else 'T'))
                                continue
                        raise AnalysisError(
                            'UNRECOGNISED-IDIOM %s: what `%s` returns says '
                            'whether the supplied placement was looked up, '
                            'but how the result is used is not recognised'
                            % (f.where, short(c, 50)))
                r = flag_reachable(f, g, after, skip_nodes=stop,
                                   skip_edges=passed)
                for H, c in hand:
                    if not checks and looks:
                        raise AnalysisError(
                            'UNRECOGNISED-IDIOM %s: the application-supplied '
                            'placement of %s is not passed to '
                            '_change_slot_states(.., BUSY) but to `%s`: '
                            'whether that looks up the nodes is not decided'
                            % (f.where, tt, short(looks[0], 50)))
                    via = ''
                    if checks and H.id in r:
                        hs = [n for n in g.nodes if n.kind == 'handler' and
                              n.id in r and H.id in g.reachable(
                                  n.id, skip_nodes=stop, skip_edges=passed)]
                        if hs:
                            via = ' (through the handler `%s`, which does ' \
                                  'not leave the path of this task)' % short(
                                      hs[0].ast, 30).split(':')[0]
                    rep.check(H.id not in r, rid, f,
                              "%s: %s with application-supplied slots is "
                              'handed on only past the normal return of '
                              '_change_slot_states(.., BUSY)' % (f.qual, tt),
                              construct='%s:supplied-placement-unchecked'
                              % f.qual,
                              message="%s stores the slots of the task's "
                              "description as %s['slots'] and hands the task "
                              'on to AGENT_EXECUTING_PENDING on a path on '
                              'which _change_slot_states(.., BUSY) did not '
                              'return normally%s.  That call is the only '
                              'place where the nodes and core / gpu indices '
                              'of a placement the scheduler did not compute '
                              'are looked up in self.nodes; when it raises '
                              "('inconsistent node information', IndexError) "
                              'the placement names a node or core the pilot '
                              'does not have, and the task is started on it '
                              'all the same' % (f.qual, tt, via),
                              loc=f.loc(c),
                              history='pilot of 2 nodes; a task arrives with '
                              "td['slots'] = [{'node_index': 7, 'cores': "
                              "[{'index': 0, ..}], ..}]: _change_slot_states "
                              "raises RuntimeError('inconsistent node "
                              "information'), the task is failed AND advanced "
                              'to AGENT_EXECUTING_PENDING with its rank on '
                              'node 7')


# ------------------------------------------------------------------------------
# R02.13  the request the scheduler reads is the request the application made.
# schedule_task sizes the placement from td['ranks'] and the per-rank
# attributes of REQ (R02.7).  The deprecated spellings of exactly these
# attributes are translated by TaskDescription._verify; that each alias block
# leaves the value in its documented replacement is R19.1 of C19 - re-evaluated
# here (the rule function of c19, not a copy) for the aliases whose
# replacement is one of the attributes schedule_task reads.
#
class _ShapeAliases:
    """view of a Report which keeps, of what R19.1 says, the obligations about
    the aliases of the request shape"""

    def __init__(self, rep, olds):
        self.rep, self.olds, self.seen = rep, set(olds), set()

    def _mine(self, construct):
        old = str(construct).split(':')[0].strip()
        if old in self.olds:
            self.seen.add(old)
            return True
        return False

    def rule(self, rid, text, minimum=1):
        pass

    def saw(self, func):
        self.rep.saw(func)

    def info(self, *a, **kw):
        pass

    def ok(self, *a, **kw):
        pass

    def stat(self, *a, **kw):
        pass

    def bad(self, rid, where, construct, message, loc=None, history=None,
            path=None):
        if not isinstance(construct, str):
            construct = unparse(construct)
        if self._mine(construct):
            return self.rep.bad(rid, where, construct, message, loc, history,
                                path)

    def check(self, cond, rid, where, what, construct=None, message=None,
              loc=None, history=None, path=None):
        if construct is not None and self._mine(construct):
            return self.rep.check(cond, rid, where, what, construct, message,
                                  loc, history, path)
        return bool(cond)


def r02_13(prog, rep, rid='R02.13'):
    from . import c19
    rep.rule(rid, 'TaskDescription._verify: the deprecated spellings of the '
             'request shape (cpu_processes, cpu_threads, gpu_processes, '
             'lfs_per_process, mem_per_process) hand their value to the '
             'attribute schedule_task reads for it (R19.1 re-evaluated for '
             'these aliases)', minimum=10)
    read = set(REQ.values()) | {'ranks'}
    olds = sorted(o for o, new in c19.ALIAS_SPEC.items() if new in read)
    if len(olds) != len(read):
        raise AnalysisError('R02.13: the documented aliases %s do not cover '
                            'the attributes schedule_task reads (%s)'
                            % (olds, sorted(read)))
    view = _ShapeAliases(rep, olds)
    c19.r19_1(prog, view, rid=rid)
    missing = sorted(set(olds) - view.seen)
    if missing:
        raise AnalysisError('UNRECOGNISED-IDIOM R02.13: no alias block of '
                            'TaskDescription._verify was evaluated for %s'
                            % missing)


# ------------------------------------------------------------------------------
#
# ------------------------------------------------------------------------------
# R02.15  NodeList.find_slots: a request for ranks without a core is rejected
#         before a slot is searched
#
# Node.find_slot skips the core search for a request whose core count is zero
# (`if rr.n_cores:`), so the slot it grants for such a request holds no core.
# The necessary condition decided here: with the core count of the request
# fixed to 0, no path from the entry of NodeList.find_slots reaches the call of
# find_slot (a raise on the zero edge of a test of the count, an unconditional
# division by the count, or a callee that the request is handed to and that
# cannot complete for a zero count, all stop the path) - unless find_slot
# itself cannot return a slot for a zero count.
#
_ZERO_FIELD = _RR_COUNT['cores']
NODELIST_CLS = ('resource_config.py', 'NodeList')
_UNDEC = object()


class _Zero:
    """paths of one function for a request (parameter `param`) whose field
    `field` is 0"""

    def __init__(self, prog, f, param, field, depth=0):
        self.prog, self.f, self.param, self.field = prog, f, param, field
        self.depth = depth
        self.g = cfg_of(f)
        self.smap = I.stmt_node_map(self.g)
        for x in walk(f.node):
            if isinstance(x, ast.Name) and x.id == param and \
                    isinstance(x.ctx, (ast.Store, ast.Del)):
                raise AnalysisError('UNRECOGNISED-IDIOM %s: the request '
                                    'parameter `%s` is re-bound'
                                    % (f.where, param))
        self._seen = None

    # -- the field -------------------------------------------------------------
    def direct(self, e):
        if isinstance(e, ast.Attribute) and e.attr == self.field and \
                isinstance(e.value, ast.Name) and e.value.id == self.param:
            return True
        if isinstance(e, ast.Subscript) and isinstance(e.value, ast.Name) and \
                e.value.id == self.param and \
                isinstance(e.slice, ast.Constant) and \
                e.slice.value == self.field:
            return True
        return False

    def is_field(self, e, at):
        if isinstance(e, ast.Name):
            e, at = _hoisted(self.g, e, at)
        return self.direct(e)

    def value(self, e, at):
        """value of `e` at cfg node `at` when the field is 0, else _UNDEC"""
        if self.is_field(e, at):
            return 0
        if isinstance(e, ast.Name):
            h, hat = _hoisted(self.g, e, at)
            return self.value(h, hat) if h is not e else _UNDEC
        if isinstance(e, ast.Constant):
            return e.value
        if isinstance(e, ast.IfExp):
            v = self.value(e.test, at)
            if v is _UNDEC:
                return _UNDEC
            return self.value(e.body if v else e.orelse, at)
        if isinstance(e, ast.UnaryOp) and isinstance(e.op, ast.Not):
            v = self.value(e.operand, at)
            return _UNDEC if v is _UNDEC else (not v)
        if isinstance(e, ast.Call) and isinstance(e.func, ast.Name) and \
                e.func.id in ('bool', 'int', 'float') and len(e.args) == 1 \
                and not e.keywords:
            v = self.value(e.args[0], at)
            if v is _UNDEC or not isinstance(v, (bool, int, float)):
                return _UNDEC
            return {'bool': bool, 'int': int, 'float': float}[e.func.id](v)
        if isinstance(e, ast.BoolOp):
            vs = [self.value(x, at) for x in e.values]
            if isinstance(e.op, ast.And):
                for v in vs:
                    if v is _UNDEC:
                        return _UNDEC
                    if not v:
                        return v
                return vs[-1]
            for v in vs:
                if v is _UNDEC:
                    return _UNDEC
                if v:
                    return v
            return vs[-1]
        if isinstance(e, ast.Compare) and len(e.ops) == 1:
            a = self.value(e.left, at)
            b = self.value(e.comparators[0], at)
            if a is _UNDEC or b is _UNDEC:
                return _UNDEC
            op = e.ops[0]
            try:
                if isinstance(op, ast.Lt):    return a <  b
                if isinstance(op, ast.LtE):   return a <= b
                if isinstance(op, ast.Gt):    return a >  b
                if isinstance(op, ast.GtE):   return a >= b
                if isinstance(op, ast.Eq):    return a == b
                if isinstance(op, ast.NotEq): return a != b
                if isinstance(op, ast.Is):    return a is b
                if isinstance(op, ast.IsNot): return a is not b
            except TypeError:
                return _UNDEC
        return _UNDEC

    # -- statements that cannot complete for a zero count ----------------------
    def _divides(self, n):
        """the statement divides by the field, unconditionally"""
        hidden = set()
        for x in walk(n.ast):
            if isinstance(x, (ast.IfExp, ast.Lambda, ast.ListComp, ast.SetComp,
                              ast.DictComp, ast.GeneratorExp)):
                hidden |= {id(y) for y in walk(x)} - {id(x)}
            elif isinstance(x, ast.BoolOp):
                for v in x.values[1:]:
                    hidden |= {id(y) for y in walk(v)}
        for x in walk(n.ast):
            if isinstance(x, (ast.BinOp, ast.AugAssign)) and \
                    id(x) not in hidden and \
                    isinstance(x.op, (ast.Div, ast.FloorDiv, ast.Mod)):
                v = self.value(x.right if isinstance(x, ast.BinOp)
                               else x.value, n.id)
                if v is not _UNDEC and isinstance(v, (int, float)) and v == 0:
                    return True
        return False

    def _rejecting_call(self, n, keep):
        """the statement hands the request to a method of the same class which
        cannot complete for a zero count"""
        if self.depth >= 3:
            return False
        for c in calls_in(n.ast):
            if id(c) in keep:
                continue
            h = self.prog.resolve_call(self.f, c, self.f.cls)
            if h is None or h is self.f or h.cls is None:
                continue
            hp = [p for p in h.params]
            if hp and hp[0] in ('self', 'cls') and \
                    isinstance(c.func, ast.Attribute):
                hp = hp[1:]
            bound = None
            for i, a in enumerate(c.args):
                if isinstance(a, ast.Name) and a.id == self.param and \
                        i < len(hp):
                    bound = hp[i]
            for k in c.keywords:
                if isinstance(k.value, ast.Name) and \
                        k.value.id == self.param and k.arg:
                    bound = k.arg
            if bound is None:
                continue
            z = _Zero(self.prog, h, bound, self.field, self.depth + 1)
            if not z.completes():
                return True
        return False

    def blocked(self, n, keep=()):
        if n.ast is None or n.kind not in ('stmt', 'test', 'with', 'for',
                                          'while'):
            return False
        if n.kind == 'for':
            return False
        return self._divides(n) or self._rejecting_call(n, keep)

    # -- reachability ----------------------------------------------------------
    def reach(self, keep=()):
        """cfg node ids reachable from the entry for a zero count; `keep`:
        ids of calls that are targets, not summarised"""
        g = self.g
        seen, todo = set(), [g.entry.id]
        while todo:
            i = todo.pop()
            if i in seen:
                continue
            seen.add(i)
            n = g.nodes[i]
            stop = self.blocked(n, keep)
            dead = None
            if n.kind == 'test' and n.ast is not None:
                v = self.value(n.ast, i)
                if v is not _UNDEC:
                    dead = 'F' if v else 'T'
            for e in g.succ[i]:
                if stop and e.label != 'exc':
                    continue
                if dead is not None and e.label == dead:
                    continue
                todo.append(e.dst)
        return seen

    def undecided(self, seen):
        """tests on the way whose outcome depends on the field in a way that
        is not decided here"""
        g = self.g
        tainted = set()
        changed = True
        while changed:
            changed = False
            for i in seen:
                n = g.nodes[i]
                if n.kind != 'stmt' or not isinstance(
                        n.ast, (ast.Assign, ast.AugAssign, ast.AnnAssign)) \
                        or n.ast.value is None:
                    continue
                if not self._mentions(n.ast.value, tainted, i):
                    continue
                tg = n.ast.targets if isinstance(n.ast, ast.Assign) \
                    else [n.ast.target]
                for t in tg:
                    for name in stores_in_target(t):
                        if name not in tainted:
                            tainted.add(name)
                            changed = True
        out = []
        for i in seen:
            n = g.nodes[i]
            if n.kind == 'test' and n.ast is not None and \
                    self.value(n.ast, i) is _UNDEC and \
                    self._mentions(n.ast, tainted, i):
                out.append(n)
        return out

    def _mentions(self, e, tainted, at=None):
        """`e` mentions the field or a local computed from it (also where the
        sub expression has a known value for a zero count: that value was
        obtained through the field)"""
        for x in walk(e):
            if self.direct(x):
                return True
            if isinstance(x, ast.Name) and x.id in tainted:
                return True
        return False

    def _decide(self, seen, hit):
        if not hit:
            return False
        und = self.undecided(seen)
        if und:
            raise AnalysisError(
                'UNRECOGNISED-IDIOM %s: the test `%s` depends on %s.%s in a '
                'way that is not decided for the value 0'
                % (self.f.where, short(und[0].ast, 50), self.param,
                   self.field))
        return True

    def completes(self):
        """the function can complete normally for a zero count"""
        seen = self.reach()
        return self._decide(seen, self.g.exit.id in seen)

    def returns_value(self):
        """the function can return something other than None"""
        seen = self.reach()
        hit = [i for i in seen if isinstance(self.g.nodes[i].ast, ast.Return)
               and self.g.nodes[i].kind == 'stmt'
               and self.g.nodes[i].ast.value is not None
               and not (isinstance(self.g.nodes[i].ast.value, ast.Constant)
                        and self.g.nodes[i].ast.value.value is None)]
        return self._decide(seen, bool(hit))

    def reaches(self, calls):
        """[call ast] of `calls` that are reached"""
        keep = {id(c) for c in calls}
        seen = self.reach(keep)
        hit = [c for c in calls if self.smap[id(c)].id in seen]
        self._decide(seen, bool(hit))
        return hit


def r02_15(prog, rep, rid='R02.15'):
    rep.rule(rid, 'NodeList.find_slots: a request for ranks without a core '
             '(n_cores == 0) cannot reach Node.find_slot, which grants a slot '
             'without cores for it', minimum=1)
    N = prog.cls(*NODE_CLS)
    L = prog.cls(*NODELIST_CLS)
    fs = prog.find_method(N, 'find_slot')
    f = prog.find_method(L, 'find_slots')
    if fs is None or f is None:
        raise AnalysisError('Node.find_slot / NodeList.find_slots not found')
    rep.saw(f)
    rep.saw(fs)

    def request_param(h):
        ps = [p for p in h.params if p not in ('self', 'cls')]
        if not ps:
            raise AnalysisError('UNRECOGNISED-IDIOM %s: no request parameter'
                                % h.where)
        return ps[0]

    rr = request_param(f)
    calls = [c for c in calls_in(f.node)
             if isinstance(c.func, ast.Attribute) and c.func.attr == fs.name
             and any(isinstance(a, ast.Name) and a.id == rr
                     for a in list(c.args) + [k.value for k in c.keywords])]
    if not calls:
        raise AnalysisError('UNRECOGNISED-IDIOM %s: no call of find_slot for '
                            'the request `%s`' % (f.where, rr))
    grants = _Zero(prog, fs, request_param(fs), _ZERO_FIELD).returns_value()
    hit = _Zero(prog, f, rr, _ZERO_FIELD).reaches(calls) if grants else []
    for c in calls:
        rep.check(c not in hit, rid, f,
                  'a request with %s == 0 is rejected before `%s`'
                  % (_ZERO_FIELD, short(c, 40)),
                  construct='NodeList.find_slots:zero-cores',
                  message='NodeList.find_slots: a request with %s.%s == 0 '
                  'passes every check on the way (no raise on the zero edge '
                  'of a test of the count, no division by it) and reaches '
                  '`%s`; Node.find_slot skips the core search for a zero '
                  'count and returns a slot with an empty core list, so the '
                  'rank is granted without a core instead of the request '
                  'being rejected' % (rr, _ZERO_FIELD, short(c, 40)),
                  loc=f.loc(c),
                  history='NodeList of 2 nodes x 4 cores x 2 gpus; '
                  'find_slots(RankRequirements(n_cores=0, n_gpus=1), 2) '
                  'returns two slots whose `cores` are [] (a rank needs at '
                  'least one core; the request has to be rejected)')


# ------------------------------------------------------------------------------
# R02.16  the colocate history outlives the tasks: nothing ever forgets a tag
#
# "Placed only on nodes already used for that tag" is decided by schedule_task
# from self._colo_history.  The tag is meant to outlive the task (its data
# stays on the node), so for every history `schedule T(tag), ..., release T,
# schedule T'(tag)` the entry recorded for T must still be there when T' is
# placed.  Necessary condition: no method the scheduler classes see removes an
# entry (pop / popitem / clear / del), shrinks the node list of an entry, or
# re-binds the history outside the life-cycle hooks that set it up.
#
_LIFECYCLE = ('__init__', '_configure', 'initialize')
_DICT_SHRINK = ('pop', 'popitem', 'clear')
_LIST_SHRINK = ('pop', 'remove', 'clear')


def _history_changes(f):
    """(removals, rebinds) of self._colo_history in one function:
    removals = [(ast node, what)], rebinds = [ast stmt]"""
    whole, entry = set(), set()
    for x in walk(f.node):
        if isinstance(x, (ast.Assign, ast.AnnAssign)) and x.value is not None:
            tg = x.targets if isinstance(x, ast.Assign) else [x.target]
            for t in tg:
                if isinstance(t, ast.Name):
                    if unparse(x.value) == _HIST:
                        whole.add(t.id)
                    elif _entry_of(x.value, ()):
                        entry.add(t.id)

    def is_whole(e):
        return unparse(e) == _HIST or (isinstance(e, ast.Name) and
                                       e.id in whole)

    def is_entry(e):
        return _entry_of(e, whole) or (isinstance(e, ast.Name) and
                                       e.id in entry)

    removals, rebinds = [], []
    for x in walk(f.node):
        if isinstance(x, ast.Call) and isinstance(x.func, ast.Attribute):
            if x.func.attr in _DICT_SHRINK and is_whole(x.func.value):
                removals.append((x, 'removes an entry of the history'))
            elif x.func.attr in _LIST_SHRINK and is_entry(x.func.value):
                removals.append((x, 'removes nodes from the entry of a tag'))
        elif isinstance(x, ast.Delete):
            for t in x.targets:
                if isinstance(t, ast.Subscript) and is_whole(t.value):
                    removals.append((x, 'deletes an entry of the history'))
                elif isinstance(t, ast.Subscript) and is_entry(t.value):
                    removals.append((x, 'deletes nodes from the entry of a '
                                        'tag'))
                elif unparse(t) == _HIST:
                    rebinds.append(x)
        elif isinstance(x, (ast.Assign, ast.AugAssign, ast.AnnAssign)):
            tg = x.targets if isinstance(x, ast.Assign) else [x.target]
            for t in tg:
                for s in (t.elts if isinstance(t, (ast.Tuple, ast.List))
                          else [t]):
                    if unparse(s) == _HIST:
                        rebinds.append(x)
    return removals, rebinds


def _entry_of(e, whole):
    """`e` is the node list recorded for a tag: H[tag] / H.get(tag ..)"""
    def is_whole(v):
        return unparse(v) == _HIST or (isinstance(v, ast.Name) and
                                       v.id in whole)
    if isinstance(e, ast.Subscript) and is_whole(e.value) and \
            not isinstance(e.slice, ast.Slice):
        return True
    if isinstance(e, ast.Call) and isinstance(e.func, ast.Attribute) and \
            e.func.attr in ('get', 'setdefault') and is_whole(e.func.value):
        return True
    return False


def _setup_only(methods, name, seen=()):
    """method `name` runs only while the component is set up: it is a
    life-cycle hook or every caller (self.<name>(..) in the class) is"""
    if name in _LIFECYCLE:
        return True
    if name in seen:
        return False
    callers = [m for m, h in methods.items() if m != name and any(
        call_name(c) in ('self.%s' % name, 'cls.%s' % name)
        for c in calls_in(h.node))]
    return bool(callers) and all(_setup_only(methods, m, tuple(seen) + (name,))
                                 for m in callers)


def r02_16(prog, rep, rid='R02.16'):
    rep.rule(rid, 'the colocate history outlives the tasks: no method of the '
             'scheduler removes an entry, shrinks the node list of a tag or '
             're-binds the history outside the set-up of the component',
             minimum=4)
    base, classes = sched_classes(prog)
    hist = 'nodes 0 and 1 of 4 cores; A (colocate tag x, 4 cores) fills ' \
           'node 0, B (no tag, 1 core) goes to node 1 and moves the node ' \
           'offset, A is released, C (tag x, 1 core) arrives: the entry of ' \
           'x is gone, x counts as a new tag and C is placed on node 1 ' \
           'although x was used on node 0 only'
    for K in classes:
        methods = I.class_methods(prog, K)
        bad = 0
        binds = 0
        for name in sorted(methods):
            f = methods[name]
            removals, rebinds = _history_changes(f)
            for x, what in removals:
                bad += 1
                rep.bad(rid, f, '%s:%s:forgets' % (K.name, name),
                        '%s.%s: `%s` %s; the tag is meant to outlive the '
                        'task, the next task with the tag is treated as the '
                        'first one and placed on any node'
                        % (K.name, name, short(x, 60), what),
                        f.loc(x), history=hist)
            for x in rebinds:
                binds += 1
                rep.check(_setup_only(methods, name), rid, f,
                          '%s: the history is bound in %s, which runs only '
                          'while the component is set up' % (K.name, name),
                          construct='%s:%s:rebinds' % (K.name, name),
                          message='%s.%s: `%s` replaces the colocate history '
                          'while tasks are scheduled and released; every tag '
                          'recorded so far is forgotten'
                          % (K.name, name, short(x, 60)),
                          loc=f.loc(x), history=hist)
        if not binds:
            raise AnalysisError('UNRECOGNISED-IDIOM %s: %s is never bound'
                                % (K.name, _HIST))
        if not bad:
            rep.ok(rid, K.name, 'no method of %s (%d seen) removes an entry '
                   'of the colocate history' % (K.name, len(methods)),
                   K.module.rel)


def run(prog, rep, tier):
    rep.decided = ('per-node search: a slot is appended only past a "count '
        'reached" test for every kind it picks, picking stops at the '
        'requested number, a short list is returned only when partial; '
        'schedule_task: remaining count and collected slots are updated and '
        'reset together, the result is returned only when nothing remains; '
        'per-slot search arguments derive from the matching per-rank '
        'attributes, n_slots from ranks_per_node; the slot records the '
        "node's own name/index and the per-slot lfs/mem; colocate membership "
        'guard and history writes; the remaining counter is decremented by '
        'the length of exactly the list that extends the allocation; the '
        'per-node colocate filter and the recording of the tag history agree '
        'on which tag values (None / empty string / other falsy / truthy, '
        'followed through the normalisation of the tag) count as a tag; '
        'where the cores/gpus of a slot are cut from a collected list by a '
        'slice, the slot is appended only past a test that the chunk (or '
        'what is left of the list before the cut) has the width of the '
        "slice; what is stored as a task's slots is the result of "
        'schedule_task for that very task or the slots of its own '
        'description, never the placement of another task; the node is '
        'looked up in the history entry of the very tag whose presence was '
        'tested (also when the tag check lives in a local closure or uses '
        'dict.get); Node.find_slot counts, picks and shares cores / gpus by '
        'the matching field of the request and feeds lfs / mem / node '
        'identity of the slot from the request and the node; '
        '_try_allocation returns a true value only past the store of the '
        'non-empty result of schedule_task; the deprecated spellings of the '
        'request shape reach the attributes schedule_task reads (R19.1 '
        're-evaluated for them); NodeList.find_slots: with the core count '
        'of the request fixed to 0 no path reaches Node.find_slot (which '
        'would grant a slot without cores); no method of the schedulers '
        'removes an entry of the colocate history, shrinks the node list of '
        'a tag or re-binds the history outside the set-up of the component.')
    rep.undecided = ('that the indices chosen are the right ones for every '
        'occupancy; numeric adequacy of slots_per_node; R02.3 (the four '
        'per-node asserts) is information only - removing one does not yield '
        'a smaller placement.')
    rep.assumptions = [
        'scope: Continuous and ContinuousJsrun (and what they inherit)',
        'the per-slot receiver lists are fresh per slot (creation by '
        'assignment to the receiver root is recognised)',
        'R02.6: a value looked up in the task description may be None, the '
        'empty string, another falsy value or truthy; str() of a truthy '
        'value and of a falsy non-string value (0, False) is non-empty; '
        'None is not a tag; tests on the tag other than truth / None / '
        'constant comparisons may go both ways (may-analysis: R02.6 fires '
        'only when no path at all records / filters the value)',
        'R02.1 chunk form: a list derived element by element (comprehension '
        'or loop-and-append without filter, list(), sorted()) from a slice '
        'has the length of the slice; a comparison of len(list) with the '
        'width alone says nothing about chunks behind a moving cursor; a '
        'bound computed from len(list) in any other way is not decided '
        '(UNRECOGNISED-IDIOM)',
        'R02.10: scope AgentSchedulingComponent, Continuous, ContinuousJsrun; '
        'copy / deepcopy / list() of a placement is that placement',
        'schedule_task is analysed with its local closures inlined (a nested '
        'def bound once at the top level of the body, never re-bound, used '
        'only as the callee of plain calls; no defaults / nonlocal / yield): '
        'a closure reads the enclosing locals at call time, so the call and '
        'the inlined body mean the same',
        'R02.11: the request type names its fields n_cores / n_gpus / '
        'core_occupation / gpu_occupation / lfs / mem (RankRequirements), '
        'the node its pools self.cores / self.gpus; explicit data flow only',
        'R02.17: a field of Slot that is neither given to the constructor '
        'nor stored on the object (attribute, constant key, update()) before '
        'the object is returned / passed to a method of the node reads as '
        'the default of Slot; a store under a guard counts as given',
        'R02.12: the callers of _try_allocation treat a true result as '
        '"placed" (base._schedule_incoming, lazy_bisect in '
        '_schedule_waitpool, continuous_colo / continuous_ordered)',
        'R02.13: the documented replacements are those of c19.ALIAS_SPEC',
        'R02.15: only the value 0 of the core count is followed (tests of '
        'the count itself or of a plain local copy are decided, a division '
        'by it and a same-class callee that cannot complete stop the path); '
        'a test on a value computed from the count in any other way is '
        'UNRECOGNISED-IDIOM, not a finding; the agent-side search is '
        'protected by the unconditional division cores_per_node / '
        'cores_per_slot in schedule_task (not re-checked here)',
        'R02.16: the colocate tag is meant to outlive the task (header '
        'comment of Continuous): any removal from self._colo_history (also '
        'through a local alias) counts, whatever guards it; life-cycle hooks '
        'are __init__, _configure, initialize and helpers only they call',
    ]
    rep.attempt(r02_1, prog, rep)
    rep.attempt(r02_2, prog, rep)
    rep.attempt(r02_4, prog, rep)
    rep.attempt(r02_5, prog, rep)
    rep.attempt(r02_6, prog, rep)
    rep.attempt(r02_9, prog, rep)
    rep.attempt(r02_10, prog, rep)
    rep.attempt(r02_11, prog, rep)
    rep.attempt(r02_12, prog, rep)
    rep.attempt(r02_13, prog, rep)
    rep.attempt(r02_14, prog, rep)
    rep.attempt(r02_15, prog, rep)
    rep.attempt(r02_16, prog, rep)
    rep.attempt(r02_17, prog, rep)
    from .c01 import r02_8
    rep.attempt(r02_8, prog, rep)
    # R02.3 information
    for K in sched_classes(prog)[1]:
        f = prog.find_method(K, 'schedule_task')
        n = sum(1 for a in walk(f.node) if isinstance(a, ast.Assert))
        rep.info('R02.3', f, '%d per-node limit asserts (information only)' % n)


# ------------------------------------------------------------------------------
_C = 'agent/scheduler/continuous.py'
_J = 'agent/scheduler/continuous_jsrun.py'

# --- building blocks of the chunk-form variants (R02.1) and of the hand-over
#     variants (R02.10)
_B = 'agent/scheduler/base.py'
_HEAD_OLD = "        node_name = node['name']\n\n        while len(slots) < max_slots:\n"
_POOL = ("        free_cores = [core_idx for core_idx,core in enumerate(node['cores'])\n"
         "                               if  core == rpc.FREE]\n")
_HEAD_NEW = ("        node_name = node['name']\n" + _POOL +
             "\n        while len(slots) < max_slots:\n")
_HEAD_FAST = ("        node_name = node['name']\n" + _POOL +
              "\n        if len(free_cores) < cores_per_slot:\n"
              "            max_slots = 0\n"
              "\n        while len(slots) < max_slots:\n")
_LOOP_OLD = ("            for core_idx,core in enumerate(node['cores'][loop_core_idx:],\n"
             "                                                         loop_core_idx):\n"
             "                if core == rpc.FREE:\n"
             "                    slot['cores'].append(RO(index=core_idx,\n"
             "                                            occupation=rpc.BUSY))\n\n"
             "                if len(slot['cores']) == cores_per_slot:\n"
             "                    break\n\n"
             "            loop_core_idx = core_idx + 1\n\n"
             "            if len(slot['cores']) < cores_per_slot:\n"
             "                self._log.debug_9('not enough cores on %s', node_name)\n"
             "                break\n")
_CUT = ("            core_ids       = free_cores[loop_core_idx:\n"
        "                                        loop_core_idx + cores_per_slot]\n"
        "            loop_core_idx += cores_per_slot\n\n")
_STORE = ("            slot['cores'] = [RO(index=core_idx, occupation=rpc.BUSY)\n"
          "                                for core_idx in core_ids]\n")
_STORE_LOOP = ("            picked = list()\n"
               "            for core_idx in core_ids:\n"
               "                picked.append(RO(index=core_idx, occupation=rpc.BUSY))\n"
               "            slot['cores'] = picked\n")
_BRK = ("                self._log.debug_9('not enough cores on %s', node_name)\n"
        "                break\n\n")


def _chunk(test, head=_HEAD_NEW, cut=_CUT, store=_STORE):
    """the core search of Continuous._find_resources rewritten to cut the
    slots from a list of free cores collected once, with `test` between the
    cut and the store"""
    return [(_C, _HEAD_OLD, head), (_C, _LOOP_OLD, cut + test + store)]


_REL_OLD = "\n            to_release.append(task)\n            self._active_cnt -= 1\n"
_FIND = ("\n            replace = None\n"
         "            for prio in self._waitpool:\n"
         "                for cand in self._waitpool[prio].values():\n"
         "                    if tuple(cand['tuple_size']) == tuple(task['tuple_size']):\n"
         "                        replace = cand\n"
         "                        break\n"
         "                if replace:\n"
         "                    del self._waitpool[prio][replace['uid']]\n"
         "                    break\n"
         "            if replace:\n")
_START = ("                self.advance(replace, rps.AGENT_EXECUTING_PENDING,\n"
          "                             publish=True, push=True)\n"
          "                continue\n" + _REL_OLD)
_GRANT_OLD = "            task['slots']     = slots\n            task['partition'] = partition\n"
_CALL_OLD = "            slots, partition = self.schedule_task(task)\n            if not slots:\n"
_APP_OLD = "                    task['slots']     = td['slots']\n"
_TRY_DEF = ("    # --------------------------------------------------------------------------\n"
            "    #\n    def _try_allocation(self, task):\n")

_N = 'resource_config.py'
_T = 'task_description.py'
_ALC_OLD = ("        # what remains to be allocated?  all of it right now.\n"
            "        alc_slots = list()\n")
_COLO_OLD = ("            if colo_tag is not None:\n"
             "                if colo_tag in self._colo_history:\n"
             "                    if node_index not in self._colo_history[colo_tag]:\n"
             "                        continue\n"
             "                # for a new tag check that nodes were not used for previous tags\n"
             "                else:\n"
             "                    # `exclusive` -> not to share nodes between different tags\n"
             "                    is_exclusive = td['tags'].get('exclusive', False)\n"
             "                    if is_exclusive and node_index in self._tagged_nodes:\n"
             "                        if len(self.nodes) > len(self._tagged_nodes):\n"
             "                            continue\n"
             "                        self._log.warn('not enough nodes for exclusive tags, ' +\n"
             "                                       'switched \"exclusive\" flag to \"False\"')\n")
_SKIP_DEF = ("        def skip_node(node_index):\n"
             "            if colo_tag is None:\n"
             "                return False\n\n"
             "            tag_nodes = self._colo_history.get(colo_tag)\n"
             "            if tag_nodes is not None:\n"
             "                return node_index not in tag_nodes\n\n"
             "            is_exclusive = td['tags'].get('exclusive', False)\n"
             "            if not is_exclusive or node_index not in self._tagged_nodes:\n"
             "                return False\n\n"
             "            if len(self.nodes) > len(self._tagged_nodes):\n"
             "                return True\n\n"
             "            self._log.warn('not enough nodes for exclusive tags, ' +\n"
             "                           'switched \"exclusive\" flag to \"False\"')\n"
             "            return False\n\n")
_SKIP_USE = "            if skip_node(node_index):\n                continue\n"

_FS_DEF = ("    def find_slot(self, rr: RankRequirements) -> Optional[Slot]:\n\n"
           "        with self.__lock__:\n\n            cores = list()\n")
_FS_HELPER = ("    @staticmethod\n"
              "    def _find_ros(ros, n, occupation):\n\n"
              "        found = list()\n"
              "        for ro in ros:\n"
              "            if ro.occupation is DOWN:\n"
              "                continue\n"
              "            if occupation <= BUSY - ro.occupation:\n"
              "                found.append(RO(index=ro.index, occupation=occupation))\n"
              "            if len(found) == n:\n"
              "                break\n\n"
              "        if len(found) < n:\n"
              "            return None\n\n"
              "        return found\n\n\n"
              "    # --------------------------------------------------------------------------\n"
              "    #\n")
_FS_CORES = ("                for ro in self.cores:\n"
             "                    if ro.occupation is DOWN:\n"
             "                        continue\n"
             "                    if rr.core_occupation <= BUSY - ro.occupation:\n"
             "                        cores.append(RO(index=ro.index,\n"
             "                                        occupation=rr.core_occupation))\n"
             "                    if len(cores) == rr.n_cores:\n"
             "                        break\n\n"
             "                if len(cores) < rr.n_cores:\n"
             "                    return None\n")
_FS_GPUS = ("                for ro in self.gpus:\n"
            "                    if ro.occupation is DOWN:\n"
            "                        continue\n"
            "                    if rr.gpu_occupation <= BUSY - ro.occupation:\n"
            "                        gpus.append(RO(index=ro.index,\n"
            "                                       occupation=rr.gpu_occupation))\n"
            "                    if len(gpus) == rr.n_gpus:\n"
            "                        break\n\n"
            "                if len(gpus) < rr.n_gpus:\n"
            "                    return None\n")


def _fs_shared(gpu_args='self.gpus, rr.n_gpus, rr.gpu_occupation'):
    """Node.find_slot with the two pick loops extracted into one static
    helper (seeds C02-r4 / C02-r8)"""
    return [(_N, _FS_DEF, _FS_HELPER + _FS_DEF),
            (_N, _FS_CORES,
             "                cores = self._find_ros(self.cores, rr.n_cores,\n"
             "                                       rr.core_occupation)\n"
             "                if cores is None:\n                    return None\n"),
            (_N, _FS_GPUS,
             "                gpus = self._find_ros(%s)\n"
             "                if gpus is None:\n                    return None\n"
             % gpu_args)]


# --- the application-supplied placement of _schedule_incoming (R02.14)
_PRE_TRY = ("                    try:\n"
            "                        self._change_slot_states(task['slots'], rpc.BUSY)\n"
            "                    except Exception as e:\n"
            "                        self._fail_task(task, e,\n"
            "                                        '\\n'.join(ru.get_exception_trace()))\n")
_PRE_CONT = "                        continue\n"
_PRE_GO = ("                    self._active_cnt += 1\n\n"
           "                    self.advance(task, rps.AGENT_EXECUTING_PENDING,\n"
           "                                 publish=True, push=True, fwd=True)\n"
           "                    continue\n")
_PRE_ALL = _PRE_TRY + _PRE_CONT + _PRE_GO

# --- Node.find_slot with the pick loops in a static helper that returns what
#     it found; the caller compares the length (seed C02-r10)
_FS_PICK = ("    @staticmethod\n"
            "    def _pick_ros(ros, count, occupation):\n\n"
            "        picked = list()\n\n"
            "        for ro in ros:\n"
            "            if ro.occupation is DOWN:\n"
            "                continue\n"
            "            if occupation <= BUSY - ro.occupation:\n"
            "                picked.append(RO(index=ro.index, occupation=occupation))\n"
            "            if len(picked) == count:\n"
            "                break\n\n"
            "        return picked\n\n\n"
            "    # --------------------------------------------------------------------------\n"
            "    #\n")


def _fs_picked(gpu_test='len(gpus) < n_gpus', stop='len(picked) == count',
               gpu_count='n_gpus'):
    """seed C02-r10: `_pick_ros` returns the list, find_slot caches the
    counts in locals and refuses a short list itself"""
    return [(_N, _FS_DEF, _FS_PICK.replace('len(picked) == count', stop) +
             _FS_DEF + "            n_cores = rr.n_cores\n"
                       "            n_gpus  = rr.n_gpus\n"),
            (_N, _FS_CORES,
             "                cores = self._pick_ros(self.cores, n_cores,\n"
             "                                       rr.core_occupation)\n"
             "                if len(cores) < n_cores:\n                    return None\n"),
            (_N, _FS_GPUS,
             "                gpus = self._pick_ros(self.gpus, %s,\n"
             "                                      rr.gpu_occupation)\n"
             "                if %s:\n                    return None\n"
             % (gpu_count, gpu_test))]


# --- the share branch of Continuous._find_resources as for / else (seed
#     C01-r10): the pick leaves the loop, exhaustion gives the node up
_SHARE_OLD = ("                    if gpus_per_slot <= rpc.BUSY - gpu_used:\n"
              "                        slot['gpus'].append(RO(index=gpu_idx,\n"
              "                                               occupation=gpus_per_slot))\n"
              "                        gpu_shares[gpu_idx] = gpus_per_slot + \\\n"
              "                                              gpu_shares.get(gpu_idx, 0.0)\n"
              "                        break\n"
              "                    else:\n"
              "                        loop_gpu_idx = gpu_idx + 1\n\n"
              "                if len(slot['gpus']) < 1:\n"
              "                    self._log.debug_9('not enough gpus on %s (2)', node_name)\n"
              "                    break\n")


def _share_forelse(tail="                else:\n"
                        "                    self._log.debug_9('not enough gpus on %s (2)', node_name)\n"
                        "                    break\n",
                   leave="                        break\n",
                   occ='gpus_per_slot'):
    return [(_C, _SHARE_OLD,
             "                    if gpus_per_slot <= rpc.BUSY - gpu_used:\n"
             "                        slot['gpus'].append(RO(index=gpu_idx,\n"
             "                                               occupation=%s))\n"
             "                        gpu_shares[gpu_idx] = gpus_per_slot + \\\n"
             "                                              gpu_shares.get(gpu_idx, 0.0)\n"
             % occ + leave +
             "                    loop_gpu_idx = gpu_idx + 1\n\n" + tail)]


# --- R02.15 / R02.16 building blocks
_RR_GUARD = ("        if not rr.n_cores:\n"
             "            raise ValueError('invalid rank requirements: %s' % rr)\n\n")
_RR_DIV = "        ranks_per_node = self.cores_per_node / rr.n_cores\n"
_ASSERT_DEF = "    def _assert_rr(self, rr: RankRequirements, n_slots:int) -> None:\n"
_UNSCHED = ("        for task in ru.as_list(tasks):\n"
            "            self._change_slot_states(task['slots'], rpc.FREE)\n\n\n"
            "    # --------------------------------------------------------------------------\n"
            "    #\n"
            "    def _find_resources(self, node, n_slots, cores_per_slot,\n")
_UNSCHED_TAIL = ("\n\n    # --------------------------------------------------------------------------\n"
                 "    #\n"
                 "    def _find_resources(self, node, n_slots, cores_per_slot,\n")
_UNSCHED_LOOP = ("        for task in ru.as_list(tasks):\n"
                 "            self._change_slot_states(task['slots'], rpc.FREE)\n")
_INIT_HIST = ("        self._colo_history = dict()\n"
              "        self._tagged_nodes = set()\n"
              "        self._scattered    = None\n")


def _unsched(extra):
    return [(_C, _UNSCHED, _UNSCHED_LOOP + extra + _UNSCHED_TAIL)]


MUTATIONS = [
    dict(name='R02.1 short-cores test off by one', rules=('R02.1',), edits=[
        (_C, "            if len(slot['cores']) < cores_per_slot:\n                self._log.debug_9('not enough cores on %s', node_name)\n                break\n",
             "            if len(slot['cores']) < cores_per_slot - 1:\n                self._log.debug_9('not enough cores on %s', node_name)\n                break\n")],
         note='bound expression changed: count test no longer against the bound alone'),
    dict(name='R02.1 short-cores test dropped', rules=('R02.1',), edits=[
        (_C, "            if len(slot['cores']) < cores_per_slot:\n                self._log.debug_9('not enough cores on %s', node_name)\n                break\n", "")]),
    dict(name='R02.1 short-gpus test only logs', rules=('R02.1',), edits=[
        (_C, "                    self._log.debug_9('not enough gpus on %s (1)', node_name)\n                    break\n",
             "                    self._log.debug_9('not enough gpus on %s (1)', node_name)\n")]),
    dict(name='R02.1 core picking does not stop at the count', rules=('R02.1',), edits=[
        (_C, "                if len(slot['cores']) == cores_per_slot:\n                    break\n", "")]),
    dict(name='R02.1 core picking stop test uses >', rules=('R02.1',), edits=[
        (_C, "                if len(slot['cores']) == cores_per_slot:\n                    break\n", "                if len(slot['cores']) > cores_per_slot:\n                    break\n")]),
    dict(name='R02.1 short list returned when not partial', rules=('R02.1',), edits=[
        (_C, "        if not partial and len(slots) < n_slots:\n            return None\n", "")]),
    dict(name='R02.1 partial polarity flipped', rules=('R02.1',), edits=[
        (_C, "        if not partial and len(slots) < n_slots:", "        if partial and len(slots) < n_slots:")]),
    dict(name='R02.1 jsrun: not-partial test dropped', rules=('R02.1',), edits=[
        (_J, "        if not partial:\n            if alc_slots < n_slots:\n                return None\n", "")]),
    dict(name='R02.1 jsrun: core loop bound uses <=', rules=('R02.1',), edits=[
        (_J, "            while len(cores) < cores_per_slot:", "            while len(cores) <= cores_per_slot:")],
         note='<= as a count-vs-bound operator: reached label unknown'),
    dict(name='R02.2 found slots counted but not collected on last node', rules=('R02.2',), edits=[
        (_C, "            rem_slots -= len(new_slots)\n            alc_slots.extend(new_slots)\n", "            rem_slots -= len(new_slots)\n            if not is_last:\n                alc_slots.extend(new_slots)\n")]),
    dict(name='R02.2 continuity reset forgets the count', rules=('R02.2',), edits=[
        (_C, "                    alc_slots = list()\n                    rem_slots = req_slots\n", "                    alc_slots = list()\n")]),
    dict(name='R02.2 continuity reset forgets the list', rules=('R02.2',), edits=[
        (_J, "                    alc_slots = list()\n                    rem_slots = req_slots\n", "                    rem_slots = req_slots\n")]),
    dict(name='R02.2 incomplete placement returned', rules=('R02.2',), edits=[
        (_C, "        if  rem_slots > 0:\n            return None, None  # signal failure\n", "")]),
    dict(name='R02.2 failure test reversed', rules=('R02.2',), edits=[
        (_C, "        if  rem_slots > 0:", "        if  rem_slots < 0:")]),
    dict(name='R02.4 ranks_per_node ignored', rules=('R02.4',), edits=[
        (_C, "        if ranks_per_node:\n            slots_per_node = min(slots_per_node, ranks_per_node)\n", "")]),
    dict(name='R02.4 jsrun ranks_per_node ignored (fix reverted)', rules=('R02.4',), edits=[
        (_J, "        if ranks_per_node:\n            # a slot hosts `ranks_per_slot` ranks\n            slots_per_node = min(slots_per_node,\n                                 ranks_per_node // ranks_per_slot)\n", "")]),
    dict(name='R02.7 lfs and mem arguments swapped', rules=('R02.7',), edits=[
        (_C, "                                             lfs_per_slot   = lfs_per_slot,\n                                             mem_per_slot   = mem_per_slot,",
             "                                             lfs_per_slot   = mem_per_slot,\n                                             mem_per_slot   = lfs_per_slot,")]),
    dict(name='R02.7 gpus read from cores_per_rank', rules=('R02.7',), edits=[
        (_C, "        gpus_per_slot  = td['gpus_per_rank']", "        gpus_per_slot  = td['cores_per_rank']")]),
    dict(name='R02.7 slot records mem as lfs', rules=('R02.7',), edits=[
        (_C, "                     'lfs'       : lfs_per_slot,\n                     'mem'       : mem_per_slot}", "                     'lfs'       : mem_per_slot,\n                     'mem'       : mem_per_slot}")]),
    dict(name='R02.7 jsrun slot names the wrong node', rules=('R02.7',), edits=[
        (_J, "        node_index = node['index']\n        node_name  = node['name']\n\n        core_idx   = 0", "        node_index = 0\n        node_name  = node['name']\n\n        core_idx   = 0")]),
    dict(name='R02.5 colocate membership polarity flipped', rules=('R02.5',), edits=[
        (_C, "                    if node_index not in self._colo_history[colo_tag]:", "                    if node_index in self._colo_history[colo_tag]:")]),
    dict(name='R02.5 colocate skip only logs', rules=('R02.5',), edits=[
        (_J, "                    if node_index not in self._colo_history[colo_tag]:\n                        continue\n", "                    if node_index not in self._colo_history[colo_tag]:\n                        pass\n")]),
    dict(name='R02.5 history written before completeness test', rules=('R02.5',), edits=[
        (_C, "        # if we did not find enough, there is not much we can do at this point\n        if  rem_slots > 0:\n            return None, None  # signal failure\n", ""),
        (_C, "            self._tagged_nodes.update(self._colo_history[colo_tag])\n", "            self._tagged_nodes.update(self._colo_history[colo_tag])\n\n        if  rem_slots > 0:\n            return None, None  # signal failure\n")]),
    dict(name='R02.9 counter decremented by the request, not by what was found (seed C02-c)', rules=('R02.9',), edits=[
        (_C, "            rem_slots -= len(new_slots)\n", "            rem_slots -= n_slots\n")]),
    dict(name='R02.9 jsrun: counter decremented by the request', rules=('R02.9',), edits=[
        (_J, "            rem_slots -= len(new_slots)\n", "            rem_slots -= n_slots\n")]),
    dict(name='R02.9 counter decremented by the length of the allocation so far', rules=('R02.9',), edits=[
        (_C, "            rem_slots -= len(new_slots)\n", "            rem_slots -= len(alc_slots)\n")]),
    dict(name='R02.9 counter decremented by a hoisted copy of the request', rules=('R02.9',), edits=[
        (_C, "            rem_slots -= len(new_slots)\n", "            n_found = n_slots\n            rem_slots = rem_slots - n_found\n")]),
    dict(name='R02.9 jsrun: counter decremented by one per node', rules=('R02.9',), edits=[
        (_J, "            rem_slots -= len(new_slots)\n", "            rem_slots -= 1\n")]),
    dict(name='R02.6 tag normalised and recorded by truth, filtered by None-test (seed C02-d)', rules=('R02.6',), edits=[
        (_C, "        if colo_tag is not None:\n            colo_tag = str(colo_tag)\n", "        if colo_tag:\n            colo_tag = str(colo_tag)\n"),
        (_C, "        if colo_tag is not None and colo_tag != str(partition_id):", "        if colo_tag and colo_tag != str(partition_id):")]),
    dict(name='R02.6 jsrun: same, normalisation as conditional expression, record guard as early pass', rules=('R02.6',), edits=[
        (_J, "        if colo_tag is not None:\n            colo_tag = str(colo_tag)\n", "        colo_tag = str(colo_tag) if colo_tag else colo_tag\n"),
        (_J, "        if colo_tag is not None and colo_tag != str(partition_id):\n            self._colo_history[colo_tag] = [slot['node_index']\n                                            for slot in alc_slots]\n            self._tagged_nodes.update(self._colo_history[colo_tag])\n",
             "        if not colo_tag or colo_tag == str(partition_id):\n            pass\n        else:\n            self._colo_history[colo_tag] = [slot['node_index']\n                                            for slot in alc_slots]\n            self._tagged_nodes.update(self._colo_history[colo_tag])\n")]),
    dict(name='R02.6 only the recording is by truth: the empty-string tag is filtered but never recorded', rules=('R02.6',), edits=[
        (_C, "        if colo_tag is not None and colo_tag != str(partition_id):", "        if colo_tag and colo_tag != str(partition_id):")]),
    dict(name='R02.6 only the filter is by truth: falsy tags are recorded but never looked up', rules=('R02.6',), edits=[
        (_C, "            if colo_tag is not None:\n                if colo_tag in self._colo_history:", "            if colo_tag:\n                if colo_tag in self._colo_history:")]),
    dict(name='R02.1 chunk form: last chunk tested for emptiness only (seed C02-e)', rules=('R02.1',),
         edits=_chunk("            if not core_ids:\n" + _BRK, head=_HEAD_FAST)),
    dict(name='R02.1 chunk form: chunk compared with zero', rules=('R02.1',),
         edits=_chunk("            if len(core_ids) == 0:\n" + _BRK)),
    dict(name='R02.1 chunk form: no test on the chunk at all', rules=('R02.1',),
         edits=_chunk("")),
    dict(name='R02.1 chunk form: emptiness test, slot filled by a loop', rules=('R02.1',),
         edits=_chunk("            if not core_ids:\n" + _BRK, store=_STORE_LOOP)),
    dict(name='R02.1 chunk form: list consumed, only the first chunk is compared with the request', rules=('R02.1',),
         edits=_chunk("            if not core_ids:\n" + _BRK, head=_HEAD_FAST,
                      cut="            core_ids   = free_cores[:cores_per_slot]\n"
                          "            free_cores = free_cores[cores_per_slot:]\n")),
    dict(name='R02.10 slots of a completed task handed to a waiting task of the same tuple_size (seed C02-f)', rules=('R02.10',), edits=[
        (_B, _REL_OLD, _FIND + "                replace['slots']     = task['slots']\n                replace['partition'] = task.get('partition')\n" + _START)]),
    dict(name='R02.10 hand-over through a deep copy and dict.update', rules=('R02.10',), edits=[
        (_B, _REL_OLD, _FIND + "                handed = copy.deepcopy(task['slots'])\n                replace.update({'slots': handed, 'partition': task.get('partition')})\n" + _START)]),
    dict(name='R02.10 hand-over in an extracted helper', rules=('R02.10',), edits=[
        (_B, _REL_OLD, _FIND + "                self._hand_over(task, replace)\n" + _START),
        (_B, _TRY_DEF, "    # --------------------------------------------------------------------------\n    #\n    def _hand_over(self, src, dst):\n\n        dst['slots']     = src['slots']\n        dst['partition'] = src.get('partition')\n\n\n" + _TRY_DEF)]),
    dict(name='R02.10 application-supplied slots taken from the first task of the bulk', rules=('R02.10',), edits=[
        (_B, _APP_OLD, "                    task['slots']     = tasks[0]['description']['slots']\n")]),
    dict(name='R02.10 failed search falls back to the placement found for another task', rules=('R02.10',), edits=[
        (_B, _CALL_OLD, "            slots, partition = self.schedule_task(task)\n            if not slots and self._last:\n                slots, partition = self.schedule_task(self._last)\n            if not slots:\n")]),
    dict(name='R02.5 membership looked up in the union of all tags (seed C02-g2)', rules=('R02.5',), edits=[
        (_C, "                    if node_index not in self._colo_history[colo_tag]:", "                    if node_index not in self._tagged_nodes:")]),
    dict(name='R02.5 jsrun: same, the union hoisted into a local', rules=('R02.5',), edits=[
        (_J, "                    if node_index not in self._colo_history[colo_tag]:", "                    used = self._tagged_nodes\n                    if node_index not in used:")]),
    dict(name='R02.5 membership looked up under the key of the partition, not of the tag', rules=('R02.5',), edits=[
        (_C, "                    if node_index not in self._colo_history[colo_tag]:", "                    if node_index not in self._colo_history.get(str(partition_id), []):")]),
    dict(name='R02.5 tag check as a local closure (seed C02-r7) which looks at the union of all tags', rules=('R02.5',), edits=[
        (_C, _ALC_OLD, _SKIP_DEF.replace("return node_index not in tag_nodes", "return node_index not in self._tagged_nodes") + _ALC_OLD),
        (_C, _COLO_OLD, _SKIP_USE)]),
    dict(name='R02.5 tag check as a local closure with the polarity flipped', rules=('R02.5',), edits=[
        (_C, _ALC_OLD, _SKIP_DEF.replace("return node_index not in tag_nodes", "return node_index in tag_nodes") + _ALC_OLD),
        (_C, _COLO_OLD, _SKIP_USE)]),
    dict(name='R02.11 find_slot: GPU picking stops at the core count (seed C02-g4)', rules=('R02.11',), edits=[
        (_N, "                    if len(gpus) == rr.n_gpus:", "                    if len(gpus) == rr.n_cores:")]),
    dict(name='R02.11 find_slot: both GPU count tests use the core count', rules=('R02.11',), edits=[
        (_N, "                    if len(gpus) == rr.n_gpus:", "                    if len(gpus) == rr.n_cores:"),
        (_N, "                if len(gpus) < rr.n_gpus:", "                if len(gpus) < rr.n_cores:")]),
    dict(name='R02.11 find_slot: core count tests use the GPU count through a local', rules=('R02.11',), edits=[
        (_N, "                for ro in self.cores:\n", "                need = rr.n_gpus\n                for ro in self.cores:\n"),
        (_N, "                    if len(cores) == rr.n_cores:", "                    if len(cores) == need:"),
        (_N, "                if len(cores) < rr.n_cores:", "                if len(cores) < need:")]),
    dict(name='R02.11 find_slot: short GPU list is not refused', rules=('R02.11',), edits=[
        (_N, "                if len(gpus) < rr.n_gpus:\n                    return None\n", "")]),
    dict(name='R02.11 find_slot: GPUs entered with the core share', rules=('R02.11',), edits=[
        (_N, "                                       occupation=rr.gpu_occupation))", "                                       occupation=rr.core_occupation))")]),
    dict(name='R02.11 find_slot: GPUs picked from the core pool', rules=('R02.11',), edits=[
        (_N, "                for ro in self.gpus:", "                for ro in self.cores:")]),
    dict(name='R02.11 find_slot: slot carries mem as lfs', rules=('R02.11',), edits=[
        (_N, "            slot = Slot(cores=cores, gpus=gpus, lfs=rr.lfs, mem=rr.mem,", "            slot = Slot(cores=cores, gpus=gpus, lfs=rr.mem, mem=rr.mem,")]),
    dict(name='R02.12 handler of _try_allocation no longer re-raises (seed C02-g5)', rules=('R02.12',), edits=[
        (_B, "            task['exception_detail'] = '\\n'.join(ru.get_exception_trace())\n            raise\n\n        return True\n", "            task['exception_detail'] = '\\n'.join(ru.get_exception_trace())\n\n        return True\n")]),
    dict(name='R02.12 handler re-raises only when nothing is running', rules=('R02.12',), edits=[
        (_B, "            task['exception_detail'] = '\\n'.join(ru.get_exception_trace())\n            raise\n\n        return True\n", "            task['exception_detail'] = '\\n'.join(ru.get_exception_trace())\n            if self._active_cnt == 0:\n                raise\n\n        return True\n")]),
    dict(name='R02.12 a task that has to wait is reported as granted', rules=('R02.12',), edits=[
        (_B, "                return False\n\n            self._active_cnt += 1\n", "                return True\n\n            self._active_cnt += 1\n")]),
    dict(name='R02.12 empty result falls through to the grant', rules=('R02.12',), edits=[
        (_B, "                return False\n\n            self._active_cnt += 1\n", "            self._active_cnt += 1\n")]),
    dict(name='R02.12 success decided by a flag that is set before the try', rules=('R02.12',), edits=[
        (_B, "        try:\n            uid = task['uid']\n", "        granted = True\n        try:\n            uid = task['uid']\n"),
        (_B, "            task['exception_detail'] = '\\n'.join(ru.get_exception_trace())\n            raise\n\n        return True\n", "            task['exception_detail'] = '\\n'.join(ru.get_exception_trace())\n\n        return granted\n")]),
    dict(name='R02.13 mem_per_process translated from lfs_per_process (seed C02-g6)', rules=('R02.13',), edits=[
        (_T, "            self.mem_per_rank = self.mem_per_process\n", "            self.mem_per_rank = self.lfs_per_process\n")]),
    dict(name='R02.13 cpu_threads lands in gpus_per_rank', rules=('R02.13',), edits=[
        (_T, "            self.cores_per_rank = self.cpu_threads\n", "            self.gpus_per_rank = self.cpu_threads\n")]),
    dict(name='R02.13 lfs_per_process cleared before it is copied', rules=('R02.13',), edits=[
        (_T, "            self.lfs_per_rank = self.lfs_per_process\n            self.lfs_per_process = 0\n", "            self.lfs_per_process = 0\n            self.lfs_per_rank = self.lfs_per_process\n")]),
    dict(name='R02.11 find_slot: shared pick helper called with the core count for the GPUs', rules=('R02.11', 'R02.S'),
         edits=_fs_shared('self.gpus, rr.n_cores, rr.gpu_occupation'),
         note='R02.11 cannot see the picks in the tree as it is (abstains) and reports in both normalised views; '
              'the shared sibling rule R02.S reports in all three, so the consensus verdict carries R02.S'),
    dict(name='R02.11 find_slot: shared pick helper called with the core pool for the GPUs', rules=('R02.11', 'R02.S'),
         edits=_fs_shared('self.cores, rr.n_gpus, rr.gpu_occupation'),
         note='as above'),
    dict(name='R02.14 handler of the supplied-placement check falls through to the start (seed C02-h5)', rules=('R02.14',), edits=[
        (_B, _PRE_ALL, _PRE_TRY + _PRE_GO)]),
    dict(name='R02.14 handler leaves only when nothing is running', rules=('R02.14',), edits=[
        (_B, _PRE_ALL, _PRE_TRY + "                        if not self._active_cnt:\n                            continue\n" + _PRE_GO)]),
    dict(name='R02.14 supplied placement started before it is looked up', rules=('R02.14',), edits=[
        (_B, _PRE_ALL, "                    self.advance(task, rps.AGENT_EXECUTING_PENDING,\n"
                       "                                 publish=True, push=True, fwd=True)\n" +
                       _PRE_TRY + _PRE_CONT + "                    self._active_cnt += 1\n                    continue\n")]),
    dict(name='R02.14 outcome of the look-up kept in a flag that the handler forgets to clear', rules=('R02.14',), edits=[
        (_B, _PRE_ALL, "                    placed = True\n" + _PRE_TRY +
                       "                    if not placed:\n                        continue\n" + _PRE_GO)]),
    dict(name='R02.14 look-up in a helper whose handler falls through to `return True`', rules=('R02.14',), edits=[
        (_B, _PRE_ALL, "                    if not self._mark_supplied(task):\n                        continue\n" + _PRE_GO),
        (_B, _TRY_DEF, "    # --------------------------------------------------------------------------\n    #\n"
                       "    def _mark_supplied(self, task):\n\n"
                       "        try:\n"
                       "            self._change_slot_states(task['slots'], rpc.BUSY)\n"
                       "        except Exception as e:\n"
                       "            self._fail_task(task, e, '\\n'.join(ru.get_exception_trace()))\n"
                       "        return True\n\n\n" + _TRY_DEF)]),
    dict(name='R02.1 share pick as for/else: exhaustion of the GPUs no longer gives the node up', rules=('R02.1',),
         edits=_share_forelse(tail="                else:\n"
                                   "                    self._log.debug_9('not enough gpus on %s (2)', node_name)\n")),
    dict(name='R02.1 share pick as for/else: picking goes on after the first GPU', rules=('R02.1',),
         edits=_share_forelse(leave="                        continue\n")),
    dict(name='R02.11 find_slot, pick helper returns the list (seed C02-r10 shape): short GPU list compared with the core count', rules=('R02.11',),
         edits=_fs_picked(gpu_test='len(gpus) < n_cores')),
    dict(name='R02.11 find_slot, pick helper returns the list: helper asked for n_cores GPUs', rules=('R02.11', 'R02.S'),
         edits=_fs_picked(gpu_count='n_cores')),
    dict(name='R02.11 find_slot, pick helper returns the list: short GPU list is not refused', rules=('R02.11',),
         edits=_fs_picked(gpu_test='False')),
    dict(name='R02.12 bool(slots) returned before the placement is stored, handler swallows', rules=('R02.12',), edits=[
        (_B, "            task['exception_detail'] = '\\n'.join(ru.get_exception_trace())\n            raise\n\n        return True\n", "            task['exception_detail'] = '\\n'.join(ru.get_exception_trace())\n\n        return bool(slots)\n"),
        (_B, "        try:\n            uid = task['uid']\n", "        slots = None\n        try:\n            uid = task['uid']\n")]),
    dict(name='R02.15 _assert_rr treats the core count like the other limits: n_cores == 0 passes (seed C02-i5)', rules=('R02.15',), edits=[
        (_N, _RR_GUARD + _RR_DIV,
             "        ranks_per_node = float(self.cores_per_node)\n\n"
             "        if rr.n_cores:\n"
             "            ranks_per_node = min(ranks_per_node, self.cores_per_node / rr.n_cores)\n")]),
    dict(name='R02.15 zero core count guarded against only together with a zero gpu count, division under a test', rules=('R02.15',), edits=[
        (_N, _RR_GUARD + _RR_DIV,
             "        if not rr.n_cores and not rr.n_gpus:\n"
             "            raise ValueError('invalid rank requirements: %s' % rr)\n\n"
             "        ranks_per_node = float(self.cores_per_node)\n"
             "        if rr.n_cores:\n"
             "            ranks_per_node /= rr.n_cores\n")]),
    dict(name='R02.15 guard tests for None only, zero count gets all cores of the node', rules=('R02.15',), edits=[
        (_N, _RR_GUARD + _RR_DIV,
             "        if rr.n_cores is None:\n"
             "            raise ValueError('invalid rank requirements: %s' % rr)\n\n"
             "        if rr.n_cores:\n"
             "            ranks_per_node = self.cores_per_node / rr.n_cores\n"
             "        else:\n"
             "            ranks_per_node = self.cores_per_node\n")]),
    dict(name='R02.15 find_slots does not verify the request any more', rules=('R02.15',), edits=[
        (_N, "        self._assert_rr(rr, n_slots)\n\n        if self.__last_failed_rr__:\n",
             "        if self.__last_failed_rr__:\n")]),
    dict(name='R02.16 unschedule_task forgets the tag of the released task (seed C02-i6)', rules=('R02.16',), edits=_unsched(
        "\n            colo_tag = task['description'].get('tags', {}).get('colocate')\n"
        "            if colo_tag is not None:\n"
        "                self._colo_history.pop(str(colo_tag), None)\n")),
    dict(name='R02.16 unschedule_task deletes the entry through an alias of the history', rules=('R02.16',), edits=_unsched(
        "\n            known = self._colo_history\n"
        "            tag   = str(task['description']['tags'].get('colocate'))\n"
        "            if tag in known:\n"
        "                del known[tag]\n")),
    dict(name='R02.16 unschedule_task drops the nodes of the released task from the entry of the tag', rules=('R02.16',), edits=_unsched(
        "\n            tag = str(task['description']['tags'].get('colocate'))\n"
        "            for slot in task['slots']:\n"
        "                if slot['node_index'] in self._colo_history.get(tag, []):\n"
        "                    self._colo_history[tag].remove(slot['node_index'])\n")),
    dict(name='R02.16 the history is reset by a helper that unschedule_task calls too', rules=('R02.16',), edits=[
        (_C, _INIT_HIST, "        self._reset_tags()\n        self._scattered    = None\n"),
        (_C, "    # --------------------------------------------------------------------------\n    #\n    def _configure(self):\n",
             "    # --------------------------------------------------------------------------\n    #\n"
             "    def _reset_tags(self):\n\n"
             "        self._colo_history = dict()\n"
             "        self._tagged_nodes = set()\n\n\n"
             "    # --------------------------------------------------------------------------\n    #\n    def _configure(self):\n"),
        (_C, _UNSCHED, _UNSCHED_LOOP +
             "\n        if not self._active_cnt:\n"
             "            self._reset_tags()\n" + _UNSCHED_TAIL)]),
    dict(name='R02.16 jsrun: the history is cleared on release', rules=('R02.16',), edits=[
        (_J, "        for task in ru.as_list(tasks):\n            self._change_slot_states(task['slots'], rpc.FREE)\n",
             "        for task in ru.as_list(tasks):\n            self._change_slot_states(task['slots'], rpc.FREE)\n\n        self._colo_history.clear()\n")]),
    dict(name='R02.17 find_slot: the slot is not given the mem of the request (seed C02-j4)', rules=('R02.17',), edits=[
        (_N, "            slot = Slot(cores=cores, gpus=gpus, lfs=rr.lfs, mem=rr.mem,", "            slot = Slot(cores=cores, gpus=gpus, lfs=rr.lfs,")]),
    dict(name='R02.17 find_slot: the slot is not given the lfs of the request', rules=('R02.17',), edits=[
        (_N, "            slot = Slot(cores=cores, gpus=gpus, lfs=rr.lfs, mem=rr.mem,", "            slot = Slot(cores=cores, gpus=gpus, mem=rr.mem,")]),
    dict(name='R02.17 find_slot: the slot is not given the picked gpus', rules=('R02.17',), edits=[
        (_N, "            slot = Slot(cores=cores, gpus=gpus, lfs=rr.lfs, mem=rr.mem,", "            slot = Slot(cores=cores, lfs=rr.lfs, mem=rr.mem,")]),
    dict(name='R02.17 find_slot: the slot is not given the node index', rules=('R02.17',), edits=[
        (_N, "                        node_index=self.index, node_name=self.name)\n            self.allocate_slot(slot, _check=False)", "                        node_name=self.name)\n            self.allocate_slot(slot, _check=False)")]),
    dict(name='R02.17 find_slot: mem stored on the slot only after it was debited and on another object', rules=('R02.17',), edits=[
        (_N, '            slot = Slot(cores=cores, gpus=gpus, lfs=rr.lfs, mem=rr.mem,\n                        node_index=self.index, node_name=self.name)\n', "            slot = Slot(cores=cores, gpus=gpus, lfs=rr.lfs,\n                        node_index=self.index, node_name=self.name)\n            other = Slot()\n            other.mem = rr.mem\n")]),
    dict(name='R02.17 find_slot: fields through **dict, mem left out', rules=('R02.17',), edits=[
        (_N, '            slot = Slot(cores=cores, gpus=gpus, lfs=rr.lfs, mem=rr.mem,\n                        node_index=self.index, node_name=self.name)\n', "            amounts = {'lfs': rr.lfs}\n            slot = Slot(cores=cores, gpus=gpus, node_index=self.index,\n                        node_name=self.name, **amounts)\n")]),
    dict(name='R02.11 find_slot: mem stored on the slot after construction is the lfs of the request', rules=('R02.11',), edits=[
        (_N, '            slot = Slot(cores=cores, gpus=gpus, lfs=rr.lfs, mem=rr.mem,\n                        node_index=self.index, node_name=self.name)\n', "            slot = Slot(cores=cores, gpus=gpus, lfs=rr.lfs,\n                        node_index=self.index, node_name=self.name)\n            slot.mem = rr.lfs\n")]),
    dict(name='R02.17 find_slot: mem stored on the slot only after the node was debited', rules=('R02.17',), edits=[
        (_N, "            slot = Slot(cores=cores, gpus=gpus, lfs=rr.lfs, mem=rr.mem,\n                        node_index=self.index, node_name=self.name)\n            self.allocate_slot(slot, _check=False)\n", "            slot = Slot(cores=cores, gpus=gpus, lfs=rr.lfs,\n                        node_index=self.index, node_name=self.name)\n            self.allocate_slot(slot, _check=False)\n            slot.mem = rr.mem\n")]),
]


SILENT = [
    dict(name='short-cores test as not >=', edits=[
        (_C, "            if len(slot['cores']) < cores_per_slot:\n                self._log.debug_9('not enough cores on %s', node_name)", "            if not len(slot['cores']) >= cores_per_slot:\n                self._log.debug_9('not enough cores on %s', node_name)")]),
    dict(name='stop test with bound on the left', edits=[
        (_C, "                if len(slot['cores']) == cores_per_slot:\n                    break\n", "                if cores_per_slot == len(slot['cores']):\n                    break\n")]),
    dict(name='partial test nested', edits=[
        (_C, "        if not partial and len(slots) < n_slots:\n            return None\n", "        if not partial:\n            if len(slots) < n_slots:\n                return None\n")]),
    dict(name='collect before count', edits=[
        (_C, "            rem_slots -= len(new_slots)\n            alc_slots.extend(new_slots)\n", "            alc_slots.extend(new_slots)\n            rem_slots -= len(new_slots)\n")]),
    dict(name='failure test as == 0 positive form', edits=[
        (_C, "        if  rem_slots > 0:\n            return None, None  # signal failure\n", "        if  not rem_slots == 0:\n            return None, None  # signal failure\n")]),
    dict(name='membership test positive with else-continue', edits=[
        (_C, "                    if node_index not in self._colo_history[colo_tag]:\n                        continue\n", "                    if node_index in self._colo_history[colo_tag]:\n                        pass\n                    else:\n                        continue\n")]),
    dict(name='renamed remaining counter', edits=[
        (_J, "        rem_slots = req_slots\n\n        # start the search", "        rem_slots = req_slots\n        todo = rem_slots\n\n        # start the search")]),
    dict(name='asserts on per-node limits removed (R02.3 is information only)', edits=[
        (_C, "        assert lfs_per_slot   <= lfs_per_node, \\\n               'too much lfs     per proc %s' % lfs_per_slot\n", "")]),
    dict(name='length of the found list hoisted into a local', edits=[
        (_C, "            rem_slots -= len(new_slots)\n", "            n_found = len(new_slots)\n            rem_slots -= n_found\n")]),
    dict(name='found list counted through an alias', edits=[
        (_C, "            rem_slots -= len(new_slots)\n", "            found = new_slots\n            rem_slots -= len(found)\n")]),
    dict(name='collection by += and decrement spelled as rem = rem - n', edits=[
        (_J, "            rem_slots -= len(new_slots)\n            alc_slots.extend(new_slots)\n", "            alc_slots += new_slots\n            rem_slots = rem_slots - len(new_slots)\n")]),
    dict(name='only the tag normalisation is by truth (key 0 is used consistently)', edits=[
        (_C, "        if colo_tag is not None:\n            colo_tag = str(colo_tag)\n", "        if colo_tag:\n            colo_tag = str(colo_tag)\n")]),
    dict(name='tag normalisation as conditional expression', edits=[
        (_C, "        if colo_tag is not None:\n            colo_tag = str(colo_tag)\n", "        colo_tag = None if colo_tag is None else str(colo_tag)\n")]),
    dict(name='tag read into another local and normalised from there', edits=[
        (_J, "        colo_tag = td['tags'].get('colocate')\n\n        if colo_tag is not None:\n            colo_tag = str(colo_tag)\n", "        raw_tag  = td['tags'].get('colocate')\n        colo_tag = None\n\n        if raw_tag is not None:\n            colo_tag = str(raw_tag)\n")]),
    dict(name='record guard as early pass with negated tests', edits=[
        (_C, "        if colo_tag is not None and colo_tag != str(partition_id):\n            self._colo_history[colo_tag] = [slot['node_index']\n                                            for slot in alc_slots]\n            self._tagged_nodes.update(self._colo_history[colo_tag])\n",
             "        if colo_tag is None or colo_tag == str(partition_id):\n            pass\n        else:\n            self._colo_history[colo_tag] = [slot['node_index']\n                                            for slot in alc_slots]\n            self._tagged_nodes.update(self._colo_history[colo_tag])\n")]),
    dict(name='record guard nested, None-test hoisted into a flag', edits=[
        (_J, "        if colo_tag is not None and colo_tag != str(partition_id):\n            self._colo_history[colo_tag] = [slot['node_index']\n                                            for slot in alc_slots]\n            self._tagged_nodes.update(self._colo_history[colo_tag])\n",
             "        tagged = colo_tag is not None\n        if tagged:\n            if colo_tag != str(partition_id):\n                self._colo_history[colo_tag] = [slot['node_index']\n                                                for slot in alc_slots]\n                self._tagged_nodes.update(self._colo_history[colo_tag])\n")]),
    dict(name='filter guard spelled `not (tag is None)`', edits=[
        (_J, "            if colo_tag is not None:\n                if colo_tag in self._colo_history:", "            if not (colo_tag is None):\n                if colo_tag in self._colo_history:")]),
    dict(name='chunk form: slots cut from a collected list, short chunk leaves (len < request)',
         edits=_chunk("            if len(core_ids) < cores_per_slot:\n" + _BRK)),
    dict(name='chunk form: chunk length compared with != and the fast path of the seed kept',
         edits=_chunk("            if len(core_ids) != cores_per_slot:\n" + _BRK, head=_HEAD_FAST)),
    dict(name='chunk form: length of the stored slot entry tested after the store',
         edits=_chunk("", cut="",
                      store="            slot['cores'] = [RO(index=core_idx, occupation=rpc.BUSY)\n"
                            "                                for core_idx in free_cores[loop_core_idx:loop_core_idx + cores_per_slot]]\n"
                            "            loop_core_idx += cores_per_slot\n"
                            "            if len(slot['cores']) < cores_per_slot:\n" + _BRK)),
    dict(name='chunk form: slot filled by a loop over the chunk, bound hoisted into a local',
         edits=_chunk("            need = cores_per_slot\n            if need > len(core_ids):\n" + _BRK, store=_STORE_LOOP)),
    dict(name='chunk form: what is left of the list is compared with the request before the cut',
         edits=_chunk("", cut="            if len(free_cores) - loop_core_idx < cores_per_slot:\n" + _BRK + _CUT)),
    dict(name='chunk form: same, as cursor + request > length',
         edits=_chunk("", cut="            if loop_core_idx + cores_per_slot > len(free_cores):\n" + _BRK + _CUT)),
    dict(name='chunk form: list consumed from the front, length tested before every cut',
         edits=_chunk("", cut="            if len(free_cores) < cores_per_slot:\n" + _BRK +
                              "            core_ids   = free_cores[:cores_per_slot]\n"
                              "            free_cores = free_cores[cores_per_slot:]\n")),
    dict(name='grant: result pair kept in a local and unpacked by index', edits=[
        (_B, _CALL_OLD, "            placed    = self.schedule_task(task)\n            slots     = placed[0]\n            partition = placed[1]\n            if not slots:\n")]),
    dict(name='grant: renamed locals, stored with dict.update', edits=[
        (_B, _CALL_OLD, "            placement, part = self.schedule_task(task)\n            slots, partition = placement, part\n            if not slots:\n"),
        (_B, _GRANT_OLD, "            task.update({'slots': slots, 'partition': partition})\n")]),
    dict(name='grant: the two stores extracted into a helper', edits=[
        (_B, _GRANT_OLD, "            self._grant(task, slots, partition)\n"),
        (_B, _TRY_DEF, "    # --------------------------------------------------------------------------\n    #\n    def _grant(self, task, slots, partition):\n\n        task['slots']     = slots\n        task['partition'] = partition\n\n\n" + _TRY_DEF)]),
    dict(name='application-supplied slots read through the task, not through td', edits=[
        (_B, _APP_OLD, "                    task['slots']     = task['description']['slots']\n")]),
    dict(name='application-supplied slots hoisted into a local and copied', edits=[
        (_B, "                if td.get('slots'):\n\n" + _APP_OLD, "                supplied = td.get('slots')\n                if supplied:\n\n                    task['slots']     = copy.deepcopy(supplied)\n")]),
    dict(name='tag check as a local closure in early-return form with dict.get (seed C02-r7)', edits=[
        (_C, _ALC_OLD, _SKIP_DEF + _ALC_OLD), (_C, _COLO_OLD, _SKIP_USE)]),
    dict(name='tag check as a local closure in positive form (`if not eligible(..): continue`)', edits=[
        (_C, _ALC_OLD, "        def eligible(idx):\n            if colo_tag is None:\n                return True\n            if colo_tag in self._colo_history:\n                return idx in self._colo_history[colo_tag]\n            excl = td['tags'].get('exclusive', False)\n            if excl and idx in self._tagged_nodes:\n                if len(self.nodes) > len(self._tagged_nodes):\n                    return False\n                self._log.warn('not enough nodes for exclusive tags, ' +\n                               'switched \"exclusive\" flag to \"False\"')\n            return True\n\n" + _ALC_OLD),
        (_C, _COLO_OLD, "            if not eligible(node_index):\n                continue\n")]),
    dict(name='history entry of the tag hoisted into a local', edits=[
        (_J, "                    if node_index not in self._colo_history[colo_tag]:", "                    recorded = self._colo_history[colo_tag]\n                    if node_index not in recorded:")]),
    dict(name='history looked up once with dict.get, None-test instead of `in`', edits=[
        (_C, "                if colo_tag in self._colo_history:\n                    if node_index not in self._colo_history[colo_tag]:\n                        continue\n", "                tag_nodes = self._colo_history.get(colo_tag)\n                if tag_nodes is not None:\n                    if node_index not in tag_nodes:\n                        continue\n")]),
    dict(name='partial ladder collapsed into one expression (seed C02-r7)', edits=[
        (_C, "            if not mpi:\n                # non-mpi tasks are never partially allocated\n                partial = False\n\n            elif is_first or self._scattered or is_last:\n                # we allow partial nodes on the first and last node,\n                # and on any node if a 'scattered' allocation is requested.\n                partial = True\n\n            else:\n                partial = False\n", "            partial = bool(mpi and (is_first or self._scattered or is_last))\n")]),
    dict(name='find_slot: GPU bound hoisted into a local, stop test as >=', edits=[
        (_N, "                for ro in self.gpus:\n", "                need = rr.n_gpus\n                for ro in self.gpus:\n"),
        (_N, "                    if len(gpus) == rr.n_gpus:", "                    if len(gpus) >= need:"),
        (_N, "                if len(gpus) < rr.n_gpus:", "                if need > len(gpus):")]),
    dict(name='find_slot: pool aliased, entry built in a local before it is appended', edits=[
        (_N, "                for ro in self.gpus:\n", "                pool = self.gpus\n                for ro in pool:\n"),
        (_N, "                        gpus.append(RO(index=ro.index,\n                                       occupation=rr.gpu_occupation))\n", "                        entry = RO(index=ro.index,\n                                   occupation=rr.gpu_occupation)\n                        gpus.append(entry)\n")]),
    dict(name='find_slot: share guard in early-continue form', edits=[
        (_N, "                    if rr.core_occupation <= BUSY - ro.occupation:\n                        cores.append(RO(index=ro.index,\n                                        occupation=rr.core_occupation))\n", "                    if rr.core_occupation > BUSY - ro.occupation:\n                        continue\n                    cores.append(RO(index=ro.index,\n                                    occupation=rr.core_occupation))\n")]),
    dict(name='find_slot: lfs / mem / node identity of the slot through locals', edits=[
        (_N, "            slot = Slot(cores=cores, gpus=gpus, lfs=rr.lfs, mem=rr.mem,\n                        node_index=self.index, node_name=self.name)\n", "            lfs, mem = rr.lfs, rr.mem\n            here     = self.index\n            slot = Slot(cores=cores, gpus=gpus, lfs=lfs, mem=mem,\n                        node_index=here, node_name=self.name)\n")]),
    dict(name='_try_allocation: success returned from inside the try block', edits=[
        (_B, "            self._prof.prof('schedule_ok', uid=uid)\n\n        except Exception as e:", "            self._prof.prof('schedule_ok', uid=uid)\n            return True\n\n        except Exception as e:")]),
    dict(name='_try_allocation: result flag set after the store and returned', edits=[
        (_B, "            self._prof.prof('schedule_ok', uid=uid)\n\n        except Exception as e:", "            self._prof.prof('schedule_ok', uid=uid)\n            granted = True\n\n        except Exception as e:"),
        (_B, "            task['exception_detail'] = '\\n'.join(ru.get_exception_trace())\n            raise\n\n        return True\n", "            task['exception_detail'] = '\\n'.join(ru.get_exception_trace())\n            raise\n\n        return granted\n")]),
    dict(name='_try_allocation: emptiness test spelled `is None or len() == 0`', edits=[
        (_B, "            slots, partition = self.schedule_task(task)\n            if not slots:\n", "            slots, partition = self.schedule_task(task)\n            if slots is None or len(slots) == 0:\n")]),
    dict(name='_try_allocation: handler re-raises the bound exception', edits=[
        (_B, "            task['exception_detail'] = '\\n'.join(ru.get_exception_trace())\n            raise\n\n        return True\n", "            task['exception_detail'] = '\\n'.join(ru.get_exception_trace())\n            raise e\n\n        return True\n")]),
    dict(name='_verify: mem_per_process copied through a local', edits=[
        (_T, "            self.mem_per_rank = self.mem_per_process\n            self.mem_per_process = 0\n", "            value = self.mem_per_process\n            self.mem_per_process = 0\n            self.mem_per_rank = value\n")]),
    dict(name='_verify: lfs_per_process alias block in subscript spelling', edits=[
        (_T, "        if self.lfs_per_process:\n            self.lfs_per_rank = self.lfs_per_process\n            self.lfs_per_process = 0", "        if self.get('lfs_per_process'):\n            self['lfs_per_rank'] = self['lfs_per_process']\n            self['lfs_per_process'] = 0")]),
    dict(name='_verify: gpu_processes converted by int-then-float', edits=[
        (_T, "            self.gpus_per_rank = float(self.gpu_processes)\n", "            n_gpus = self.gpu_processes\n            self.gpus_per_rank = float(n_gpus)\n")]),
    dict(name='find_slot: the two pick loops extracted into one static helper (seeds C02-r4, C02-r8)',
         edits=_fs_shared()),
    dict(name='supplied placement: success path in the else clause of the try', edits=[
        (_B, _PRE_ALL, _PRE_TRY +
         "                    else:\n"
         "                        self._active_cnt += 1\n\n"
         "                        self.advance(task, rps.AGENT_EXECUTING_PENDING,\n"
         "                                     publish=True, push=True, fwd=True)\n"
         "                    continue\n")]),
    dict(name='supplied placement: outcome of the look-up kept in a flag', edits=[
        (_B, _PRE_ALL, "                    placed = True\n" + _PRE_TRY +
         "                        placed = False\n"
         "                    if not placed:\n                        continue\n" + _PRE_GO)]),
    dict(name='supplied placement: slots hoisted into a local, renamed handler variable', edits=[
        (_B, _APP_OLD, "                    supplied          = td['slots']\n                    task['slots']     = supplied\n"),
        (_B, _PRE_TRY, "                    try:\n"
                       "                        self._change_slot_states(supplied, rpc.BUSY)\n"
                       "                    except Exception as exc:\n"
                       "                        self._fail_task(task, exc,\n"
                       "                                        '\\n'.join(ru.get_exception_trace()))\n")]),
    dict(name='supplied placement: look-up extracted into a helper that says whether it worked', edits=[
        (_B, _PRE_ALL, "                    if not self._mark_supplied(task):\n                        continue\n" + _PRE_GO),
        (_B, _TRY_DEF, "    # --------------------------------------------------------------------------\n    #\n"
                       "    def _mark_supplied(self, task):\n\n"
                       "        try:\n"
                       "            self._change_slot_states(task['slots'], rpc.BUSY)\n"
                       "        except Exception as e:\n"
                       "            self._fail_task(task, e, '\\n'.join(ru.get_exception_trace()))\n"
                       "            return False\n"
                       "        return True\n\n\n" + _TRY_DEF)]),
    dict(name='share pick of _find_resources as for / else (seed C01-r10)',
         edits=_share_forelse()),
    dict(name='share pick as for / else, the share hoisted into a local',
         edits=_share_forelse(occ='share') + [
             (_C, "            elif gpus_per_slot > 0.0:\n", "            elif gpus_per_slot > 0.0:\n\n                share = gpus_per_slot\n")]),
    dict(name='find_slot: pick helper returns the list, counts cached in locals (seed C02-r10)',
         edits=_fs_picked()),
    dict(name='find_slot: pick helper returns the list, short test as bound > len', edits=_fs_picked(gpu_test='n_gpus > len(gpus)')),
    dict(name='find_slot: pick helper returns the list, stop test as >=', edits=_fs_picked(stop='len(picked) >= count')),
    dict(name='_try_allocation: success signalled by returning bool(slots) from inside the try (SILENT variant of C01)', edits=[
        (_B, "            self._prof.prof('schedule_ok', uid=uid)\n\n        except Exception as e:", "            self._prof.prof('schedule_ok', uid=uid)\n            return bool(slots)\n\n        except Exception as e:")]),
    dict(name='_assert_rr: zero core count rejected by `< 1`', edits=[
        (_N, "        if not rr.n_cores:\n            raise ValueError('invalid rank requirements: %s' % rr)\n\n        ranks_per_node",
             "        if rr.n_cores < 1:\n            raise ValueError('invalid rank requirements: %s' % rr)\n\n        ranks_per_node")]),
    dict(name='_assert_rr: core count hoisted into a local', edits=[
        (_N, _RR_GUARD + _RR_DIV,
             "        n_cores = rr.n_cores\n"
             "        if not n_cores:\n"
             "            raise ValueError('invalid rank requirements: %s' % rr)\n\n"
             "        ranks_per_node = self.cores_per_node / n_cores\n")]),
    dict(name='_assert_rr: positive test of the core count, raise in the else branch', edits=[
        (_N, _RR_GUARD + _RR_DIV,
             "        if rr.n_cores:\n"
             "            ranks_per_node = self.cores_per_node / rr.n_cores\n"
             "        else:\n"
             "            raise ValueError('invalid rank requirements: %s' % rr)\n")]),
    dict(name='_assert_rr: core count check extracted into a helper method', edits=[
        (_N, _RR_GUARD + _RR_DIV, "        self._assert_cores(rr)\n\n" + _RR_DIV),
        (_N, _ASSERT_DEF,
             "    def _assert_cores(self, req: RankRequirements) -> None:\n\n"
             "        if req.n_cores <= 0:\n"
             "            raise ValueError('invalid rank requirements: %s' % req)\n\n\n"
             "    # --------------------------------------------------------------------------\n    #\n" + _ASSERT_DEF)]),
    dict(name='_assert_rr: zero core count rejected by `0 == n_cores`', edits=[
        (_N, "        if not rr.n_cores:\n            raise ValueError('invalid rank requirements: %s' % rr)\n\n        ranks_per_node",
             "        if 0 == rr.n_cores:\n            raise ValueError('invalid rank requirements: %s' % rr)\n\n        ranks_per_node")]),
    dict(name='colocate history set up by a helper of __init__', edits=[
        (_C, _INIT_HIST, "        self._reset_tags()\n        self._scattered    = None\n"),
        (_C, "    # --------------------------------------------------------------------------\n    #\n    def _configure(self):\n",
             "    # --------------------------------------------------------------------------\n    #\n"
             "    def _reset_tags(self):\n\n"
             "        self._colo_history = dict()\n"
             "        self._tagged_nodes = set()\n\n\n"
             "    # --------------------------------------------------------------------------\n    #\n    def _configure(self):\n")]),
    dict(name='unschedule_task reads the history through an alias and pops from a copy of the tags', edits=_unsched(
        "\n            known = self._colo_history\n"
        "            tags  = dict(task['description'].get('tags') or {})\n"
        "            tag   = tags.pop('colocate', None)\n"
        "            self._log.debug_5('release %s (tag %s, %d tags known)',\n"
        "                              task['uid'], tag, len(known))\n")),
    dict(name='colocate history and tagged nodes bound in one statement', edits=[
        (_C, "        self._colo_history = dict()\n        self._tagged_nodes = set()\n        self._scattered",
             "        self._colo_history, self._tagged_nodes = dict(), set()\n        self._scattered")]),
    dict(name='find_slot: mem / lfs stored on the slot object after construction, before the debit', edits=[
        (_N, '            slot = Slot(cores=cores, gpus=gpus, lfs=rr.lfs, mem=rr.mem,\n                        node_index=self.index, node_name=self.name)\n', "            slot = Slot(cores=cores, gpus=gpus,\n                        node_index=self.index, node_name=self.name)\n            slot.lfs = rr.lfs\n            slot['mem'] = rr.mem\n")]),
    dict(name='find_slot: mem stored under the class constant, only when the request asks for some', edits=[
        (_N, '            slot = Slot(cores=cores, gpus=gpus, lfs=rr.lfs, mem=rr.mem,\n                        node_index=self.index, node_name=self.name)\n', "            slot = Slot(cores=cores, gpus=gpus, lfs=rr.lfs,\n                        node_index=self.index, node_name=self.name)\n            if rr.mem:\n                slot[Slot.MEM] = rr.mem\n")]),
    dict(name='find_slot: amounts of the slot through a **dict local', edits=[
        (_N, '            slot = Slot(cores=cores, gpus=gpus, lfs=rr.lfs, mem=rr.mem,\n                        node_index=self.index, node_name=self.name)\n', "            amounts = {'lfs': rr.lfs, 'mem': rr.mem}\n            slot = Slot(cores=cores, gpus=gpus, node_index=self.index,\n                        node_name=self.name, **amounts)\n")]),
    dict(name='find_slot: slot built empty and filled by update() and stores, returned through an alias', edits=[
        (_N, '            slot = Slot(cores=cores, gpus=gpus, lfs=rr.lfs, mem=rr.mem,\n                        node_index=self.index, node_name=self.name)\n' + "            self.allocate_slot(slot, _check=False)\n\n            return slot\n", "            found = Slot(cores=cores, gpus=gpus)\n            found.update(dict(lfs=rr.lfs, mem=rr.mem))\n            found.node_index = self.index\n            found.node_name  = self.name\n            slot = found\n            self.allocate_slot(slot, _check=False)\n\n            return slot\n")]),
    dict(name='find_slot: keywords of Slot(..) reordered, mem through a local', edits=[
        (_N, '            slot = Slot(cores=cores, gpus=gpus, lfs=rr.lfs, mem=rr.mem,\n                        node_index=self.index, node_name=self.name)\n', "            mem  = rr.mem\n            slot = Slot(node_name=self.name, node_index=self.index, mem=mem,\n                        lfs=rr.lfs, gpus=gpus, cores=cores)\n")]),
    dict(name='find_slot: slot logged before its mem / node identity are stored on it', edits=[
        (_N, "            slot = Slot(cores=cores, gpus=gpus, lfs=rr.lfs, mem=rr.mem,\n                        node_index=self.index, node_name=self.name)\n", "            slot = Slot(cores=cores, gpus=gpus, lfs=rr.lfs)\n            print('found', slot)\n            slot.mem        = rr.mem\n            slot.node_index = self.index\n            slot.node_name  = self.name\n")]),
]
